//! C01/C02/C03: one real chmux port (sender at endpoint A, receiver at endpoint B) driven by big
//! steps, compared with the port-flow model (`Run/RunPort.v`, component 1).
use crate::{
    conn::{self, group, quiesce, Pair},
    rng::Rng,
};
use bytes::Bytes;
use futures::FutureExt;
use remoc::chmux::{self, verif::MultiplexMsg, Cfg, PortReq, Received, Receiver, Sender};
use std::{
    io::Write,
    sync::{Arc, Mutex},
};
use tokio::sync::mpsc;

const COMP: u128 = 1;

fn payload(n: usize, fill: u64) -> Vec<u8> {
    (0..n).map(|i| ((fill as usize + i) % 256) as u8).collect()
}

enum Cmd {
    Send(Vec<u8>),
    TrySend(Vec<u8>),
    ChunkStart,
    Chunk(Vec<u8>, bool),
    Connect(usize),
    Drop,
}

#[derive(Default)]
struct SenderStatus {
    running: bool,
    chunk_alive: bool,
    completed: usize,
    last: String,
    /// payloads of the data sends that returned Ok, in order (for the oracle)
    completed_msgs: Vec<Vec<u8>>,
    cancelled: usize,
}

/// Owns the `Sender`; executes one command at a time; a cancel signal drops the future in flight.
async fn sender_actor(
    mut tx: Sender, mut cmds: mpsc::UnboundedReceiver<Cmd>, mut cancel: mpsc::UnboundedReceiver<()>,
    st: Arc<Mutex<SenderStatus>>,
) {
    let mut pending: Option<Cmd> = None;
    loop {
        let cmd = match pending.take() {
            Some(c) => c,
            None => match cmds.recv().await {
                Some(c) => c,
                None => return,
            },
        };
        while cancel.try_recv().is_ok() {}
        match cmd {
            Cmd::Drop => {
                drop(tx);
                return;
            }
            Cmd::Send(data) => {
                st.lock().unwrap().running = true;
                let res = tokio::select! {
                    biased;
                    _ = cancel.recv() => None,
                    r = tx.send(Bytes::from(data.clone())) => Some(r),
                };
                let mut s = st.lock().unwrap();
                s.running = false;
                match res {
                    Some(Ok(())) => {
                        s.completed += 1;
                        s.completed_msgs.push(data);
                        s.last = "ok".into()
                    }
                    Some(Err(e)) => s.last = format!("err:{e:?}"),
                    None => {
                        s.cancelled += 1;
                        s.last = "cancelled".into()
                    }
                }
            }
            Cmd::TrySend(data) => {
                let r = tx.try_send(&Bytes::from(data.clone()));
                let mut s = st.lock().unwrap();
                match r {
                    Ok(()) => {
                        s.completed += 1;
                        s.completed_msgs.push(data);
                        s.last = "ok".into()
                    }
                    Err(e) => s.last = format!("err:{e:?}"),
                }
            }
            Cmd::Connect(n) => {
                st.lock().unwrap().running = true;
                let alloc = tx.port_allocator();
                let mut ports = Vec::new();
                for _ in 0..n {
                    ports.push(PortReq::new(alloc.allocate().await));
                }
                let res = tokio::select! {
                    biased;
                    _ = cancel.recv() => None,
                    r = tx.connect(ports, false) => Some(r),
                };
                let mut s = st.lock().unwrap();
                s.running = false;
                match res {
                    Some(Ok(_connects)) => {
                        s.completed += 1;
                        s.last = "ok".into()
                    }
                    Some(Err(e)) => s.last = format!("err:{e:?}"),
                    None => s.last = "cancelled".into(),
                }
            }
            Cmd::ChunkStart => {
                st.lock().unwrap().chunk_alive = true;
                let mut cs = Some(tx.send_chunks());
                let mut acc: Vec<u8> = Vec::new();
                // chunk session: commands until the chunk sender is consumed or dropped
                loop {
                    let c = tokio::select! {
                        biased;
                        _ = cancel.recv() => { break; }
                        c = cmds.recv() => c,
                    };
                    match c {
                        Some(Cmd::Chunk(data, fin)) => {
                            st.lock().unwrap().running = true;
                            let sender = cs.take().unwrap();
                            let empty = data.is_empty();
                            acc.extend_from_slice(&data);
                            let res = tokio::select! {
                                biased;
                                _ = cancel.recv() => None,
                                r = async {
                                    if fin {
                                        if empty { sender.finish().await.map(|_| None) } else { sender.send_final(Bytes::from(data)).await.map(|_| None) }
                                    } else {
                                        sender.send(Bytes::from(data)).await.map(Some)
                                    }
                                } => Some(r),
                            };
                            let mut s = st.lock().unwrap();
                            s.running = false;
                            match res {
                                Some(Ok(Some(next))) => {
                                    cs = Some(next);
                                    s.last = "ok".into();
                                }
                                Some(Ok(None)) => {
                                    s.completed += 1;
                                    s.completed_msgs.push(std::mem::take(&mut acc));
                                    s.last = "ok".into();
                                    break;
                                }
                                Some(Err(e)) => {
                                    s.last = format!("err:{e:?}");
                                    break;
                                }
                                None => {
                                    s.cancelled += 1;
                                    s.last = "cancelled".into();
                                    break;
                                }
                            }
                        }
                        Some(other) => {
                            // not a chunk command: the chunk sender is dropped, the command runs next
                            pending = Some(other);
                            break;
                        }
                        None => break,
                    }
                }
                drop(cs);
                st.lock().unwrap().chunk_alive = false;
            }
            Cmd::Chunk(_, _) => {
                st.lock().unwrap().last = "nochunksender".into();
            }
        }
    }
}

struct World {
    pair: Pair,
    rx: Receiver,
    // kept alive so that the reverse direction of the port stays open
    _rx_a: Receiver,
    _tx_b: Sender,
    cmd_tx: mpsc::UnboundedSender<Cmd>,
    cancel_tx: mpsc::UnboundedSender<()>,
    status: Arc<Mutex<SenderStatus>>,
    port_b: u32,
    port_a: u32,
    a2b_seen: usize,
    b2a_seen: usize,
    abandon: bool,
    abandoned: usize,
    chunked_seen: usize,
    streaming: Option<Vec<u8>>,
    finished: bool,
    delivered_now: Vec<u128>,
    /// independent record for the oracle
    received_msgs: Vec<Vec<u8>>,
    sent_cost: u64,
    credits_written: u64,
    ck: u32,
    lim: u32,
    oracle: Option<String>,
}

impl World {
    async fn settle(&mut self) {
        let pb = self.port_b;
        let pa = self.port_a;
        for _ in 0..4 {
            quiesce().await;
            self.pair.net.a2b.flush_unheld(&move |m| match m {
                MultiplexMsg::Data { port, .. } | MultiplexMsg::PortData { port, .. } | MultiplexMsg::SendFinish { port } => *port == pb,
                _ => false,
            });
            self.pair.net.b2a.flush_unheld(&move |m| matches!(m, MultiplexMsg::PortCredits { port, .. } if *port == pa));
        }
        quiesce().await;
    }

    /// the receiver takes everything available, following the receive protocol
    async fn pump(&mut self) {
        loop {
            self.settle().await;
            if self.finished {
                break;
            }
            if self.streaming.is_some() {
                match self.rx.recv_chunk().now_or_never() {
                    None => break,
                    Some(Ok(Some(chunk))) => self.streaming.as_mut().unwrap().extend_from_slice(&chunk),
                    Some(Ok(None)) => {
                        let b = self.streaming.take().unwrap();
                        if self.rx_finished_hint() {
                            self.finished = true;
                        } else {
                            self.delivered_now.push(2);
                            self.delivered_now.push(b.len() as u128);
                            self.delivered_now.extend(b.iter().map(|x| *x as u128));
                            self.received_msgs.push(b);
                        }
                    }
                    Some(Err(chmux::RecvChunkError::Cancelled)) => {
                        self.streaming = None;
                    }
                    Some(Err(chmux::RecvChunkError::ChMux)) => {
                        self.delivered_now.push(90);
                        break;
                    }
                }
            } else {
                match self.rx.recv_any().now_or_never() {
                    None => break,
                    Some(Ok(Some(Received::Data(d)))) => {
                        let b: Vec<u8> = d.into();
                        self.delivered_now.push(1);
                        self.delivered_now.push(b.len() as u128);
                        self.delivered_now.extend(b.iter().map(|x| *x as u128));
                        self.received_msgs.push(b);
                    }
                    Some(Ok(Some(Received::Chunks))) => {
                        self.chunked_seen += 1;
                        if self.abandon && self.chunked_seen % 2 == 1 {
                            // given up: the next call is recv_any again
                            self.abandoned += 1;
                        } else {
                            self.streaming = Some(Vec::new())
                        }
                    }
                    Some(Ok(Some(Received::Requests(reqs)))) => {
                        self.delivered_now.push(3);
                        self.delivered_now.push(reqs.len() as u128);
                        drop(reqs);
                    }
                    Some(Ok(None)) => {
                        self.finished = true;
                        break;
                    }
                    Some(Err(chmux::RecvError::ExceedsMaxPortCount(_))) => self.delivered_now.push(4),
                    Some(Err(_)) => {
                        self.delivered_now.push(90);
                        break;
                    }
                }
            }
        }
    }

    fn rx_finished_hint(&self) -> bool {
        false
    }

    /// what appeared on the wire since the last observation
    fn observe(&mut self) -> Vec<u128> {
        let mut out = vec![100];
        let frames = self.pair.net.a2b.log_from(self.a2b_seen);
        let msgs = group(&frames);
        let mut used = 0;
        for m in &msgs {
            used += m.frames;
            match &m.msg {
                MultiplexMsg::Data { port, first, last } if *port == self.port_b => {
                    let p = m.payload.as_ref().unwrap();
                    self.sent_cost += (p.len() as u64).max(1);
                    if p.len() > self.ck as usize && self.oracle.is_none() {
                        self.oracle = Some(format!("FAIL: C02 data frame of {} bytes exceeds advertised chunk size {}", p.len(), self.ck));
                    }
                    out.extend([1, *first as u128, *last as u128, p.len() as u128]);
                    out.extend(p.iter().map(|x| *x as u128));
                }
                MultiplexMsg::PortData { port, first, last, ports, .. } if *port == self.port_b => {
                    self.sent_cost += 4 * ports.len() as u64;
                    if 4 * ports.len() > self.ck as usize && self.oracle.is_none() {
                        self.oracle = Some(format!("FAIL: C02 port batch of {} ports exceeds advertised chunk size {}", ports.len(), self.ck));
                    }
                    if ports.is_empty() && self.oracle.is_none() {
                        self.oracle = Some("FAIL: C03 empty port batch emitted".into());
                    }
                    out.extend([2, *first as u128, *last as u128, ports.len() as u128]);
                }
                MultiplexMsg::SendFinish { port } if *port == self.port_b => out.push(3),
                _ => {}
            }
        }
        self.a2b_seen += used;
        out.push(101);
        let frames = self.pair.net.b2a.log_from(self.b2a_seen);
        let msgs = group(&frames);
        let mut used = 0;
        for m in &msgs {
            used += m.frames;
            if let MultiplexMsg::PortCredits { port, credits } = &m.msg {
                if *port == self.port_a {
                    out.push(*credits as u128);
                    self.credits_written += *credits as u64;
                }
            }
        }
        self.b2a_seen += used;
        // C02 wire monitor: cost put on the transport minus credits delivered to the sender <= buffer
        let pending_credits: u64 = {
            let l = self.pair.net.b2a.0.lock().unwrap();
            let fr: Vec<Bytes> = l.pending.iter().cloned().collect();
            group(&fr)
                .iter()
                .map(|m| match &m.msg {
                    MultiplexMsg::PortCredits { port, credits } if *port == self.port_a => *credits as u64,
                    _ => 0,
                })
                .sum()
        };
        let granted = self.credits_written - pending_credits;
        if self.sent_cost > granted + self.lim as u64 && self.oracle.is_none() {
            self.oracle = Some(format!(
                "FAIL: C02 sent cost {} minus granted credit {} exceeds advertised receive buffer {}",
                self.sent_cost, granted, self.lim
            ));
        }
        out.push(102);
        out.append(&mut self.delivered_now);
        let s = self.status.lock().unwrap();
        out.extend([
            103,
            if s.running { 1 } else if s.chunk_alive { 2 } else { 0 },
            s.completed as u128,
            self.finished as u128,
        ]);
        out
    }
}

/// input: [chunk; limit; cap_s; cap_r; max_data; max_ports; q1; q2; ops...] -- q1/q2 are the
/// sender endpoint's shared_send_queue and transport_send_queue (cap_s = q1 + q2 + 1), they are
/// passed to the model as part of the first six numbers only through cap_s.
pub fn exec(inp: &[u128]) -> (Vec<u128>, String, String) {
    if inp.len() < 6 {
        return (vec![98], "port:malformed".into(), "ok".into());
    }
    let (ck, lim, cap_s, _cap_r, md, mp) = (inp[0] as u32, inp[1] as u32, inp[2] as usize, inp[3] as usize, inp[4] as usize, inp[5] as usize);
    // max_ports >= 1000 marks a case with a consumer that does not follow the chunk protocol: it gives up every other
    // chunked message by calling recv_any again instead of draining it with recv_chunk (the rest of that message is then
    // discarded by the receiver).  Not predicted by the model (both sides answer [96]); judged by the oracle only.
    let abandon = mp >= 1000;
    let mp = mp % 1000;
    // cap_s = q1 + q2 + 1 with q1 = ceil((cap_s-1)/2)
    let q1 = ((cap_s - 1) + 1) / 2;
    let q2 = (cap_s - 1) - q1;
    let (q1, q2) = (q1.max(1), q2.max(1));
    let ops = inp[6..].to_vec();
    let rt = conn::runtime();
    let res = rt.block_on(async move {
        let cfg_a = Cfg {
            connection_timeout: None,
            shared_send_queue: q1,
            transport_send_queue: q2,
            chunk_size: 16,
            receive_buffer: 64,
            ..Default::default()
        };
        let cfg_b = Cfg {
            connection_timeout: None,
            chunk_size: ck,
            receive_buffer: lim,
            max_data_size: md,
            max_received_ports: mp,
            ..Default::default()
        };
        let mut pair = conn::connect(cfg_a, cfg_b).await;
        let ((tx_a, rx_a), (tx_b, rx_b)) = conn::open_port(&mut pair).await;
        quiesce().await;
        pair.net.set_auto(false);
        let (cmd_tx, cmd_rx) = mpsc::unbounded_channel();
        let (cancel_tx, cancel_rx) = mpsc::unbounded_channel();
        let status = Arc::new(Mutex::new(SenderStatus::default()));
        let port_b = tx_a.remote_port();
        let port_a = tx_a.local_port();
        tokio::spawn(sender_actor(tx_a, cmd_rx, cancel_rx, status.clone()));
        let a2b_seen = pair.net.a2b.log_len();
        let b2a_seen = pair.net.b2a.log_len();
        let mut w = World {
            pair,
            rx: rx_b,
            _rx_a: rx_a,
            _tx_b: tx_b,
            cmd_tx,
            cancel_tx,
            status,
            port_b,
            port_a,
            a2b_seen,
            b2a_seen,
            streaming: None,
            abandon,
            abandoned: 0,
            chunked_seen: 0,
            finished: false,
            delivered_now: vec![],
            received_msgs: vec![],
            sent_cost: 0,
            credits_written: 0,
            ck,
            lim,
            oracle: None,
        };
        let mut out = Vec::new();
        let mut sig: Vec<String> = Vec::new();
        let mut i = 0;
        let mut oracle = "ok".to_string();
        while i + 1 < ops.len() {
            let code = ops[i];
            let n = ops[i + 1] as usize;
            let args: Vec<u128> = ops[i + 2..(i + 2 + n).min(ops.len())].to_vec();
            i += 2 + n;
            let (running, chunk_alive) = {
                let s = w.status.lock().unwrap();
                (s.running, s.chunk_alive)
            };
            // like the model, calls that the borrow checker would not allow (an operation or a chunk
            // sender still borrows the sender) are no-ops
            let allowed = match code {
                1 | 2 | 3 | 7 | 14 => !running && !chunk_alive,
                4 => !running && chunk_alive,
                _ => true,
            };
            if !allowed {
                sig.push("noop".into());
                w.settle().await;
                let o = w.observe();
                out.extend(o);
                continue;
            }
            match (code, args.as_slice()) {
                (1, [n, fill]) => {
                    let d = payload(*n as usize, *fill as u64);
                    let _ = w.cmd_tx.send(Cmd::Send(d));
                    sig.push("send".into());
                }
                (2, [n, fill, _slots]) => {
                    let d = payload(*n as usize, *fill as u64);
                    let _ = w.cmd_tx.send(Cmd::TrySend(d));
                    sig.push("try".into());
                }
                (3, []) => {
                    let _ = w.cmd_tx.send(Cmd::ChunkStart);
                    sig.push("cs".into());
                }
                (4, [n, fill, f]) => {
                    let d = payload(*n as usize, *fill as u64);
                    let _ = w.cmd_tx.send(Cmd::Chunk(d, *f != 0));
                    sig.push(if *f != 0 { "chf".into() } else { "ch".into() });
                }
                (6, []) => {
                    let _ = w.cancel_tx.send(());
                    sig.push("cancel".into());
                }
                (7, [n]) => {
                    let _ = w.cmd_tx.send(Cmd::Connect(*n as usize));
                    sig.push("conn".into());
                }
                (8, [k]) => {
                    w.settle().await;
                    w.pair.net.a2b.deliver_msgs(*k as usize);
                    sig.push("dab".into());
                }
                (9, [k]) => {
                    w.settle().await;
                    w.pair.net.b2a.deliver_msgs(*k as usize);
                    sig.push("dba".into());
                }
                (10, []) => {
                    w.pump().await;
                    sig.push("pump".into());
                }
                (13, [b]) => {
                    w.settle().await;
                    w.pair.net.a2b.set_sink_ready(*b != 0);
                    sig.push(if *b != 0 { "rdy".into() } else { "nrdy".into() });
                }
                (14, []) => {
                    let _ = w.cmd_tx.send(Cmd::Drop);
                    sig.push("droptx".into());
                }
                _ => {}
            }
            w.settle().await;
            let o = w.observe();
            out.extend(o);
        }
        // Oracle (independent of the model).
        // C01: the data messages received are, byte for byte and in order, a prefix of the data sends that
        // returned Ok; the case ends with a drain phase (sink ready, everything delivered, receiver pumping),
        // after which -- if no operation is pending -- every completed send must have arrived.
        // C03: after the drain phase no operation may still be pending.
        let mut probe_completed = false;
        // C03 leak probe: after the drain phase the receiver has consumed everything, so the credits the
        // peer has granted leave the sender exactly `limit - (sent - granted)` to spend. A send of that
        // many bytes must complete without any further credit.
        {
            let (running, chunk_alive, completed) = {
                let s = w.status.lock().unwrap();
                (s.running, s.chunk_alive, s.completed)
            };
            let pending_credits: u64 = {
                let l = w.pair.net.b2a.0.lock().unwrap();
                let fr: Vec<Bytes> = l.pending.iter().cloned().collect();
                group(&fr).iter().map(|m| match &m.msg {
                    MultiplexMsg::PortCredits { port, credits } if *port == w.port_a => *credits as u64,
                    _ => 0,
                }).sum()
            };
            let granted = w.credits_written - pending_credits;
            let outstanding = w.sent_cost.saturating_sub(granted);
            if !running && !chunk_alive && !w.finished && w.oracle.is_none() && (w.lim as u64) > outstanding {
                let n = (w.lim as u64 - outstanding) as usize;
                w.pair.net.a2b.set_sink_ready(true);
                let _ = w.cmd_tx.send(Cmd::Send(vec![0x5a; n]));
                w.settle().await;
                let s = w.status.lock().unwrap();
                probe_completed = s.completed == completed + 1;
                if s.running || s.completed != completed + 1 {
                    w.oracle = Some(format!(
                        "FAIL: C03 credit leak: the peer has granted credit for {n} more bytes (buffer {}, sent {}, granted {}), but a send of {n} bytes is left waiting",
                        w.lim, w.sent_cost, granted
                    ));
                }
            }
        }
        if w.pair.net.a2b.over_budget() || w.pair.net.b2a.over_budget() {
            w.oracle = Some("FAIL: C03 frame budget exceeded: an endpoint keeps emitting frames without making progress (livelock)".into());
        }
        if probe_completed {
            w.status.lock().unwrap().completed_msgs.pop();
        }
        let st = w.status.lock().unwrap();
        let done = &st.completed_msgs;
        let got = &w.received_msgs;
        if let Some(o) = &w.oracle {
            oracle = o.clone();
        } else if w.abandon {
            // what was received is, in order, what was sent successfully minus at most the messages the consumer gave up
            let mut k = 0;
            for g in got.iter() {
                while k < done.len() && &done[k] != g {
                    k += 1;
                }
                if k == done.len() {
                    oracle = "FAIL: C01 a received message is not among the completed sends (in order)".into();
                    break;
                }
                k += 1;
            }
            if oracle == "ok" {
                if st.running {
                    oracle = "FAIL: C03 an operation is still pending after the transport was drained and the receiver consumed everything (the consumer gave up some chunked messages, which must not cost credits)".into();
                } else if done.len() > got.len() + w.abandoned {
                    oracle = format!("FAIL: C01 {} sends completed, the consumer gave up {} chunked messages, but only {} arrived", done.len(), w.abandoned, got.len());
                }
            }
        } else if got.len() > done.len() || got.iter().zip(done.iter()).any(|(a, b)| a != b) {
            oracle = format!("FAIL: C01 received data messages are not a prefix of the completed sends ({} received, {} completed)", got.len(), done.len());
        } else if st.running {
            oracle = "FAIL: C03 an operation is still pending after the transport was drained and the receiver consumed everything".into();
        } else if got.len() != done.len() {
            oracle = format!("FAIL: C01 {} sends completed but only {} messages arrived after the drain phase", done.len(), got.len());
        }
        drop(st);
        if w.abandoned > 0 {
            sig.push("gaveup".into());
        }
        (out, sig, oracle)
    });
    let (out, sig, oracle) = res;
    let mut sig = sig;
    if abandon {
        sig.push("giveup".into());
    }
    let out = if abandon { vec![96] } else { out };
    let mut counts = std::collections::BTreeMap::new();
    for s in &sig {
        *counts.entry(s.clone()).or_insert(0usize) += 1;
    }
    let sigs = counts.iter().map(|(k, v)| format!("{k}{}", (*v).min(3))).collect::<Vec<_>>().join(",");
    (out, format!("port:ck{}:lim{}:{}", ck.min(9), if lim % 4 == 0 { "m4" } else { "nm4" }, sigs), oracle)
}

fn push_op(v: &mut Vec<u128>, code: u128, args: &[u128]) {
    v.push(code);
    v.push(args.len() as u128);
    v.extend_from_slice(args);
}

pub fn gen(r: &mut Rng, _i: usize) -> Vec<Vec<u128>> {
    let ck = *r.pick(&[4u128, 5, 7, 8, 16, 64]);
    let lim = *r.pick(&[4u128, 5, 6, 7, 8, 9, 12, 16, 17, 32, 64, 100]);
    let q1 = r.range(1, 3) as u128;
    let q2 = q1 - r.below(2) as u128;
    let q2 = q2.max(1);
    // cap_s = q1 + q2 + 1 must map back to (q1, q2) in exec: q1 = ceil((cap_s-1)/2), q2 = rest
    let cap_s = q1 + q2 + 1;
    let md = *r.pick(&[4u128, 8, 16, 40, 300]);
    let mp = *r.pick(&[1u128, 2, 8]);
    // one case in six: a consumer that gives up chunked messages (oracle only)
    let mp = if r.chance(1, 6) { mp + 1000 } else { mp };
    let mut v = vec![ck, lim, cap_s, 16, md, mp];
    let nops = r.range(4, 30);
    let mut chunk_alive = false;
    let mut running = false;
    let mut sink_ready = true;
    let sizes = [0u128, 1, 2, 3, ck - 1, ck, ck + 1, lim - 1, lim, lim + 1, 2 * lim + 3, md.min(41), md.min(40) + 1, 3 * ck];
    for _ in 0..nops {
        let choice = r.below(100);
        if running {
            // an operation is pending: deliver, pump, cancel
            match choice {
                0..=34 => push_op(&mut v, 10, &[]),
                35..=59 => push_op(&mut v, 8, &[r.range(1, 3) as u128]),
                60..=84 => push_op(&mut v, 9, &[r.range(1, 2) as u128]),
                85..=92 => {
                    push_op(&mut v, 6, &[]);
                    running = false;
                    chunk_alive = false;
                }
                _ => {
                    sink_ready = !sink_ready;
                    push_op(&mut v, 13, &[sink_ready as u128]);
                }
            }
            // whether it is still running is unknown to the generator; assume it may have finished
            if r.chance(1, 2) {
                running = false;
            }
            continue;
        }
        if chunk_alive && r.chance(1, 2) {
            let n = *r.pick(&sizes);
            let f = r.chance(1, 3);
            push_op(&mut v, 4, &[n, r.below(256) as u128, f as u128]);
            running = true;
            if f {
                chunk_alive = false;
            }
            continue;
        }
        match choice {
            0..=24 => {
                if chunk_alive {
                    push_op(&mut v, 6, &[]);
                }
                let n = *r.pick(&sizes);
                push_op(&mut v, 1, &[n, r.below(256) as u128]);
                running = true;
                chunk_alive = false;
            }
            25..=34 if sink_ready => {
                if chunk_alive {
                    push_op(&mut v, 6, &[]);
                    chunk_alive = false;
                }
                let n = *r.pick(&sizes);
                push_op(&mut v, 2, &[n, r.below(256) as u128, q1]);
            }
            35..=44 => {
                if !chunk_alive {
                    push_op(&mut v, 3, &[]);
                    chunk_alive = true;
                } else {
                    let n = *r.pick(&sizes);
                    let f = r.chance(1, 3);
                    push_op(&mut v, 4, &[n, r.below(256) as u128, f as u128]);
                    running = true;
                    if f {
                        chunk_alive = false;
                    }
                }
            }
            45..=52 => {
                if chunk_alive {
                    push_op(&mut v, 6, &[]);
                }
                push_op(&mut v, 7, &[r.range(1, 5) as u128]);
                running = true;
                chunk_alive = false;
            }
            53..=67 => push_op(&mut v, 10, &[]),
            68..=79 => push_op(&mut v, 8, &[r.range(1, 4) as u128]),
            80..=91 => push_op(&mut v, 9, &[r.range(1, 3) as u128]),
            92..=95 => {
                push_op(&mut v, 6, &[]);
                chunk_alive = false;
            }
            _ => {
                sink_ready = !sink_ready;
                push_op(&mut v, 13, &[sink_ready as u128]);
            }
        }
    }
    // drain: make the sink ready, deliver everything, pump
    push_op(&mut v, 13, &[1]);
    let rounds = 6 + 2 * (200 / lim);
    for _ in 0..rounds {
        push_op(&mut v, 8, &[50]);
        push_op(&mut v, 10, &[]);
        push_op(&mut v, 9, &[50]);
    }
    vec![v]
}

pub fn run(seed: u64, count: usize, extra: &[String], out: &mut impl Write) {
    crate::drive(COMP, seed ^ 0xC01, count, extra, out, gen, exec);
}
