//! C13 (hash map): random operation sequences over the full mutating API of the real
//! `ObservableHashMap<u64, u64>`; events per operation are recorded through a hand-held subscription,
//! a real `mirror()` runs locally, a second subscription made at the same point is consumed by hand.
//! Number format: see coq/theories/Run/RunRobsMap.v.
use crate::rng::Rng;
use remoc::robs::hash_map::{Entry, HashMapEvent, HashMapSubscription, ObservableHashMap, RefMut};
use remoc::robs::RecvError;
use std::{
    collections::HashMap,
    future::Future,
    io::Write,
    panic::{catch_unwind, AssertUnwindSafe},
    task::{Context, Poll},
    time::Duration,
};

const COMP: u128 = 134;
type Cd = remoc::codec::Default;
type Obs = ObservableHashMap<u64, u64, Cd>;
type Sub = HashMapSubscription<u64, u64, Cd>;

#[derive(Clone, Copy, Debug)]
pub enum Access {
    Read,
    Touch,
    Write(u64),
}
#[derive(Clone, Copy, Debug)]
pub struct Decision {
    pub keep: bool,
    pub acc: Access,
}
#[derive(Clone, Debug)]
pub enum OccStep {
    GetMut(Access),
    Insert(u64),
}
#[derive(Clone, Debug)]
pub enum OccFinal {
    Drop,
    RemoveEntry,
    Remove,
    IntoMut(Access),
}
#[derive(Clone, Debug)]
pub enum VacUse {
    Drop,
    IntoKey,
    Insert(u64, Access),
}
#[derive(Clone, Debug)]
pub enum EntryFinal {
    Unused,
    OrInsert(u64, Access),
    OrInsertWith(u64, Access),
    OrInsertWithKey(u64, Access),
    OrDefault(Access),
    Match(Vec<OccStep>, OccFinal, VacUse),
}
#[derive(Clone, Debug)]
pub enum Op {
    SetErrorHandler,
    Insert(u64, u64),
    Remove(u64),
    Clear,
    Retain(Decision, Vec<(u64, Decision)>),
    Entry(u64, Vec<Option<u64>>, EntryFinal),
    GetMut(u64, Access),
    IterMut(Vec<(u64, Access)>),
    ShrinkToFit,
    Done,
}

// ---------------------------------------------------------------------------------------------
// encoding / decoding
fn enc_access(a: Access, v: &mut Vec<u128>) {
    match a {
        Access::Read => v.extend([0, 0]),
        Access::Touch => v.extend([1, 0]),
        Access::Write(x) => v.extend([2, x as u128]),
    }
}
fn enc_decision(d: Decision, v: &mut Vec<u128>) {
    v.push(d.keep as u128);
    enc_access(d.acc, v);
}
pub fn enc_op(o: &Op, v: &mut Vec<u128>) {
    match o {
        Op::SetErrorHandler => v.push(0),
        Op::Insert(k, x) => v.extend([1, *k as u128, *x as u128]),
        Op::Remove(k) => v.extend([2, *k as u128]),
        Op::Clear => v.push(3),
        Op::Retain(d, ds) => {
            v.push(4);
            enc_decision(*d, v);
            v.push(ds.len() as u128);
            for (k, d) in ds {
                v.push(*k as u128);
                enc_decision(*d, v);
            }
        }
        Op::Entry(k, mods, fin) => {
            v.extend([5, *k as u128, mods.len() as u128]);
            for m in mods {
                match m {
                    Some(x) => v.extend([1, *x as u128]),
                    None => v.extend([0, 0]),
                }
            }
            match fin {
                EntryFinal::Unused => v.push(0),
                EntryFinal::OrInsert(x, a) => {
                    v.extend([1, *x as u128]);
                    enc_access(*a, v)
                }
                EntryFinal::OrInsertWith(x, a) => {
                    v.extend([2, *x as u128]);
                    enc_access(*a, v)
                }
                EntryFinal::OrInsertWithKey(x, a) => {
                    v.extend([3, *x as u128]);
                    enc_access(*a, v)
                }
                EntryFinal::OrDefault(a) => {
                    v.push(4);
                    enc_access(*a, v)
                }
                EntryFinal::Match(steps, f, vac) => {
                    v.extend([5, steps.len() as u128]);
                    for s in steps {
                        match s {
                            OccStep::GetMut(a) => {
                                v.push(0);
                                enc_access(*a, v)
                            }
                            OccStep::Insert(x) => v.extend([1, *x as u128, 0]),
                        }
                    }
                    match f {
                        OccFinal::Drop => v.extend([0, 0, 0]),
                        OccFinal::RemoveEntry => v.extend([1, 0, 0]),
                        OccFinal::Remove => v.extend([2, 0, 0]),
                        OccFinal::IntoMut(a) => {
                            v.push(3);
                            enc_access(*a, v)
                        }
                    }
                    match vac {
                        VacUse::Drop => v.extend([0, 0, 0, 0]),
                        VacUse::IntoKey => v.extend([1, 0, 0, 0]),
                        VacUse::Insert(x, a) => {
                            v.extend([2, *x as u128]);
                            enc_access(*a, v)
                        }
                    }
                }
            }
        }
        Op::GetMut(k, a) => {
            v.extend([6, *k as u128]);
            enc_access(*a, v)
        }
        Op::IterMut(us) => {
            v.extend([7, us.len() as u128]);
            for (k, a) in us {
                v.push(*k as u128);
                enc_access(*a, v);
            }
        }
        Op::ShrinkToFit => v.push(8),
        Op::Done => v.push(9),
    }
}

struct Cur<'a>(&'a [u128], usize);
impl Cur<'_> {
    fn next(&mut self) -> Option<u64> {
        let x = *self.0.get(self.1)?;
        self.1 += 1;
        u64::try_from(x).ok()
    }
    fn end(&self) -> bool {
        self.1 >= self.0.len()
    }
    fn access(&mut self) -> Option<Access> {
        let t = self.next()?;
        let v = self.next()?;
        match t {
            0 => Some(Access::Read),
            1 => Some(Access::Touch),
            2 => Some(Access::Write(v)),
            _ => None,
        }
    }
    fn decision(&mut self) -> Option<Decision> {
        let keep = self.next()? != 0;
        Some(Decision { keep, acc: self.access()? })
    }
}

fn dec_op(c: &mut Cur) -> Option<Op> {
    Some(match c.next()? {
        0 => Op::SetErrorHandler,
        1 => Op::Insert(c.next()?, c.next()?),
        2 => Op::Remove(c.next()?),
        3 => Op::Clear,
        4 => {
            let d = c.decision()?;
            let n = c.next()?;
            let mut ds = Vec::new();
            for _ in 0..n {
                let k = c.next()?;
                ds.push((k, c.decision()?));
            }
            Op::Retain(d, ds)
        }
        5 => {
            let k = c.next()?;
            let n = c.next()?;
            let mut mods = Vec::new();
            for _ in 0..n {
                let w = c.next()?;
                let v = c.next()?;
                mods.push(if w != 0 { Some(v) } else { None });
            }
            let fin = match c.next()? {
                0 => EntryFinal::Unused,
                1 => EntryFinal::OrInsert(c.next()?, c.access()?),
                2 => EntryFinal::OrInsertWith(c.next()?, c.access()?),
                3 => EntryFinal::OrInsertWithKey(c.next()?, c.access()?),
                4 => EntryFinal::OrDefault(c.access()?),
                5 => {
                    let n = c.next()?;
                    let mut steps = Vec::new();
                    for _ in 0..n {
                        steps.push(match c.next()? {
                            0 => OccStep::GetMut(c.access()?),
                            1 => {
                                let v = c.next()?;
                                c.next()?;
                                OccStep::Insert(v)
                            }
                            _ => return None,
                        });
                    }
                    let f = c.next()?;
                    let a = c.access()?;
                    let u = c.next()?;
                    let v = c.next()?;
                    let a2 = c.access()?;
                    let fin = match f {
                        0 => OccFinal::Drop,
                        1 => OccFinal::RemoveEntry,
                        2 => OccFinal::Remove,
                        3 => OccFinal::IntoMut(a),
                        _ => return None,
                    };
                    let vac = match u {
                        0 => VacUse::Drop,
                        1 => VacUse::IntoKey,
                        2 => VacUse::Insert(v, a2),
                        _ => return None,
                    };
                    EntryFinal::Match(steps, fin, vac)
                }
                _ => return None,
            };
            Op::Entry(k, mods, fin)
        }
        6 => Op::GetMut(c.next()?, c.access()?),
        7 => {
            let n = c.next()?;
            let mut us = Vec::new();
            for _ in 0..n {
                let k = c.next()?;
                us.push((k, c.access()?));
            }
            Op::IterMut(us)
        }
        8 => Op::ShrinkToFit,
        9 => Op::Done,
        _ => return None,
    })
}

pub struct CaseIn {
    pub incremental: bool,
    pub max: u64,
    pub k: usize,
    pub init: Vec<(u64, u64)>,
    pub ops: Vec<Op>,
}

pub fn decode(inp: &[u128]) -> Option<CaseIn> {
    let mut c = Cur(inp, 0);
    let incremental = c.next()? != 0;
    let max = c.next()?;
    let k = c.next()? as usize;
    let n = c.next()?;
    let mut init = Vec::new();
    for _ in 0..n {
        init.push((c.next()?, c.next()?));
    }
    let mut ops = Vec::new();
    while !c.end() {
        ops.push(dec_op(&mut c)?);
    }
    Some(CaseIn { incremental, max, k, init, ops })
}

pub fn encode(c: &CaseIn) -> Vec<u128> {
    let mut v = vec![c.incremental as u128, c.max as u128, c.k as u128, c.init.len() as u128];
    for (k, x) in &c.init {
        v.extend([*k as u128, *x as u128]);
    }
    for o in &c.ops {
        enc_op(o, &mut v);
    }
    v
}

// ---------------------------------------------------------------------------------------------
// running the real thing
pub fn poll_once<F: Future>(f: F) -> Option<F::Output> {
    let mut f = std::pin::pin!(tokio::task::unconstrained(f));
    let waker = futures::task::noop_waker();
    let mut cx = Context::from_waker(&waker);
    match f.as_mut().poll(&mut cx) {
        Poll::Ready(v) => Some(v),
        Poll::Pending => None,
    }
}

/// quiescence barrier: with the paused clock this returns only when every other task is idle
pub async fn barrier() {
    tokio::time::sleep(Duration::from_nanos(1)).await;
}

fn use_ref(mut r: RefMut<'_, u64, u64, Cd>, a: Access) {
    match a {
        Access::Read => {
            let _x: u64 = *r;
        }
        Access::Touch => {
            let _x: &mut u64 = &mut r;
        }
        Access::Write(v) => *r = v,
    }
}

fn decide(d: &Decision, ds: &[(u64, Decision)], k: u64) -> Decision {
    ds.iter().find(|(kk, _)| *kk == k).map(|(_, d)| *d).unwrap_or(*d)
}

/// Applies one operation; returns (branch tag, a retain closure changed the value of a kept entry).
fn apply(obs: &mut Obs, op: &Op) -> (String, bool) {
    let mut silent = false;
    let tag = match op {
        Op::SetErrorHandler => {
            obs.set_error_handler(|_| ());
            "set_error_handler".to_string()
        }
        Op::Insert(k, v) => {
            if obs.insert(*k, *v).is_some() { "insert-ovw" } else { "insert-new" }.to_string()
        }
        Op::Remove(k) => if obs.remove(k).is_some() { "remove-hit" } else { "remove-miss" }.to_string(),
        Op::Clear => {
            let e = obs.is_empty();
            obs.clear();
            if e { "clear-empty" } else { "clear" }.to_string()
        }
        Op::Retain(d, ds) => {
            let (mut removed, mut wr_removed) = (0, false);
            obs.retain(|k, v| {
                let dd = decide(d, ds, *k);
                if let Access::Write(w) = dd.acc {
                    if dd.keep && w != *v {
                        silent = true;
                    }
                    if !dd.keep {
                        wr_removed = true;
                    }
                    *v = w;
                }
                if !dd.keep {
                    removed += 1;
                }
                dd.keep
            });
            if silent {
                "retain-mut-kept".to_string()
            } else if wr_removed {
                "retain-mut-removed".to_string()
            } else if removed > 0 {
                "retain-rm".to_string()
            } else {
                "retain-all".to_string()
            }
        }
        Op::Entry(k, mods, fin) => {
            let occ = obs.contains_key(k);
            let mut e = obs.entry(*k);
            for m in mods {
                let m = *m;
                e = e.and_modify(move |v| {
                    if let Some(x) = m {
                        *v = x;
                    }
                });
            }
            let name = match fin {
                EntryFinal::Unused => {
                    let _ = e.key();
                    "unused"
                }
                EntryFinal::OrInsert(v, a) => {
                    use_ref(e.or_insert(*v), *a);
                    "or_insert"
                }
                EntryFinal::OrInsertWith(v, a) => {
                    let v = *v;
                    use_ref(e.or_insert_with(move || v), *a);
                    "or_insert_with"
                }
                EntryFinal::OrInsertWithKey(v, a) => {
                    let v = *v;
                    use_ref(e.or_insert_with_key(move |_| v), *a);
                    "or_insert_with_key"
                }
                EntryFinal::OrDefault(a) => {
                    use_ref(e.or_default(), *a);
                    "or_default"
                }
                EntryFinal::Match(steps, f, vac) => match e {
                    Entry::Occupied(mut o) => {
                        for s in steps {
                            match s {
                                OccStep::GetMut(a) => use_ref(o.get_mut(), *a),
                                OccStep::Insert(v) => {
                                    o.insert(*v);
                                }
                            }
                        }
                        match f {
                            OccFinal::Drop => {
                                let _ = o.get();
                                "match-drop"
                            }
                            OccFinal::RemoveEntry => {
                                o.remove_entry();
                                "match-remove_entry"
                            }
                            OccFinal::Remove => {
                                o.remove();
                                "match-remove"
                            }
                            OccFinal::IntoMut(a) => {
                                use_ref(o.into_mut(), *a);
                                "match-into_mut"
                            }
                        }
                    }
                    Entry::Vacant(ve) => match vac {
                        VacUse::Drop => {
                            let _ = ve.key();
                            "match-drop"
                        }
                        VacUse::IntoKey => {
                            let _ = ve.into_key();
                            "match-into_key"
                        }
                        VacUse::Insert(v, a) => {
                            use_ref(ve.insert(*v), *a);
                            "match-insert"
                        }
                    },
                },
            };
            format!("entry-{}-{}{}", if occ { "occ" } else { "vac" }, name, if mods.is_empty() { "" } else { "+and_modify" })
        }
        Op::GetMut(k, a) => match obs.get_mut(k) {
            Some(r) => {
                use_ref(r, *a);
                match a {
                    Access::Read => "get_mut-read",
                    Access::Touch => "get_mut-touch",
                    Access::Write(_) => "get_mut-write",
                }
                .to_string()
            }
            None => "get_mut-miss".to_string(),
        },
        Op::IterMut(uses) => {
            // RefMut does not expose its key; iter() and iter_mut() walk the same table in the same order
            let keys: Vec<u64> = obs.keys().copied().collect();
            let mut refs: Vec<(u64, Option<RefMut<'_, u64, u64, Cd>>)> =
                keys.into_iter().zip(obs.iter_mut()).map(|(k, r)| (k, Some(r))).collect();
            let mut any = false;
            for (k, a) in uses {
                if let Some(slot) = refs.iter_mut().find(|(kk, r)| kk == k && r.is_some()) {
                    use_ref(slot.1.take().unwrap(), *a);
                    any |= !matches!(a, Access::Read);
                }
            }
            drop(refs);
            if any { "iter_mut-write" } else { "iter_mut-read" }.to_string()
        }
        Op::ShrinkToFit => {
            obs.shrink_to_fit();
            "shrink_to_fit".to_string()
        }
        Op::Done => {
            let d = obs.is_done();
            obs.done();
            if d { "done-again" } else { "done" }.to_string()
        }
    };
    (tag, silent)
}

fn enc_event(e: &HashMapEvent<u64, u64>) -> Vec<u128> {
    match e {
        HashMapEvent::Set(k, v) => vec![1, *k as u128, *v as u128],
        HashMapEvent::Remove(k) => vec![2, *k as u128],
        HashMapEvent::Clear => vec![3],
        HashMapEvent::ShrinkToFit => vec![4],
        HashMapEvent::Done => vec![5],
        HashMapEvent::InitialComplete => vec![6],
    }
}

fn enc_map(m: &HashMap<u64, u64>, out: &mut Vec<u128>) {
    let mut v: Vec<(u64, u64)> = m.iter().map(|(k, v)| (*k, *v)).collect();
    v.sort();
    out.push(v.len() as u128);
    for (k, x) in v {
        out.extend([k as u128, x as u128]);
    }
}

/// drains what the subscription can deliver right now; Err(code) on a receive error
fn drain(sub: &mut Sub, into: &mut Vec<HashMapEvent<u64, u64>>, ended: &mut bool) -> Result<(), u128> {
    loop {
        match poll_once(sub.recv()) {
            Some(Ok(Some(e))) => into.push(e),
            Some(Ok(None)) => {
                *ended = true;
                return Ok(());
            }
            Some(Err(e)) => return Err(err_code(&e)),
            None => return Ok(()),
        }
    }
}

fn err_code(e: &RecvError) -> u128 {
    match e {
        RecvError::MaxSizeExceeded(_) => 1,
        RecvError::Closed => 2,
        RecvError::Lagged => 3,
        _ => 4,
    }
}

/// rarest-first ranking of branch tags for the case signature
fn rank(tag: &str) -> usize {
    const ORDER: &[&str] = &[
        "done-again", "entry-occ-match-remove", "entry-occ-match-remove_entry", "entry-vac-match-insert",
        "entry-occ-match-into_mut", "entry-vac-match-into_key", "entry-occ-match-drop", "entry-vac-match-drop",
        "entry-occ-or_insert_with_key", "entry-vac-or_insert_with_key", "entry-occ-or_insert_with", "entry-vac-or_insert_with",
        "entry-occ-or_default", "entry-vac-or_default", "entry-occ-or_insert", "entry-vac-or_insert", "entry-occ-unused",
        "entry-vac-unused", "retain-mut-removed", "retain-rm", "retain-all", "iter_mut-write", "iter_mut-read",
        "get_mut-touch", "get_mut-write", "get_mut-read", "get_mut-miss", "clear-empty", "clear", "panic", "remove-miss",
        "remove-hit", "insert-ovw", "insert-new", "shrink_to_fit", "set_error_handler", "done",
    ];
    let base = tag.strip_suffix("+and_modify").unwrap_or(tag);
    ORDER.iter().position(|t| *t == base).unwrap_or(ORDER.len())
}

pub fn exec(inp: &[u128]) -> (Vec<u128>, String, String) {
    let Some(case) = decode(inp) else { return (vec![98], "malformed".into(), "ok".into()) };
    let rt = tokio::runtime::Builder::new_current_thread().enable_time().start_paused(true).build().unwrap();
    rt.block_on(async move {
        let mut out: Vec<u128> = Vec::new();
        let init: HashMap<u64, u64> = case.init.iter().copied().collect();
        let mut obs: Obs = ObservableHashMap::from(init);
        // hand-held subscription that sees every event from the start
        let mut tap = obs.subscribe(8192);
        tap.take_initial();
        let mut tap_ended = false;
        let mut mirror = None;
        let mut hand: Option<Sub> = None;
        let mut hand_map: HashMap<u64, u64> = HashMap::new();
        let (mut f4, mut sub_after_done) = (false, false);
        let mut tags: Vec<String> = Vec::new();
        let k = case.k.min(case.ops.len());
        for i in 0..=case.ops.len() {
            if i == k {
                // subscription point
                let (s1, mut s2) = if case.incremental {
                    (obs.subscribe_incremental(8192), obs.subscribe_incremental(8192))
                } else {
                    (obs.subscribe(8192), obs.subscribe(8192))
                };
                sub_after_done = obs.is_done();
                if let Some(m) = s2.take_initial() {
                    hand_map = m;
                }
                mirror = Some(s1.mirror(case.max as usize));
                hand = Some(s2);
            }
            if i == case.ops.len() {
                break;
            }
            let op = &case.ops[i];
            let res = catch_unwind(AssertUnwindSafe(|| apply(&mut obs, op)));
            if (i + case.init.len()) % 3 == 0 {
                barrier().await;
            }
            match res {
                Err(_) => {
                    out.push(99);
                    if i >= k {
                        tags.push("panic".into());
                    }
                }
                Ok((tag, silent)) => {
                    let mut evs = Vec::new();
                    if let Err(c) = drain(&mut tap, &mut evs, &mut tap_ended) {
                        out.extend([97, c]);
                    }
                    if matches!(op, Op::Retain(..)) {
                        // visit order of HashMap::retain is arbitrary
                        evs.sort_by_key(|e| match e {
                            HashMapEvent::Remove(k) => *k,
                            _ => u64::MAX,
                        });
                    }
                    out.push(evs.len() as u128);
                    for e in &evs {
                        out.extend(enc_event(e));
                    }
                    if i >= k {
                        f4 |= silent;
                        tags.push(tag);
                    }
                }
            }
        }
        // let the mirror task and the incremental senders run to quiescence
        let mirror = mirror.unwrap();
        let mut hand = hand.unwrap();
        let (mut hand_complete, mut hand_done, mut hand_ended, mut hand_err) = (!case.incremental, false, false, 0u128);
        for _ in 0..4 {
            barrier().await;
            let mut evs = Vec::new();
            if let Err(c) = drain(&mut hand, &mut evs, &mut hand_ended) {
                hand_err = c;
            }
            for e in evs {
                match e {
                    HashMapEvent::Set(k, v) => {
                        hand_map.insert(k, v);
                    }
                    HashMapEvent::Remove(k) => {
                        hand_map.remove(&k);
                    }
                    HashMapEvent::Clear => hand_map.clear(),
                    HashMapEvent::ShrinkToFit => hand_map.shrink_to_fit(),
                    HashMapEvent::Done => hand_done = true,
                    HashMapEvent::InitialComplete => hand_complete = true,
                }
            }
        }
        // observed
        out.push(obs.is_done() as u128);
        enc_map(&obs, &mut out);
        // mirror
        let (merr, mcomplete, mdone) = match mirror.borrow().await {
            Ok(r) => (0u128, r.is_complete(), r.is_done()),
            Err(e) => (err_code(&e), false, false),
        };
        let mcontents = mirror.detach().await;
        out.extend([merr, mcomplete as u128, mdone as u128]);
        if merr == 1 {
            out.push(mcontents.len() as u128);
        } else {
            enc_map(&mcontents, &mut out);
        }
        // hand-consumed
        if hand_err != 0 {
            out.extend([97, hand_err]);
        }
        out.extend([hand_complete as u128, hand_done as u128]);
        enc_map(&hand_map, &mut out);

        // property oracle
        let mut verdict = String::from("ok");
        if merr == 1 {
            // max_size exceeded: reported, not silent -- C14's business
        } else if merr != 0 {
            verdict = format!("FAIL: mirror reports error {merr} although the observed map is alive or done");
        } else if mcontents != *obs {
            verdict = format!("FAIL: mirror differs from observed map: observed {:?} mirror {:?}", sorted(&obs), sorted(&mcontents));
        } else if mdone != obs.is_done() {
            verdict = format!("FAIL: mirror differs in done flag: observed {} mirror {}", obs.is_done(), mdone);
        } else if !mcomplete {
            verdict = "FAIL: mirror differs: never becomes complete".to_string();
        }
        if verdict == "ok" {
            if hand_err != 0 {
                verdict = format!("FAIL: hand-consumed subscription reports error {hand_err}");
            } else if hand_map != *obs {
                verdict = format!("FAIL: hand-consumed events differ from observed map: observed {:?} by hand {:?}", sorted(&obs), sorted(&hand_map));
            } else if hand_done != obs.is_done() || !hand_complete {
                verdict = format!("FAIL: hand-consumed flags differ: done {hand_done} complete {hand_complete}");
            }
        }
        let _ = hand_ended;
        // signature
        let pos = if sub_after_done {
            "afterdone"
        } else if k == 0 {
            "start"
        } else if k >= case.ops.len() {
            "end"
        } else {
            "mid"
        };
        let tag = tags.iter().min_by_key(|t| rank(t)).cloned().unwrap_or_else(|| "none".into());
        // one signature for the known class, so that it occupies few of the driver's report slots
        let known = if f4 { "F4:retain-mut-kept" } else { "" };
        let sig = if !known.is_empty() {
            known.to_string()
        } else {
            format!("{}{}:{}:{}", if merr == 1 { "maxsize:" } else { "" }, if case.incremental { "incr" } else { "snap" }, pos, tag)
        };
        (out, sig, verdict)
    })
}

fn sorted(m: &HashMap<u64, u64>) -> Vec<(u64, u64)> {
    let mut v: Vec<_> = m.iter().map(|(k, v)| (*k, *v)).collect();
    v.sort();
    v
}

// ---------------------------------------------------------------------------------------------
// generation
const KEYS: u64 = 8;

fn g_access(r: &mut Rng) -> Access {
    match r.below(4) {
        0 => Access::Read,
        1 => Access::Touch,
        _ => Access::Write(r.below(100)),
    }
}

fn g_op(r: &mut Rng, allow_f4: bool) -> Op {
    let k = r.below(KEYS);
    let v = r.below(100);
    match r.below(20) {
        0..=4 => Op::Insert(k, v),
        5..=6 => Op::Remove(k),
        7 => {
            if r.chance(1, 3) {
                Op::Clear
            } else {
                Op::ShrinkToFit
            }
        }
        8..=9 => {
            // retain: a removed entry may be written to before it goes; kept entries are written only in the F4 stream
            let mut g_dec = |r: &mut Rng| {
                let keep = r.chance(2, 3);
                let acc = if !keep && r.chance(1, 2) {
                    Access::Write(r.below(100))
                } else if keep && allow_f4 && r.chance(1, 2) {
                    Access::Write(r.below(100))
                } else if r.chance(1, 4) {
                    Access::Touch
                } else {
                    Access::Read
                };
                Decision { keep, acc }
            };
            let d = g_dec(r);
            let n = r.below(5);
            let ds = (0..n).map(|_| (r.below(KEYS), g_dec(r))).collect();
            Op::Retain(d, ds)
        }
        10..=14 => {
            let n = if r.chance(1, 3) { r.range(1, 2) } else { 0 };
            let mods = (0..n).map(|_| if r.chance(2, 3) { Some(r.below(100)) } else { None }).collect();
            let fin = match r.below(8) {
                0 => EntryFinal::Unused,
                1 => EntryFinal::OrInsert(v, g_access(r)),
                2 => EntryFinal::OrInsertWith(v, g_access(r)),
                3 => EntryFinal::OrInsertWithKey(v, g_access(r)),
                4 => EntryFinal::OrDefault(g_access(r)),
                _ => {
                    let ns = r.below(3);
                    let steps = (0..ns)
                        .map(|_| if r.chance(1, 2) { OccStep::GetMut(g_access(r)) } else { OccStep::Insert(r.below(100)) })
                        .collect();
                    let f = match r.below(4) {
                        0 => OccFinal::Drop,
                        1 => OccFinal::RemoveEntry,
                        2 => OccFinal::Remove,
                        _ => OccFinal::IntoMut(g_access(r)),
                    };
                    let vac = match r.below(4) {
                        0 => VacUse::Drop,
                        1 => VacUse::IntoKey,
                        _ => VacUse::Insert(r.below(100), g_access(r)),
                    };
                    EntryFinal::Match(steps, f, vac)
                }
            };
            Op::Entry(k, mods, fin)
        }
        15..=16 => Op::GetMut(k, g_access(r)),
        17..=18 => {
            let n = r.below(6);
            Op::IterMut((0..n).map(|_| (r.below(KEYS), g_access(r))).collect())
        }
        _ => {
            if r.chance(1, 2) {
                Op::SetErrorHandler
            } else {
                Op::ShrinkToFit
            }
        }
    }
}

fn g_case(r: &mut Rng, allow_f4: bool) -> CaseIn {
    let ninit = r.below(7);
    let init = (0..ninit).map(|_| (r.below(KEYS), r.below(100))).collect();
    let nops = r.range(5, 60) as usize;
    let mut ops: Vec<Op> = (0..nops).map(|_| g_op(r, allow_f4)).collect();
    // done: usually near the end, sometimes anywhere, sometimes twice, sometimes never
    let mut first_done = None;
    if r.chance(2, 3) {
        let pos = if r.chance(1, 6) { r.below(nops as u64) as usize } else { nops - 1 - r.below((nops as u64 / 6).max(1)) as usize };
        ops[pos] = Op::Done;
        first_done = Some(pos);
        if r.chance(1, 5) && pos + 1 < nops {
            let p2 = r.range(pos as u64 + 1, nops as u64 - 1) as usize;
            ops[p2] = Op::Done;
        }
    }
    let incremental = r.chance(1, 2);
    let mut k = match r.below(6) {
        0 => 0,
        1 => nops,
        _ => r.range(0, nops as u64) as usize,
    };
    // subscriptions made after done(): a random k lands there rarely (done is usually near the end), so
    // move it there explicitly in one case out of five (both modes; incremental-after-done on a non-empty
    // map was finding F11)
    if let Some(p) = first_done {
        if r.chance(1, 5) {
            k = (p + 1 + r.below((nops - p) as u64) as usize).min(nops);
        }
    }
    let max = if r.chance(1, 8) { r.range(1, 8) } else { 1000 };
    CaseIn { incremental, max, k, init, ops }
}

pub fn gen(r: &mut Rng, i: usize) -> Vec<Vec<u128>> {
    let mut v = vec![encode(&g_case(r, false))];
    if i % 16 == 5 {
        // known class F4: retain closures that change the value of an entry they keep
        v.push(encode(&g_case(r, true)));
    }
    v
}

pub fn run(seed: u64, count: usize, extra: &[String], out: &mut impl Write) {
    // Rng::new(s) and Rng::new(s + 1) are the same splitmix stream shifted by one step, and the driver
    // gives consecutive seeds to its shards: scramble the seed first so that shards do not overlap
    let seed = Rng::new(seed ^ 0xC13A).next();
    crate::drive(COMP, seed, count, extra, out, gen, exec);
}
