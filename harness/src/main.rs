//! vh: correspondence harness.  `vh <component> <seed> <count> [args]` prints one line per case:
//!   <input numbers>\t<implementation output numbers>\t<signature>
//! The input numbers start with the component number understood by `mrun` (the extracted model).
mod base;
mod broadcast;
mod codec;
mod handle;
mod lazy;
mod conn;
mod endpoint;
mod net;
mod halves;
mod port;
mod robs_deque;
mod robs_lag;
mod robs_list;
mod robs_vec;
mod io;
mod rng;
mod rwlock;
mod settle;
mod sharedq;
mod alloc;
mod robs_map;
mod robs_set;
mod rtc;
mod transport;
mod watch;
mod watch_size;

use std::io::Write;

pub struct Case {
    pub input: Vec<u128>,
    pub output: Vec<u128>,
    pub sig: String,
    pub oracle: String,
}

pub fn emit(out: &mut impl Write, c: &Case) {
    let j = |v: &Vec<u128>| v.iter().map(|x| x.to_string()).collect::<Vec<_>>().join(" ");
    writeln!(out, "{}\t{}\t{}\t{}", j(&c.input), j(&c.output), c.sig, c.oracle).unwrap();
}

/// Half of the cases (chosen by the input) consume hand-held subscriptions the way a `select!` loop does: a pending
/// `recv()` future is dropped and a new one created after the other tasks ran (see [recv_selectlike]).
pub static SELECTLIKE: std::sync::atomic::AtomicBool = std::sync::atomic::AtomicBool::new(false);

fn set_selectlike(inp: &[u128]) {
    let h = inp.iter().fold(0xcbf29ce484222325u64, |a, x| (a ^ *x as u64).wrapping_mul(0x100000001b3));
    SELECTLIKE.store((h >> 17) & 1 == 1, std::sync::atomic::Ordering::SeqCst);
}

/// `sub.recv()` up to quiescence.  In select-like cases the future is first polled once and dropped while pending
/// (cancelled) up to three times, the other tasks running in between; then, as always, it is awaited until the
/// runtime is idle (a 1 ns timeout under the paused clock).  A cancel-safe `recv` gives the same events either way.
#[macro_export]
macro_rules! recv_selectlike {
    ($sub:expr) => {{
        let mut early = None;
        if $crate::SELECTLIKE.load(std::sync::atomic::Ordering::SeqCst) {
            for _ in 0..3 {
                if let Some(r) = futures::FutureExt::now_or_never($sub.recv()) {
                    early = Some(r);
                    break;
                }
                tokio::task::yield_now().await;
            }
        }
        match early {
            Some(r) => Ok(r),
            None => tokio::time::timeout(std::time::Duration::from_nanos(1), $sub.recv()).await,
        }
    }};
}

/// Common driver: either replays the inputs of a case file (`--replay <file>`, lines starting with
/// the component number) or generates `count` case groups from the seed; runs the implementation
/// on each input and prints input, output, signature and oracle verdict.
pub fn drive(
    comp: u128, seed: u64, count: usize, extra: &[String], out: &mut impl Write,
    mut gen: impl FnMut(&mut rng::Rng, usize) -> Vec<Vec<u128>>,
    mut exec: impl FnMut(&[u128]) -> (Vec<u128>, String, String),
) {
    let mut inputs: Vec<Vec<u128>> = Vec::new();
    if let Some(pos) = extra.iter().position(|a| a == "--replay") {
        let text = std::fs::read_to_string(&extra[pos + 1]).expect("replay file");
        for line in text.lines() {
            let line = line.split('\t').next().unwrap_or("");
            let nums: Vec<u128> = line.split_whitespace().filter_map(|t| t.parse().ok()).collect();
            if nums.first() == Some(&comp) {
                inputs.push(nums[1..].to_vec());
            }
        }
        for inp in inputs {
            out.flush().unwrap();
            watchdog_arm(comp, &inp);
            set_selectlike(&inp);
            let (o, sig, oracle) = exec(&inp);
            watchdog_disarm();
            let mut input = vec![comp];
            input.extend(inp);
            emit(out, &Case { input, output: o, sig, oracle });
        }
        return;
    }
    let mut r = rng::Rng::new(seed);
    for i in 0..count {
        let mut rr = r.fork();
        for inp in gen(&mut rr, i) {
            out.flush().unwrap();
            watchdog_arm(comp, &inp);
            set_selectlike(&inp);
            let (o, sig, oracle) = exec(&inp);
            watchdog_disarm();
            let mut input = vec![comp];
            input.extend(inp);
            emit(out, &Case { input, output: o, sig, oracle });
        }
    }
}

/// Separator between a case and the observation appended to it (trace acceptance).
pub const OBS_SEP: u128 = 777_777_777;

/// Driver for trace acceptance: like [drive], but `exec` also returns the observation of the
/// implementation, which is appended to the printed input behind [OBS_SEP]; the model side then
/// decides whether that observation is one of its histories.  On replay an observation already
/// present in the line is replaced by the fresh one.
pub fn drive_accept(
    comp: u128, seed: u64, count: usize, extra: &[String], out: &mut impl Write,
    mut gen: impl FnMut(&mut rng::Rng, usize) -> Vec<Vec<u128>>,
    mut exec: impl FnMut(&[u128]) -> (Vec<u128>, Vec<u128>, String, String),
) {
    let mut one = |inp: &[u128], out: &mut dyn Write| {
        let inp: Vec<u128> = inp.iter().copied().take_while(|x| *x != OBS_SEP).collect();
        out.flush().unwrap();
        watchdog_arm(comp, &inp);
        set_selectlike(&inp);
        let (obs, o, sig, oracle) = exec(&inp);
        watchdog_disarm();
        let mut input = vec![comp];
        input.extend(inp);
        input.push(OBS_SEP);
        let obs_empty = obs.is_empty();
        input.extend(obs);
        let j = |v: &Vec<u128>| v.iter().map(|x| x.to_string()).collect::<Vec<_>>().join(" ");
        writeln!(out, "{}\t{}\t{}\t{}", j(&input), j(&o), sig, oracle).unwrap();
        if oracle != "ok" && !obs_empty {
            // the acceptance verdict of a case whose oracle fails (possibly a known finding) must stay
            // visible: same input and output again, judged by the model comparison only
            let sig2 = format!("acc:{}", sig.trim_start_matches("F5:"));
            writeln!(out, "{}\t{}\t{}\tok", j(&input), j(&o), sig2).unwrap();
        }
    };
    if let Some(pos) = extra.iter().position(|a| a == "--replay") {
        let text = std::fs::read_to_string(&extra[pos + 1]).expect("replay file");
        for line in text.lines() {
            let line = line.split('\t').next().unwrap_or("");
            let nums: Vec<u128> = line.split_whitespace().filter_map(|t| t.parse().ok()).collect();
            if nums.first() == Some(&comp) {
                one(&nums[1..], out);
            }
        }
        return;
    }
    let mut r = rng::Rng::new(seed);
    for i in 0..count {
        let mut rr = r.fork();
        for inp in gen(&mut rr, i) {
            one(&inp, out);
        }
    }
}

static WATCHDOG: std::sync::Mutex<Option<(std::time::Instant, String)>> = std::sync::Mutex::new(None);

/// Wall-clock watchdog: a case that does not finish (a livelock never becomes idle under the paused
/// clock) is reported as an oracle failure with its input, and the process ends.
fn watchdog_arm(comp: u128, inp: &[u128]) {
    let mut line = comp.to_string();
    for x in inp {
        line.push(' ');
        line.push_str(&x.to_string());
    }
    *WATCHDOG.lock().unwrap() = Some((std::time::Instant::now(), line));
}
fn watchdog_disarm() {
    *WATCHDOG.lock().unwrap() = None;
}
fn watchdog_start() {
    let limit = std::env::var("VH_CASE_TIMEOUT").ok().and_then(|s| s.parse().ok()).unwrap_or(60u64);
    std::thread::spawn(move || loop {
        std::thread::sleep(std::time::Duration::from_millis(500));
        let g = WATCHDOG.lock().unwrap();
        if let Some((t, line)) = &*g {
            if t.elapsed().as_secs() >= limit {
                // stdout is locked by the main thread for the whole run: write to the descriptor directly
                // (the main thread flushes its buffer before every case)
                use std::os::fd::FromRawFd;
                let mut f = unsafe { std::fs::File::from_raw_fd(1) };
                let _ = writeln!(f, "{}\t97\twatchdog:timeout\tFAIL: case did not finish within {} s of wall-clock time (livelock or hang)", line, limit);
                let _ = f.flush();
                std::mem::forget(f);
                std::process::exit(0);
            }
        }
    });
}

fn main() {
    watchdog_start();
    let args: Vec<String> = std::env::args().collect();
    if args.len() < 4 {
        eprintln!("usage: vh <component> <seed> <count> [args]");
        std::process::exit(2);
    }
    let comp = args[1].as_str();
    let seed: u64 = args[2].parse().expect("seed");
    let count: usize = args[3].parse().expect("count");
    let extra: Vec<String> = args[4..].to_vec();
    let stdout = std::io::stdout();
    let mut out = std::io::BufWriter::new(stdout.lock());
    // panics inside the implementation are observations, not harness failures
    std::panic::set_hook(Box::new(|info| {
        if std::env::var_os("VH_PANIC").is_some() {
            eprintln!("{info}");
        }
    }));
    match comp {
        "codec" => codec::run(seed, count, &extra, &mut out),
        "port" => port::run(seed, count, &extra, &mut out),
        "endpoint" => endpoint::run(seed, count, &extra, &mut out),
        "net" => net::run(seed, count, &extra, &mut out),
        "sharedq" => sharedq::run(seed, count, &extra, &mut out),
        "alloc" => alloc::run(seed, count, &extra, &mut out),
        "robs_deque" => robs_deque::run(seed, count, &extra, &mut out),
        "robs_list" => robs_list::run(seed, count, &extra, &mut out),
        "robs_lag" => robs_lag::run(seed, count, &extra, &mut out),
        "robs_vec" => robs_vec::run(seed, count, &extra, &mut out),
        "robs_map" => robs_map::run(seed, count, &extra, &mut out),
        "robs_set" => robs_set::run(seed, count, &extra, &mut out),
        "broadcast" => broadcast::run(seed, count, &extra, &mut out),
        "io" => io::run(seed, count, &extra, &mut out),
        "rtc" => rtc::run(seed, count, &extra, &mut out),
        "rtc_cancel" => rtc::run_cancel(seed, count, &extra, &mut out),
        "handle" => handle::run(seed, count, &extra, &mut out),
        "lazy" => lazy::run(seed, count, &extra, &mut out),
        "rwlock" => rwlock::run(seed, count, &extra, &mut out),
        "watch" => watch::run(seed, count, &extra, &mut out),
        "halves" => halves::run(seed, count, &extra, &mut out),
        "base" => base::run(seed, count, &extra, &mut out),
        _ => {
            eprintln!("unknown component {comp}");
            std::process::exit(2);
        }
    }
    out.flush().unwrap();
}
