//! vh: correspondence harness.  `vh <component> <seed> <count> [args]` prints one line per case:
//!   <input numbers>\t<implementation output numbers>\t<signature>
//! The input numbers start with the component number understood by `mrun` (the extracted model).
mod codec;
mod io;
mod rng;
mod transport;

use std::io::Write;

pub struct Case {
    pub input: Vec<u128>,
    pub output: Vec<u128>,
    pub sig: String,
    pub oracle: String,
}

pub fn emit(out: &mut impl Write, c: &Case) {
    let j = |v: &Vec<u128>| v.iter().map(|x| x.to_string()).collect::<Vec<_>>().join(" ");
    writeln!(out, "{}\t{}\t{}\t{}", j(&c.input), j(&c.output), c.sig, c.oracle).unwrap();
}

/// Common driver: either replays the inputs of a case file (`--replay <file>`, lines starting with
/// the component number) or generates `count` case groups from the seed; runs the implementation
/// on each input and prints input, output, signature and oracle verdict.
pub fn drive(
    comp: u128, seed: u64, count: usize, extra: &[String], out: &mut impl Write,
    mut gen: impl FnMut(&mut rng::Rng, usize) -> Vec<Vec<u128>>,
    mut exec: impl FnMut(&[u128]) -> (Vec<u128>, String, String),
) {
    let mut inputs: Vec<Vec<u128>> = Vec::new();
    if let Some(pos) = extra.iter().position(|a| a == "--replay") {
        let text = std::fs::read_to_string(&extra[pos + 1]).expect("replay file");
        for line in text.lines() {
            let line = line.split('\t').next().unwrap_or("");
            let nums: Vec<u128> = line.split_whitespace().filter_map(|t| t.parse().ok()).collect();
            if nums.first() == Some(&comp) {
                inputs.push(nums[1..].to_vec());
            }
        }
        for inp in inputs {
            let (o, sig, oracle) = exec(&inp);
            let mut input = vec![comp];
            input.extend(inp);
            emit(out, &Case { input, output: o, sig, oracle });
        }
        return;
    }
    let mut r = rng::Rng::new(seed);
    for i in 0..count {
        let mut rr = r.fork();
        for inp in gen(&mut rr, i) {
            let (o, sig, oracle) = exec(&inp);
            let mut input = vec![comp];
            input.extend(inp);
            emit(out, &Case { input, output: o, sig, oracle });
        }
    }
}

fn main() {
    let args: Vec<String> = std::env::args().collect();
    if args.len() < 4 {
        eprintln!("usage: vh <component> <seed> <count> [args]");
        std::process::exit(2);
    }
    let comp = args[1].as_str();
    let seed: u64 = args[2].parse().expect("seed");
    let count: usize = args[3].parse().expect("count");
    let extra: Vec<String> = args[4..].to_vec();
    let stdout = std::io::stdout();
    let mut out = std::io::BufWriter::new(stdout.lock());
    // panics inside the implementation are observations, not harness failures
    std::panic::set_hook(Box::new(|_| {}));
    match comp {
        "codec" => codec::run(seed, count, &extra, &mut out),
        "io" => io::run(seed, count, &extra, &mut out),
        _ => {
            eprintln!("unknown component {comp}");
            std::process::exit(2);
        }
    }
    out.flush().unwrap();
}
