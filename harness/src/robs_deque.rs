//! C13 (deque): random mutator sequences on the real `ObservableVecDeque`, a hand-held subscription from
//! the start (events per op), a real local `mirror()` and a hand-consumed subscription taken after `k` ops.
//! Input/output format: see coq/theories/Run/RunRobsDeque.v.
use crate::{
    rng::Rng,
    robs_vec::{barrier, err_code, idx_in, idx_out, pick_branch, runtime, take, val, BUF},
};
use remoc::robs::vec_deque::{ObservableVecDeque, VecDequeEvent, VecDequeSubscription};
use std::{
    collections::VecDeque,
    io::Write,
    panic::{catch_unwind, AssertUnwindSafe},
    time::Duration,
};

const COMP: u128 = 132;
type Codec = remoc::codec::Default;

// ------------------------------------------------------------------------------------------------
#[derive(Debug, Clone)]
pub enum Op {
    PushBack(u64),
    PushFront(u64),
    PopBack,
    PopFront,
    GetMut(usize, Option<u64>),
    IterMut(bool, Vec<Option<u64>>),
    Insert(usize, u64),
    Remove(usize),
    SwapRemoveBack(usize),
    SwapRemoveFront(usize),
    Resize(usize, u64),
    Truncate(usize),
    Clear,
    Retain(Vec<bool>),
    ShrinkToFit,
    Done,
    Extend(Vec<u64>),
}

fn us(x: u128) -> Option<usize> {
    if x < 1_000_000 {
        Some(x as usize)
    } else {
        None
    }
}

pub fn decode_ops(inp: &[u128]) -> Option<Vec<Op>> {
    let mut pos = 0;
    let mut ops = Vec::new();
    while pos < inp.len() {
        let code = inp[pos];
        pos += 1;
        let op = match code {
            1 => Op::PushBack(take(inp, &mut pos, 1)?[0] as u64),
            2 => Op::PushFront(take(inp, &mut pos, 1)?[0] as u64),
            3 => Op::PopBack,
            4 => Op::PopFront,
            5 => {
                let a = take(inp, &mut pos, 3)?;
                Op::GetMut(us(a[0])?, if a[1] != 0 { Some(a[2] as u64) } else { None })
            }
            6 => {
                let a = take(inp, &mut pos, 2)?;
                let n = us(a[1])?;
                let ws = take(inp, &mut pos, 2 * n)?;
                Op::IterMut(
                    a[0] != 0,
                    ws.chunks(2).map(|c| if c[0] != 0 { Some(c[1] as u64) } else { None }).collect(),
                )
            }
            7 => {
                let a = take(inp, &mut pos, 2)?;
                Op::Insert(us(a[0])?, a[1] as u64)
            }
            8 => Op::Remove(us(take(inp, &mut pos, 1)?[0])?),
            9 => Op::SwapRemoveBack(us(take(inp, &mut pos, 1)?[0])?),
            10 => Op::SwapRemoveFront(us(take(inp, &mut pos, 1)?[0])?),
            11 => {
                let a = take(inp, &mut pos, 2)?;
                Op::Resize(us(a[0])?, a[1] as u64)
            }
            12 => Op::Truncate(us(take(inp, &mut pos, 1)?[0])?),
            13 => Op::Clear,
            14 => {
                let n = us(take(inp, &mut pos, 1)?[0])?;
                Op::Retain(take(inp, &mut pos, n)?.iter().map(|x| *x != 0).collect())
            }
            15 => Op::ShrinkToFit,
            16 => Op::Done,
            17 => {
                let n = us(take(inp, &mut pos, 1)?[0])?;
                Op::Extend(take(inp, &mut pos, n)?.iter().map(|x| *x as u64).collect())
            }
            _ => return None,
        };
        ops.push(op);
    }
    Some(ops)
}

pub fn enc_event(e: &VecDequeEvent<u64>, out: &mut Vec<u128>) {
    match e {
        VecDequeEvent::PushBack(v) => out.extend([1, *v as u128]),
        VecDequeEvent::PushFront(v) => out.extend([2, *v as u128]),
        VecDequeEvent::PopBack => out.push(3),
        VecDequeEvent::PopFront => out.push(4),
        VecDequeEvent::Insert(i, v) => out.extend([5, *i as u128, *v as u128]),
        VecDequeEvent::Set(i, v) => out.extend([6, *i as u128, *v as u128]),
        VecDequeEvent::Remove(i) => out.extend([7, *i as u128]),
        VecDequeEvent::SwapRemoveBack(i) => out.extend([8, *i as u128]),
        VecDequeEvent::SwapRemoveFront(i) => out.extend([9, *i as u128]),
        VecDequeEvent::Resize(n, v) => out.extend([10, *n as u128, *v as u128]),
        VecDequeEvent::Truncate(n) => out.extend([11, *n as u128]),
        VecDequeEvent::Retain(s) | VecDequeEvent::RetainNot(s) => {
            out.push(if matches!(e, VecDequeEvent::Retain(_)) { 12 } else { 13 });
            let mut v: Vec<usize> = s.iter().copied().collect();
            v.sort();
            out.push(v.len() as u128);
            out.extend(v.iter().map(|x| *x as u128));
        }
        VecDequeEvent::Clear => out.push(14),
        VecDequeEvent::ShrinkToFit => out.push(15),
        VecDequeEvent::Done => out.push(16),
        VecDequeEvent::InitialComplete => out.push(17),
    }
}

fn enc_events(es: &[VecDequeEvent<u64>], out: &mut Vec<u128>) {
    out.push(es.len() as u128);
    for e in es {
        enc_event(e, out);
    }
}

/// Applies one mutator; returns the branch label.  May panic (caught by the caller).
pub fn apply(obs: &mut ObservableVecDeque<u64, Codec>, op: &Op) -> &'static str {
    let len = obs.len();
    match op {
        Op::PushBack(v) => {
            obs.push_back(*v);
            "push_back"
        }
        Op::PushFront(v) => {
            obs.push_front(*v);
            "push_front"
        }
        Op::PopBack => {
            if obs.pop_back().is_some() {
                "pop_back"
            } else {
                "pop_back_empty"
            }
        }
        Op::PopFront => {
            if obs.pop_front().is_some() {
                "pop_front"
            } else {
                "pop_front_empty"
            }
        }
        Op::GetMut(i, w) => match obs.get_mut(*i) {
            Some(mut r) => match w {
                Some(v) => {
                    *r = *v;
                    "get_mut_write"
                }
                None => {
                    let _x: u64 = *r;
                    "get_mut_readonly"
                }
            },
            None => "get_mut_none",
        },
        Op::IterMut(rev, ws) => {
            let mut wrote = false;
            if *rev {
                for (j, mut r) in obs.iter_mut().rev().enumerate() {
                    if let Some(Some(v)) = ws.get(j) {
                        *r = *v;
                        wrote = true;
                    }
                }
            } else {
                for (j, mut r) in obs.iter_mut().enumerate() {
                    if let Some(Some(v)) = ws.get(j) {
                        *r = *v;
                        wrote = true;
                    }
                }
            }
            match (wrote, *rev) {
                (false, _) => "iter_mut_nowrite",
                (true, false) => "iter_mut_fwd",
                (true, true) => "iter_mut_rev",
            }
        }
        Op::Insert(i, v) => {
            obs.insert(*i, *v);
            if *i == len {
                "insert_end"
            } else {
                "insert"
            }
        }
        Op::Remove(i) => {
            if obs.remove(*i).is_some() {
                "remove"
            } else {
                "remove_none"
            }
        }
        Op::SwapRemoveBack(i) => {
            if obs.swap_remove_back(*i).is_none() {
                "swap_remove_back_none"
            } else if *i + 1 == len {
                "swap_remove_back_last"
            } else {
                "swap_remove_back"
            }
        }
        Op::SwapRemoveFront(i) => {
            if obs.swap_remove_front(*i).is_none() {
                "swap_remove_front_none"
            } else if *i == 0 {
                "swap_remove_front_first"
            } else {
                "swap_remove_front"
            }
        }
        Op::Resize(n, v) => {
            obs.resize(*n, *v);
            if *n > len {
                "resize_grow"
            } else if *n < len {
                "resize_shrink"
            } else {
                "resize_same"
            }
        }
        Op::Truncate(n) => {
            obs.truncate(*n);
            if *n < len {
                "truncate"
            } else {
                "truncate_noop"
            }
        }
        Op::Clear => {
            obs.clear();
            if len == 0 {
                "clear_empty"
            } else {
                "clear"
            }
        }
        Op::Retain(ks) => {
            let mut j = 0;
            obs.retain(|_| {
                let k = ks.get(j).copied().unwrap_or(true);
                j += 1;
                k
            });
            let removed = len - obs.len();
            if removed == 0 {
                "retain_all"
            } else if obs.len() < removed {
                "retain_keepset"
            } else {
                "retain_notset"
            }
        }
        Op::ShrinkToFit => {
            obs.shrink_to_fit();
            "shrink_to_fit"
        }
        Op::Done => {
            let was = obs.is_done();
            obs.done();
            if was {
                "done_again"
            } else {
                "done"
            }
        }
        Op::Extend(vs) => {
            obs.extend(vs.iter().copied());
            if vs.is_empty() && obs.is_done() {
                "extend_empty_after_done"
            } else if vs.is_empty() {
                "extend_empty"
            } else {
                "extend"
            }
        }
    }
}

fn panic_label(op: &Op, done: bool) -> &'static str {
    if done {
        return "panic_after_done";
    }
    match op {
        Op::Insert(..) => "panic_insert",
        _ => "panic_other",
    }
}

/// Applies an event to a plain deque the way a consumer by hand would (independent of remoc's mirror).
pub fn hand_apply(v: &mut VecDeque<u64>, complete: &mut bool, done: &mut bool, e: &VecDequeEvent<u64>) -> Result<(), u128> {
    match e {
        VecDequeEvent::PushBack(x) => v.push_back(*x),
        VecDequeEvent::PushFront(x) => v.push_front(*x),
        VecDequeEvent::PopBack => {
            v.pop_back();
        }
        VecDequeEvent::PopFront => {
            v.pop_front();
        }
        VecDequeEvent::Insert(i, x) => {
            if *i > v.len() {
                return Err(2);
            }
            v.insert(*i, *x)
        }
        VecDequeEvent::Set(i, x) => {
            if *i >= v.len() {
                return Err(2);
            }
            v[*i] = *x
        }
        VecDequeEvent::Remove(i) => {
            if *i >= v.len() {
                return Err(2);
            }
            v.remove(*i);
        }
        VecDequeEvent::SwapRemoveBack(i) => {
            if *i >= v.len() {
                return Err(2);
            }
            let last = v.pop_back().unwrap();
            if *i < v.len() {
                v[*i] = last;
            }
        }
        VecDequeEvent::SwapRemoveFront(i) => {
            if *i >= v.len() {
                return Err(2);
            }
            let first = v.pop_front().unwrap();
            if *i > 0 {
                v[*i - 1] = first;
            }
        }
        VecDequeEvent::Resize(n, x) => {
            while v.len() > *n {
                v.pop_back();
            }
            while v.len() < *n {
                v.push_back(*x);
            }
        }
        VecDequeEvent::Truncate(n) => {
            while v.len() > *n {
                v.pop_back();
            }
        }
        VecDequeEvent::Retain(s) => {
            *v = v.iter().enumerate().filter(|(i, _)| s.contains(i)).map(|(_, x)| *x).collect();
        }
        VecDequeEvent::RetainNot(s) => {
            *v = v.iter().enumerate().filter(|(i, _)| !s.contains(i)).map(|(_, x)| *x).collect();
        }
        VecDequeEvent::Clear => v.clear(),
        VecDequeEvent::ShrinkToFit => (),
        VecDequeEvent::Done => *done = true,
        VecDequeEvent::InitialComplete => *complete = true,
    }
    Ok(())
}

/// Drains what a subscription can deliver now (the timeout fires only when every task is idle).
async fn drain(sub: &mut VecDequeSubscription<u64, Codec>, ended: &mut bool, into: &mut Vec<VecDequeEvent<u64>>) -> Result<(), u128> {
    if *ended {
        return Ok(());
    }
    loop {
        match crate::recv_selectlike!(sub) {
            Err(_) => return Ok(()),
            Ok(Ok(Some(e))) => into.push(e),
            Ok(Ok(None)) => {
                *ended = true;
                return Ok(());
            }
            Ok(Err(e)) => {
                *ended = true;
                return Err(err_code(&e));
            }
        }
    }
}

struct Subs {
    mirror: remoc::robs::vec_deque::MirroredVecDeque<u64, Codec>,
    hand: VecDequeSubscription<u64, Codec>,
    hand_ended: bool,
    hand_v: VecDeque<u64>,
    hand_complete: bool,
    hand_events: Vec<VecDequeEvent<u64>>,
    hand_err: u128,
    len_at: usize,
    done_at: bool,
}

fn subscribe(obs: &ObservableVecDeque<u64, Codec>, incremental: bool, mx: usize) -> Subs {
    let (msub, mut hand) = if incremental {
        (obs.subscribe_incremental(BUF), obs.subscribe_incremental(BUF))
    } else {
        (obs.subscribe(BUF), obs.subscribe(BUF))
    };
    let hand_v = hand.take_initial().unwrap_or_default();
    let hand_complete = hand.is_complete();
    Subs {
        mirror: msub.mirror(mx),
        hand,
        hand_ended: false,
        hand_v,
        hand_complete,
        hand_events: Vec::new(),
        hand_err: 0,
        len_at: obs.len(),
        done_at: obs.is_done(),
    }
}

async fn exec_async(inp: &[u128]) -> (Vec<u128>, String, String) {
    let bad = || (vec![98], "deque:malformed".to_string(), "ok".to_string());
    if inp.len() < 4 {
        return bad();
    }
    let (mx, incremental, k) = (inp[0].min(1 << 40) as usize, inp[1] != 0, inp[2].min(1 << 40) as usize);
    let mut pos = 4;
    let init: Vec<u64> = match us(inp[3]).and_then(|n| take(inp, &mut pos, n)) {
        Some(s) => s.iter().map(|x| *x as u64).collect(),
        None => return bad(),
    };
    let ops = match decode_ops(&inp[pos..]) {
        Some(o) => o,
        None => return bad(),
    };

    let mut out = Vec::new();
    let mut branches: Vec<&'static str> = Vec::new();
    let mut obs: ObservableVecDeque<u64, Codec> = ObservableVecDeque::from(VecDeque::from(init));
    let mut s0 = obs.subscribe(BUF);
    let _ = s0.take_initial();
    let mut s0_ended = false;
    let mut subs: Option<Subs> = None;
    let mut peak = 0usize;
    let mut harness_err = String::new();

    for (j, op) in ops.iter().enumerate() {
        if j == k {
            subs = Some(subscribe(&obs, incremental, mx));
            // a select!-style consumer polls at once and drops the future while it is pending
            if crate::SELECTLIKE.load(std::sync::atomic::Ordering::SeqCst) {
                if let Some(s) = subs.as_mut() {
                    for _ in 0..2 {
                        if s.hand_ended {
                            break;
                        }
                        match futures::FutureExt::now_or_never(s.hand.recv()) {
                            Some(Ok(Some(e))) => s.hand_events.push(e),
                            Some(Ok(None)) => s.hand_ended = true,
                            Some(Err(e)) => {
                                s.hand_ended = true;
                                s.hand_err = err_code(&e);
                            }
                            None => {}
                        }
                    }
                }
            }
            peak = obs.len();
        }
        let was_done = obs.is_done();
        match catch_unwind(AssertUnwindSafe(|| apply(&mut obs, op))) {
            Ok(label) => {
                branches.push(label);
                let mut evs = Vec::new();
                if let Err(c) = drain(&mut s0, &mut s0_ended, &mut evs).await {
                    harness_err = format!("start subscription failed with error class {c}");
                }
                enc_events(&evs, &mut out);
            }
            Err(_) => {
                branches.push(panic_label(op, was_done));
                out.push(99);
            }
        }
        peak = peak.max(obs.len());
        barrier().await;
        if let Some(s) = subs.as_mut() {
            let mut evs = Vec::new();
            if let Err(c) = drain(&mut s.hand, &mut s.hand_ended, &mut evs).await {
                s.hand_err = c;
            }
            s.hand_events.extend(evs);
        }
    }
    if subs.is_none() {
        subs = Some(subscribe(&obs, incremental, mx));
            // a select!-style consumer polls at once and drops the future while it is pending
            if crate::SELECTLIKE.load(std::sync::atomic::Ordering::SeqCst) {
                if let Some(s) = subs.as_mut() {
                    for _ in 0..2 {
                        if s.hand_ended {
                            break;
                        }
                        match futures::FutureExt::now_or_never(s.hand.recv()) {
                            Some(Ok(Some(e))) => s.hand_events.push(e),
                            Some(Ok(None)) => s.hand_ended = true,
                            Some(Err(e)) => {
                                s.hand_ended = true;
                                s.hand_err = err_code(&e);
                            }
                            None => {}
                        }
                    }
                }
            }
        peak = obs.len();
    }
    let mut s = subs.unwrap();
    barrier().await;
    {
        let mut evs = Vec::new();
        if let Err(c) = drain(&mut s.hand, &mut s.hand_ended, &mut evs).await {
            s.hand_err = c;
        }
        s.hand_events.extend(evs);
    }
    barrier().await;

    // observed collection
    let coll: VecDeque<u64> = obs.iter().copied().collect();
    let coll_done = obs.is_done();
    out.push(coll.len() as u128);
    out.extend(coll.iter().map(|x| *x as u128));
    out.push(coll_done as u128);

    // mirror
    let mut oracle = String::new();
    let mirror_outcome;
    let borrowed = match s.mirror.borrow().await {
        Ok(r) => Ok((r.iter().copied().collect::<VecDeque<u64>>(), r.is_complete(), r.is_done())),
        Err(e) => Err(err_code(&e)),
    };
    match borrowed {
        Ok((v, complete, done)) => {
            mirror_outcome = "ok";
            out.push(0);
            out.push(v.len() as u128);
            out.extend(v.iter().map(|x| *x as u128));
            out.push(complete as u128);
            out.push(done as u128);
            if v != coll {
                oracle = format!("FAIL: mirror contents {:?} differ from observed deque {:?}", v, coll);
            } else if done != coll_done {
                oracle = format!("FAIL: mirror done flag {} but observed deque done {}", done, coll_done);
            }
            // A second-level subscription taken from the mirror while a reader holds a view of it and an event is on its way
            // (the mirror task is queued for the write lock behind the reader): the subscriber's snapshot and its event stream
            // must fit together -- nothing lost, nothing twice.
            if oracle.is_empty() {
                if let Ok(guard) = s.mirror.borrow().await {
                    // (the extra element must not push the first-level mirror over its size limit)
                if !obs.is_done() && obs.len() < mx {
                        obs.push_back(424_242);
                    }
                    barrier().await;
                    let mut fut = Box::pin(s.mirror.subscribe(BUF));
                    let early = std::future::poll_fn(|cx| std::task::Poll::Ready(std::future::Future::poll(fut.as_mut(), cx))).await;
                    drop(guard);
                    barrier().await;
                    let sub2 = match early {
                        std::task::Poll::Ready(r) => r,
                        std::task::Poll::Pending => fut.await,
                    };
                    match sub2 {
                        Ok(sub2) => {
                            let m2 = sub2.mirror(1_000_000);
                            barrier().await;
                            barrier().await;
                            let expect: Vec<u64> = obs.iter().copied().collect();
                            match m2.borrow().await {
                                Ok(r) => {
                                    let v: Vec<u64> = r.iter().copied().collect();
                                    if v != expect {
                                        oracle = format!("FAIL: second-level mirror (subscribed from the mirror while it was read and updated) holds {:?} but the collection is {:?}", v, expect);
                                    }
                                }
                                Err(e) => oracle = format!("FAIL: second-level mirror failed with error class {}", err_code(&e)),
                            };
                        }
                        Err(e) => oracle = format!("FAIL: subscribing from a healthy mirror failed with error class {}", err_code(&e)),
                    }
                }
            }
        }
        Err(code) => {
            let v = s.mirror.detach().await;
            out.push(code);
            out.push(v.len() as u128);
            out.extend(v.iter().map(|x| *x as u128));
            if code == 1 && peak > mx {
                mirror_outcome = "maxsize"; // outside the hypothesis of C13 (belongs to C14)
            } else {
                mirror_outcome = "error";
                oracle = format!("FAIL: mirror reports error class {code} (max_size {mx}, largest length {peak})");
            }
        }
    }

    // hand-held subscription
    enc_events(&s.hand_events, &mut out);
    let mut hv = s.hand_v.clone();
    let mut hcomplete = s.hand_complete;
    let mut hdone = false;
    let mut herr = 0u128;
    for e in &s.hand_events {
        if let Err(c) = hand_apply(&mut hv, &mut hcomplete, &mut hdone, e) {
            herr = c;
            break;
        }
        // a consumer that enforces the same size limit as a mirror
        if matches!(e, VecDequeEvent::PushBack(_) | VecDequeEvent::PushFront(_)) && hv.len() > mx {
            herr = 1;
            break;
        }
    }
    out.push(herr);
    out.push(hv.len() as u128);
    out.extend(hv.iter().map(|x| *x as u128));
    if herr == 0 {
        out.push(hcomplete as u128);
        out.push(hdone as u128);
    }
    if oracle.is_empty() {
        if s.hand_err != 0 {
            oracle = format!("FAIL: hand-held subscription failed with error class {}", s.hand_err);
        } else if herr == 0 && (hv != coll || hdone != coll_done) {
            oracle = format!("FAIL: hand-consumed events give {:?} done={} but observed deque is {:?} done={}", hv, hdone, coll, coll_done);
        } else if herr != 0 && !(herr == 1 && peak > mx) {
            oracle = format!("FAIL: hand-consumed event does not apply (class {herr})");
        }
    }
    if oracle.is_empty() && !harness_err.is_empty() {
        oracle = format!("FAIL: {harness_err}");
    }


    let subkind = if s.done_at {
        "afterdone"
    } else if k == 0 {
        "start"
    } else if k >= ops.len() {
        "end"
    } else {
        "mid"
    };
    let mode = if incremental { "incr" } else { "snap" };
    let subkind = if s.done_at && s.len_at == 0 { "afterdone_empty" } else { subkind };
    let sig = format!("deque:{mode}:{subkind}:{mirror_outcome}:{}", pick_branch(inp, &branches));
    (out, sig, if oracle.is_empty() { "ok".to_string() } else { oracle })
}

pub fn exec(inp: &[u128]) -> (Vec<u128>, String, String) {
    let rt = runtime();
    let r = rt.block_on(exec_async(inp));
    drop(rt);
    r
}

// ------------------------------------------------------------------------------------------------
/// Generator: simulates length and done state so that indices sit at the boundaries that matter and
/// panicking calls stay rare.
pub fn gen(r: &mut Rng, i: usize) -> Vec<Vec<u128>> {
    let n_init = r.below(7) as usize;
    let init: Vec<u128> = (0..n_init).map(|_| val(r)).collect();
    let n_ops = r.range(5, 60) as usize;
    let with_done = r.chance(2, 5);
    let done_at = if with_done {
        if r.chance(1, 2) {
            n_ops - 1 - r.below(4.min(n_ops as u64)) as usize
        } else {
            r.below(n_ops as u64) as usize
        }
    } else {
        usize::MAX
    };
    let mut len = n_init;
    let mut ops: Vec<u128> = Vec::new();
    for j in 0..n_ops {
        if j == done_at {
            ops.push(16);
            continue;
        }
        if j > done_at {
            // after done: mostly done() again (no-op), rarely a mutator (panics)
            if r.chance(5, 6) {
                ops.push(16);
            } else {
                match r.below(5) {
                    0 => ops.extend([1, val(r)]),
                    1 => ops.push(4),
                    2 => ops.push(13),
                    3 => ops.extend([17, 0]), // extend with nothing: no panic
                    _ => ops.extend([8, 0]),
                }
            }
            continue;
        }
        let rare = r.chance(1, 10);
        match r.below(26) {
            0..=2 => {
                ops.extend([1, val(r)]);
                len += 1;
            }
            3..=4 => {
                ops.extend([2, val(r)]);
                len += 1;
            }
            5 => {
                ops.push(3);
                len = len.saturating_sub(1);
            }
            6 => {
                ops.push(4);
                len = len.saturating_sub(1);
            }
            7..=8 => {
                let (i, has) = if r.chance(1, 6) { (idx_out(r, len), 1) } else { (idx_in(r, len), r.chance(4, 5) as u128) };
                ops.extend([5, i, has, val(r)]);
            }
            9..=10 => {
                let n = match r.below(4) {
                    0 => 0,
                    1 => len,
                    2 => len + 2,
                    _ => r.below(len as u64 + 1) as usize,
                };
                ops.extend([6, r.chance(1, 3) as u128, n as u128]);
                for _ in 0..n {
                    ops.extend([r.chance(1, 2) as u128, val(r)]);
                }
            }
            11..=12 => {
                let i = if r.chance(1, 14) {
                    (len + 1 + r.below(3) as usize) as u128 // panics
                } else if r.chance(1, 3) {
                    len as u128
                } else {
                    idx_in(r, len)
                };
                ops.extend([7, i, val(r)]);
                if (i as usize) <= len {
                    len += 1;
                }
            }
            13..=18 => {
                let code = match r.below(3) {
                    0 => 8,
                    1 => 9,
                    _ => 10,
                };
                let i = if rare || len == 0 { idx_out(r, len) } else { idx_in(r, len) };
                ops.extend([code, i]);
                if (i as usize) < len {
                    len -= 1;
                }
            }
            19..=20 => {
                let n = match r.below(5) {
                    0 => len,
                    1 => len + 1,
                    2 => len.saturating_sub(1),
                    3 => 0,
                    _ => r.below(10) as usize,
                };
                ops.extend([11, n as u128, val(r)]);
                len = n;
            }
            21 => {
                let n = match r.below(4) {
                    0 => len,
                    1 => len + 1,
                    2 => len.saturating_sub(1),
                    _ => r.below(len as u64 + 1) as usize,
                };
                ops.extend([12, n as u128]);
                len = len.min(n);
            }
            22 => {
                if r.chance(2, 3) {
                    ops.push(13);
                    len = 0;
                } else {
                    ops.push(15);
                }
            }
            23..=24 => {
                let n = match r.below(4) {
                    0 => len.saturating_sub(1),
                    1 => len + 1,
                    _ => len,
                };
                let style = r.below(4);
                let ks: Vec<bool> = (0..n)
                    .map(|_| match style {
                        0 => true,
                        1 => r.chance(1, 5),
                        2 => r.chance(4, 5),
                        _ => r.chance(1, 2),
                    })
                    .collect();
                ops.extend([14, n as u128]);
                ops.extend(ks.iter().map(|b| *b as u128));
                len = (0..len).filter(|p| ks.get(*p).copied().unwrap_or(true)).count();
            }
            _ => {
                let n = r.below(4) as usize;
                ops.extend([17, n as u128]);
                for _ in 0..n {
                    ops.push(val(r));
                }
                len += n;
            }
        }
    }
    // subscription point and mode
    // subscription point and mode; subscribing after done() (both modes, empty and non-empty) is a
    // regression case (former finding F11) and is drawn often
    let k = match r.below(7) {
        0 => 0,
        1 => n_ops,
        2 | 3 if with_done && done_at < n_ops => (done_at + 1 + r.below((n_ops - done_at) as u64) as usize).min(n_ops),
        _ => r.below(n_ops as u64 + 1) as usize,
    };
    let mode = r.below(2) as u128;
    let mx: u128 = if r.chance(1, 12) { r.below(9) as u128 } else { 1000 };
    let _ = i;
    let mut inp = vec![mx, mode, k as u128, n_init as u128];
    inp.extend(init);
    inp.extend(ops);
    vec![inp]
}

pub fn run(seed: u64, count: usize, extra: &[String], out: &mut impl Write) {
    // Rng::new of adjacent seeds yields shifted copies of one stream (the driver's shards use seeds s, s+1, ...):
    // scramble the seed first so that shards are independent
    let seed = Rng::new(seed ^ 0xC132).next();
    crate::drive(COMP, seed, count, extra, out, gen, exec);
}
