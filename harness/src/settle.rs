//! Quiescence barrier that also works while `spawn_blocking` helper threads are outstanding.
//!
//! With the paused clock a `sleep(1 ns)` completes only when every task is idle AND no `spawn_blocking`
//! task is outstanding (tokio inhibits auto-advance while one exists).  The (de)serializer threads of
//! `rch::base` may stay parked for a long time (a cut stream: the deserializer waits for chunks that
//! only the next item's first frame will cancel), in which case the sleep would never fire.  So the
//! barrier waits for the sleep OR a real-time tick; after a tick it accepts quiescence when all other
//! threads of the process are sleeping, and the observables did not change, several rounds in a row.
use std::{
    sync::{
        atomic::{AtomicU64, Ordering},
        Arc,
    },
    time::Duration,
};
use tokio::sync::Notify;

pub struct Settle {
    tick_tx: std::sync::mpsc::Sender<(u64, u64)>,
    fired: Arc<AtomicU64>,
    notify: Arc<Notify>,
    gen: u64,
    /// threads of the harness itself (everything that exists when the case starts, and the ticker)
    own: std::collections::HashSet<String>,
    pub rounds: u64,
    pub ticks: u64,
}

fn my_tid() -> Option<String> {
    std::fs::read_link("/proc/thread-self").ok().and_then(|p| p.file_name().map(|s| s.to_string_lossy().into_owned()))
}

fn tids() -> Vec<String> {
    std::fs::read_dir("/proc/self/task")
        .map(|d| d.flatten().map(|e| e.file_name().to_string_lossy().into_owned()).collect())
        .unwrap_or_default()
}

impl Settle {
    pub fn new() -> Self {
        let (tick_tx, tick_rx) = std::sync::mpsc::channel::<(u64, u64)>();
        let fired = Arc::new(AtomicU64::new(0));
        let notify = Arc::new(Notify::new());
        let (f2, n2) = (fired.clone(), notify.clone());
        let (tid_tx, tid_rx) = std::sync::mpsc::channel::<Option<String>>();
        std::thread::spawn(move || {
            let _ = tid_tx.send(my_tid());
            while let Ok((mut g, mut micros)) = tick_rx.recv() {
                // superseded requests (their waiters saw the clock advance first) are skipped
                while let Ok((g2, m2)) = tick_rx.try_recv() {
                    g = g2;
                    micros = m2;
                }
                std::thread::sleep(Duration::from_micros(micros));
                f2.store(g, Ordering::SeqCst);
                n2.notify_one();
            }
        });
        // the ticker is running now: every thread that exists at this point belongs to the harness
        // (listing /proc/self/task is not atomic against threads that come and go: the two threads that
        // matter most are added by their own ids, and the listing is taken twice)
        let ticker = tid_rx.recv().ok().flatten();
        let mut own: std::collections::HashSet<String> = tids().into_iter().collect();
        own.extend(tids());
        own.extend(ticker);
        own.extend(my_tid());
        Settle { tick_tx, fired, notify, gen: 0, own, rounds: 0, ticks: 0 }
    }

    /// true: the paused clock auto-advanced (runtime idle, no helper thread outstanding);
    /// false: `micros` of real time passed first.
    async fn idle_or_tick(&mut self, micros: u64) -> bool {
        self.gen += 1;
        let g = self.gen;
        let _ = self.tick_tx.send((g, micros));
        let sleep = tokio::time::sleep(Duration::from_nanos(1));
        tokio::pin!(sleep);
        loop {
            tokio::select! {
                biased;
                _ = &mut sleep => return true,
                _ = self.notify.notified() => {
                    if self.fired.load(Ordering::SeqCst) >= g {
                        return false;
                    }
                }
            }
        }
    }

    /// Runs until quiescent; `snap` returns the observables.  false: no quiescence (livelock).
    pub async fn barrier(&mut self, snap: &dyn Fn() -> Vec<u64>) -> bool {
        let mut prev = snap();
        let mut calm = 0;
        let started = std::time::Instant::now();
        let mut dbg_counts = [0u64; 4];
        // a livelock never becomes quiet: give up after 12 s of wall time (not after a number of rounds:
        // on a loaded machine a woken helper thread may wait for a CPU for tens of milliseconds)
        while started.elapsed() < Duration::from_secs(12) {
            self.rounds += 1;
            let idle = self.idle_or_tick(700).await;
            for _ in 0..4 {
                tokio::task::yield_now().await;
            }
            let now = snap();
            let same = now == prev;
            prev = now;
            let quiet = self.threads_quiet();
            dbg_counts[0] += 1;
            dbg_counts[1] += idle as u64;
            dbg_counts[2] += same as u64;
            dbg_counts[3] += quiet as u64;
            if !quiet {
                // let the helper threads have the CPU instead of spinning against them
                std::thread::sleep(Duration::from_micros(100));
            }
            if idle {
                // (a plain std::thread -- remoc's one-time thread test -- does not inhibit auto-advance)
                calm = if same && quiet { calm + 1 } else { 0 };
                if calm >= 2 {
                    return true;
                }
            } else {
                self.ticks += 1;
                calm = if same && quiet { calm + 1 } else { 0 };
                if calm >= 3 {
                    return true;
                }
            }
        }
        if std::env::var("VH_DEBUG").is_ok() {
            eprintln!("barrier gave up: last snapshot {:?} threads {} rounds/idle/same/quiet {:?} own {:?}", prev, thread_states(), dbg_counts, self.own);
        }
        false
    }
}

impl Settle {
    /// Every thread that is not the harness's own -- tokio's blocking pool, which runs remoc's
    /// (de)serializer closures, and remoc's one-time thread test -- is sleeping: not running, not
    /// runnable (a freshly created or just woken thread counts as busy), not in uninterruptible wait.
    /// The harness's own threads are not looked at: on a loaded machine a woken ticker may stay
    /// runnable for milliseconds.
    pub fn threads_quiet(&self) -> bool {
        let Ok(dir) = std::fs::read_dir("/proc/self/task") else { return true };
        for e in dir.flatten() {
            if self.own.contains(&*e.file_name().to_string_lossy()) {
                continue;
            }
            let Ok(stat) = std::fs::read_to_string(e.path().join("stat")) else { continue };
            let Some(b) = stat.rfind(')') else { continue };
            let state = stat[b + 1..].trim_start().chars().next().unwrap_or('S');
            if state == 'R' || state == 'D' {
                return false;
            }
        }
        true
    }
}

pub fn thread_states() -> String {
    let mut out = String::new();
    if let Ok(dir) = std::fs::read_dir("/proc/self/task") {
        for e in dir.flatten() {
            if let Ok(stat) = std::fs::read_to_string(e.path().join("stat")) {
                if let (Some(a), Some(b)) = (stat.find('('), stat.rfind(')')) {
                    out.push_str(&format!("[{} {}]", &stat[a + 1..b], stat[b + 1..].trim_start().chars().next().unwrap_or('?')));
                }
            }
        }
    }
    out
}
