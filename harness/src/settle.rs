//! Quiescence barrier that also works while `spawn_blocking` helper threads are outstanding.
//!
//! With the paused clock a `sleep(1 ns)` completes only when every task is idle AND no `spawn_blocking`
//! task is outstanding (tokio inhibits auto-advance while one exists).  The (de)serializer threads of
//! `rch::base` may stay parked for a long time (a cut stream: the deserializer waits for chunks that
//! only the next item's first frame will cancel), in which case the sleep would never fire.  So the
//! barrier waits for the sleep OR a real-time tick; after a tick it accepts quiescence when all other
//! threads of the process are sleeping, and the observables did not change, several rounds in a row.
use std::{
    sync::{
        atomic::{AtomicU64, Ordering},
        Arc,
    },
    time::Duration,
};
use tokio::sync::Notify;

pub struct Settle {
    tick_tx: std::sync::mpsc::Sender<(u64, u64)>,
    fired: Arc<AtomicU64>,
    notify: Arc<Notify>,
    gen: u64,
    pub rounds: u64,
    pub ticks: u64,
}

impl Settle {
    pub fn new() -> Self {
        let (tick_tx, tick_rx) = std::sync::mpsc::channel::<(u64, u64)>();
        let fired = Arc::new(AtomicU64::new(0));
        let notify = Arc::new(Notify::new());
        let (f2, n2) = (fired.clone(), notify.clone());
        std::thread::spawn(move || {
            while let Ok((g, micros)) = tick_rx.recv() {
                std::thread::sleep(Duration::from_micros(micros));
                f2.store(g, Ordering::SeqCst);
                n2.notify_one();
            }
        });
        Settle { tick_tx, fired, notify, gen: 0, rounds: 0, ticks: 0 }
    }

    /// true: the paused clock auto-advanced (runtime idle, no helper thread outstanding);
    /// false: `micros` of real time passed first.
    async fn idle_or_tick(&mut self, micros: u64) -> bool {
        self.gen += 1;
        let g = self.gen;
        let _ = self.tick_tx.send((g, micros));
        let sleep = tokio::time::sleep(Duration::from_nanos(1));
        tokio::pin!(sleep);
        loop {
            tokio::select! {
                biased;
                _ = &mut sleep => return true,
                _ = self.notify.notified() => {
                    if self.fired.load(Ordering::SeqCst) >= g {
                        return false;
                    }
                }
            }
        }
    }

    /// Runs until quiescent; `snap` returns the observables.  false: no quiescence (livelock).
    pub async fn barrier(&mut self, snap: &dyn Fn() -> Vec<u64>) -> bool {
        let mut prev = snap();
        let mut calm = 0;
        for _ in 0..2000 {
            self.rounds += 1;
            let idle = self.idle_or_tick(700).await;
            for _ in 0..4 {
                tokio::task::yield_now().await;
            }
            let now = snap();
            let same = now == prev;
            prev = now;
            if idle {
                // a plain std::thread (remoc's one-time thread test) does not inhibit auto-advance
                calm = if same && threads_quiet() { calm + 1 } else { 0 };
                if calm >= 2 {
                    return true;
                }
            } else {
                self.ticks += 1;
                let quiet = threads_quiet();
                calm = if same && quiet { calm + 1 } else { 0 };
                if calm >= 3 {
                    return true;
                }
            }
        }
        false
    }
}

/// All other threads of the process are sleeping (not running, not in uninterruptible wait).
pub fn threads_quiet() -> bool {
    let me = std::fs::read_link("/proc/thread-self")
        .ok()
        .and_then(|p| p.file_name().map(|s| s.to_string_lossy().into_owned()));
    let Ok(dir) = std::fs::read_dir("/proc/self/task") else { return true };
    for e in dir.flatten() {
        let tid = e.file_name().to_string_lossy().into_owned();
        if Some(&tid) == me.as_ref() {
            continue;
        }
        let Ok(stat) = std::fs::read_to_string(e.path().join("stat")) else { continue };
        if let Some(pos) = stat.rfind(')') {
            let state = stat[pos + 1..].trim_start().chars().next().unwrap_or('S');
            if state == 'R' || state == 'D' {
                return false;
            }
        }
    }
    true
}
