//! C20 (lazy values and blobs): REAL `remoc::robj::lazy_blob::LazyBlob` / `remoc::robj::lazy::Lazy<Vec<u8>>`
//! provided on endpoint 0 and forwarded along a line of endpoints 0 - 1 - ... - h over h real
//! connections (`remoc::Connect::framed` over the harness transport; connection k joins endpoints k
//! and k+1; large receive buffers).  A blob (it is `Clone`) is kept on every endpoint of the path,
//! a `Lazy` only on the last one.
//!
//! Input (after the component number):
//!   kind n seed h keep cs0 cs1 cs2 cs3 md0 md1 md2 md3 (op a b c)*
//!   kind 0 = LazyBlob, 1 = Lazy<Vec<u8>>;  payload byte i = (seed + 37 i) mod 256, i < n;  h = 1..3 hops;
//!   keep 1 = `new` (provider kept), 0 = `provided`;  cs/md = chunk size / max data size configured on
//!   endpoint 0..3 (the chunk size a sender uses is that of the receiving endpoint)
//!   ops 0 fetch a=endpoint b=connection cut during the fetch (>= 3: none) c=d: the cut strikes when the
//!         (d+1)-th data message of the transfer is about to cross the connection (towards the fetcher)
//!       1 cut connection a now | 2 drop the provider | 3 provider.keep()
//! Output per op: fetch: 0 len bytes.. (Ok) | 1 0 (Err) | 2 0 (still pending at quiescence) | 6 0 (no such
//!   holder); other ops: 0 0 | 6 0.
use crate::{
    rng::Rng,
    transport::{Fault, Net},
};
use bytes::Bytes;
use remoc::{
    chmux::verif::{decode, MultiplexMsg},
    codec,
    rch::base,
    robj::{lazy, lazy::Lazy, lazy_blob, lazy_blob::LazyBlob},
    Cfg, Connect,
};
use serde::{Deserialize, Serialize};
use std::{future::Future, pin::Pin, time::Duration};

pub const COMP: u128 = 200;

#[derive(Serialize, Deserialize)]
enum Item {
    Blob(LazyBlob),
    Lazy(Lazy<Vec<u8>>),
}

enum Prov {
    Blob(lazy_blob::Provider),
    Lazy(lazy::Provider),
}

async fn barrier() {
    for _ in 0..2 {
        tokio::time::sleep(Duration::from_nanos(1)).await;
    }
}

async fn poll_to_quiescence<F: Future>(mut fut: Pin<&mut F>) -> Option<F::Output> {
    for _ in 0..2 {
        tokio::select! {
            biased;
            r = &mut fut => return Some(r),
            _ = tokio::time::sleep(Duration::from_nanos(1)) => {}
        }
    }
    None
}

async fn upto_quiescence<T>(fut: impl Future<Output = T>) -> Option<T> {
    tokio::pin!(fut);
    poll_to_quiescence(fut.as_mut()).await
}

#[derive(Debug, Clone, PartialEq)]
pub enum Res {
    Ok(Vec<u8>),
    Err(&'static str),
    Pending,
    NotApplicable,
    Unit,
}

enum Front {
    Nothing,
    Control,
    Data,
}

/// what is at the front of the frames waiting to cross from side a to side b
fn front(net: &Net) -> Front {
    let l = net.a2b.0.lock().unwrap();
    match l.pending.front() {
        None => Front::Nothing,
        Some(f) => match decode(f) {
            Ok(MultiplexMsg::Data { .. }) => {
                if l.pending.len() >= 2 {
                    Front::Data
                } else {
                    Front::Nothing
                }
            }
            _ => Front::Control,
        },
    }
}

/// Runs the fetch with connection `net` delivering by hand: everything towards the provider, one
/// protocol message at a time towards the fetcher; when the (d+1)-th data message is about to cross,
/// the connection is cut instead.  Returns the result (None: pending) and whether the cut happened.
async fn pumped<T>(fut: impl Future<Output = T>, net: &Net, d: usize) -> (Option<T>, bool) {
    tokio::pin!(fut);
    net.set_auto(false);
    let mut count = 0usize;
    let mut cut = false;
    for _ in 0..100_000 {
        if let Some(r) = poll_to_quiescence(fut.as_mut()).await {
            if !cut {
                net.set_auto(true);
            }
            return (Some(r), cut);
        }
        if cut {
            return (None, true);
        }
        let back = net.b2a.deliver_all();
        match front(net) {
            Front::Data => {
                if count == d {
                    net.a2b.fail(Fault::StreamErr);
                    net.b2a.fail(Fault::StreamErr);
                    cut = true;
                } else {
                    net.a2b.deliver(2);
                    count += 1;
                }
            }
            Front::Control => {
                net.a2b.deliver(1);
            }
            Front::Nothing => {
                if back == 0 {
                    net.set_auto(true);
                    barrier().await;
                    let r = poll_to_quiescence(fut.as_mut()).await;
                    return (r, false);
                }
            }
        }
    }
    (None, cut)
}

struct Case {
    kind: u128,
    payload: Vec<u8>,
    h: usize,
    keep: bool,
    cs: [u32; 4],
    md: [usize; 4],
    ops: Vec<(u128, usize, usize, usize)>,
}

fn parse(inp: &[u128]) -> Option<Case> {
    if inp.len() < 13 || (inp.len() - 13) % 4 != 0 {
        return None;
    }
    let n = inp[1] as usize;
    let seed = inp[2];
    let h = inp[3] as usize;
    if inp[0] > 1 || n > 5000 || h < 1 || h > 3 || inp[4] > 1 {
        return None;
    }
    let mut cs = [0u32; 4];
    let mut md = [0usize; 4];
    for i in 0..4 {
        if inp[5 + i] < 4 || inp[5 + i] > 100_000 || inp[9 + i] < 100 || inp[9 + i] > 1_000_000 {
            return None;
        }
        cs[i] = inp[5 + i] as u32;
        md[i] = inp[9 + i] as usize;
    }
    let ops: Vec<_> = inp[13..].chunks(4).map(|c| (c[0], c[1] as usize, c[2] as usize, c[3] as usize)).collect();
    if ops.len() > 40 || ops.iter().any(|o| o.0 > 3 || o.1 > 100 || o.2 > 100 || o.3 > 100_000) {
        return None;
    }
    Some(Case {
        kind: inp[0],
        payload: (0..n).map(|i| ((seed + 37 * i as u128) % 256) as u8).collect(),
        h,
        keep: inp[4] == 1,
        cs,
        md,
        ops,
    })
}

fn blob_err(e: lazy_blob::FetchError) -> &'static str {
    match e {
        lazy_blob::FetchError::Dropped => "dropped",
        lazy_blob::FetchError::Size(_) => "size",
        lazy_blob::FetchError::RemoteReceive(_) => "recv",
        lazy_blob::FetchError::RemoteConnect(_) => "connect",
    }
}
fn lazy_err(e: lazy::FetchError) -> &'static str {
    match e {
        lazy::FetchError::Dropped => "dropped",
        lazy::FetchError::RemoteReceive(_) => "recv",
        lazy::FetchError::RemoteConnect(_) => "connect",
        lazy::FetchError::RemoteListen(_) => "listen",
    }
}

async fn fetch_item(it: &Item) -> Res {
    match it {
        Item::Blob(b) => match b.get().await {
            Ok(d) => Res::Ok(Vec::from(d)),
            Err(e) => Res::Err(blob_err(e)),
        },
        Item::Lazy(l) => match l.get().await {
            Ok(d) => Res::Ok(d.clone()),
            Err(e) => Res::Err(lazy_err(e)),
        },
    }
}

pub struct Trace {
    pub results: Vec<Res>,
    /// per op: did a cut strike during the fetch
    pub struck: Vec<bool>,
    /// the advertised length seen on every holder
    pub lens: Vec<Option<usize>>,
}

async fn run_case(c: &Case) -> Option<Trace> {
    let mut nets: Vec<Net> = Vec::new();
    let mut txs: Vec<base::Sender<Item>> = Vec::new(); // at endpoint k, towards k+1
    let mut rxs: Vec<base::Receiver<Item>> = Vec::new(); // at endpoint k+1, from k
    let mut keepalive = Vec::new();
    let mut muxes = Vec::new();
    for k in 0..c.h {
        let net = Net::new(true);
        let cfg_a = Cfg { chunk_size: c.cs[k], max_data_size: c.md[k], ..Default::default() };
        let cfg_b = Cfg { chunk_size: c.cs[k + 1], max_data_size: c.md[k + 1], ..Default::default() };
        let (a, b) = tokio::join!(
            Connect::framed::<_, _, Item, Item, codec::Default>(cfg_a, net.a2b.sink(), net.b2a.stream()),
            Connect::framed::<_, _, Item, Item, codec::Default>(cfg_b, net.b2a.sink(), net.a2b.stream()),
        );
        let (ca, ta, ra) = a.ok()?;
        let (cb, tb, rb) = b.ok()?;
        muxes.push(tokio::spawn(ca));
        muxes.push(tokio::spawn(cb));
        txs.push(ta);
        rxs.push(rb);
        keepalive.push((ra, tb));
        nets.push(net);
    }
    barrier().await;

    // provide on endpoint 0 and pass along
    let data = Bytes::from(c.payload.clone());
    let (first, prov): (Item, Option<Prov>) = match (c.kind, c.keep) {
        (0, true) => (Item::Blob(LazyBlob::new(data)), None),
        (0, false) => {
            let (b, p) = LazyBlob::provided(data);
            (Item::Blob(b), Some(Prov::Blob(p)))
        }
        (_, true) => (Item::Lazy(Lazy::new(c.payload.clone())), None),
        (_, false) => {
            let (l, p) = Lazy::provided(c.payload.clone());
            (Item::Lazy(l), Some(Prov::Lazy(p)))
        }
    };
    let mut prov = prov;
    let mut holders: Vec<Option<Item>> = vec![None, None, None, None];
    let mut cur = first;
    for k in 0..c.h {
        let send = match cur {
            Item::Blob(b) => {
                holders[k] = Some(Item::Blob(b.clone()));
                Item::Blob(b)
            }
            Item::Lazy(l) => Item::Lazy(l),
        };
        upto_quiescence(txs[k].send(send)).await?.ok()?;
        cur = upto_quiescence(rxs[k].recv()).await?.ok()??;
        barrier().await;
    }
    holders[c.h] = Some(cur);
    let lens = holders
        .iter()
        .map(|h| match h {
            Some(Item::Blob(b)) => b.len().ok(),
            _ => None,
        })
        .collect();

    let mut cut = vec![false; c.h];
    let mut results = Vec::new();
    let mut struck = Vec::new();
    for &(op, a, b, d) in &c.ops {
        let mut hit = false;
        let res = match op {
            0 => match holders.get(a).and_then(|x| x.as_ref()) {
                Some(it) => {
                    if b < a && b < c.h && !cut[b] {
                        let (r, did) = pumped(fetch_item(it), &nets[b], d).await;
                        if did {
                            cut[b] = true;
                            hit = true;
                        }
                        r.unwrap_or(Res::Pending)
                    } else {
                        upto_quiescence(fetch_item(it)).await.unwrap_or(Res::Pending)
                    }
                }
                None => Res::NotApplicable,
            },
            1 => {
                if a < c.h && !cut[a] {
                    nets[a].a2b.fail(Fault::StreamErr);
                    nets[a].b2a.fail(Fault::StreamErr);
                    cut[a] = true;
                    Res::Unit
                } else {
                    Res::NotApplicable
                }
            }
            2 => match prov.take() {
                Some(p) => {
                    drop(p);
                    Res::Unit
                }
                None => Res::NotApplicable,
            },
            3 => match prov.take() {
                Some(Prov::Blob(p)) => {
                    p.keep();
                    Res::Unit
                }
                Some(Prov::Lazy(p)) => {
                    p.keep();
                    Res::Unit
                }
                None => Res::NotApplicable,
            },
            _ => return None,
        };
        barrier().await;
        results.push(res);
        struck.push(hit);
    }
    drop(holders);
    drop(prov);
    drop(txs);
    drop(rxs);
    drop(keepalive);
    for m in muxes {
        m.abort();
    }
    Some(Trace { results, struck, lens })
}

/// The property on the implementation trace: a fetch yields exactly the provided bytes or an error
/// (never other bytes, never a truncated value); the advertised length is the provided length; a
/// fetch during which the connection was cut, or across a connection that is already cut, is not left
/// pending; with no cut on the path and a live provider a remote fetch succeeds.
fn oracle(c: &Case, t: &Trace) -> String {
    for (j, l) in t.lens.iter().enumerate() {
        if let Some(l) = l {
            if *l != c.payload.len() {
                return format!("FAIL: endpoint {j} sees length {l}, provided {}", c.payload.len());
            }
        }
    }
    let mut cut = vec![false; c.h];
    let mut prov_gone = false;
    let mut cached: Vec<Option<bool>> = vec![None; 4];
    let mut served = false; // Lazy: the single request was answered
    for (i, (&(op, a, b, _d), r)) in c.ops.iter().zip(t.results.iter()).enumerate() {
        match op {
            0 => {
                if let Res::Ok(bytes) = r {
                    if bytes != &c.payload {
                        let what = if c.payload.starts_with(bytes) { "a truncated value" } else { "other bytes" };
                        return format!("FAIL: op {i}: fetch on endpoint {a} returned {what} ({} of {} bytes)", bytes.len(), c.payload.len());
                    }
                }
                if *r == Res::NotApplicable {
                    continue;
                }
                if t.struck[i] && b < c.h {
                    cut[b] = true;
                }
                let path_cut = (0..a.min(c.h)).any(|k| cut[k]);
                if cached[a].is_none() {
                    if path_cut && *r == Res::Pending {
                        return format!("FAIL: op {i}: fetch on endpoint {a} across a cut connection is left pending");
                    }
                    if !path_cut && !prov_gone && a >= 1 && !(c.kind == 1 && served) && !matches!(r, Res::Ok(_)) {
                        return format!("FAIL: op {i}: fetch on endpoint {a} with intact path and live provider gave {r:?}");
                    }
                    if *r != Res::Pending {
                        cached[a] = Some(matches!(r, Res::Ok(_)));
                        served = true;
                    }
                } else if cached[a] != Some(matches!(r, Res::Ok(_))) {
                    return format!("FAIL: op {i}: repeated fetch on endpoint {a} changed its answer to {r:?}");
                }
            }
            1 => {
                if *r == Res::Unit {
                    cut[a] = true;
                }
            }
            2 => {
                if *r == Res::Unit {
                    prov_gone = true;
                }
            }
            _ => {}
        }
    }
    "ok".into()
}

fn signature(c: &Case, t: &Trace) -> String {
    let mut s = String::from(if c.kind == 0 { "blob" } else { "lazy" });
    s.push_str(&format!(":h{}", c.h));
    let n = c.payload.len();
    // whole or streamed at the forwarders
    if c.kind == 0 && (1..c.h).any(|j| n > c.md[j]) {
        s.push_str(":stream");
    }
    if (0..c.h).any(|k| n > c.cs[k + 1] as usize) {
        s.push_str(":multi");
    }
    if n == 0 {
        s.push_str(":empty");
    }
    let mut oks = 0;
    let mut errs: Vec<&str> = Vec::new();
    for (i, (&(op, a, _, _), r)) in c.ops.iter().zip(t.results.iter()).enumerate() {
        if op == 0 {
            match r {
                Res::Ok(_) => oks += 1,
                Res::Err(e) => {
                    if !errs.contains(e) {
                        errs.push(e)
                    }
                }
                Res::Pending => {
                    if !errs.contains(&"pending") {
                        errs.push("pending")
                    }
                }
                _ => {}
            }
            if a == 0 && !s.contains(":local") {
                s.push_str(":local");
            }
            if t.struck[i] && !s.contains(":midcut") {
                s.push_str(":midcut");
            }
        }
        if op == 1 && *r == Res::Unit && !s.contains(":cut") {
            s.push_str(":cut");
        }
        if op == 2 && *r == Res::Unit {
            s.push_str(":provdrop");
        }
    }
    if oks > 0 {
        s.push_str(":ok");
    }
    for e in errs {
        s.push(':');
        s.push_str(e);
    }
    s
}

pub fn exec(inp: &[u128]) -> (Vec<u128>, String, String) {
    let Some(c) = parse(inp) else { return (vec![98], "malformed".into(), "ok".into()) };
    let (txr, rxr) = std::sync::mpsc::channel();
    let c = std::sync::Arc::new(c);
    let c2 = c.clone();
    std::thread::spawn(move || {
        let rt = tokio::runtime::Builder::new_current_thread().enable_time().start_paused(true).build().unwrap();
        let r = std::panic::catch_unwind(std::panic::AssertUnwindSafe(|| rt.block_on(run_case(&c2))));
        let _ = txr.send(r);
    });
    let t = match rxr.recv_timeout(Duration::from_secs(30)) {
        Ok(Ok(Some(t))) => t,
        Ok(Ok(None)) => return (vec![96], "setup-failed".into(), "FAIL: could not establish the connections or pass the value along".into()),
        Ok(Err(_)) => return (vec![8], "panic".into(), "FAIL: the implementation panicked".into()),
        Err(_) => return (vec![95], "hang".into(), "FAIL: case did not reach quiescence within 30 s of wall time".into()),
    };
    let mut out: Vec<u128> = Vec::new();
    for r in &t.results {
        match r {
            Res::Ok(b) => {
                out.push(0);
                out.push(b.len() as u128);
                out.extend(b.iter().map(|x| *x as u128));
            }
            Res::Err(_) => out.extend([1, 0]),
            Res::Pending => out.extend([2, 0]),
            Res::NotApplicable => out.extend([6, 0]),
            Res::Unit => out.extend([0, 0]),
        }
    }
    (out, signature(&c, &t), oracle(&c, &t))
}

pub fn gen(r: &mut Rng, _i: usize) -> Vec<Vec<u128>> {
    let kind = if r.chance(1, 4) { 1u64 } else { 0 };
    let h = r.range(1, 3);
    let css = [4u64, 5, 7, 8, 16, 17, 32, 64, 100, 16384];
    let mds = [100u64, 101, 128, 160, 200, 256, 524288];
    let mut cs = [0u64; 4];
    let mut md = [0u64; 4];
    for i in 0..4 {
        cs[i] = *r.pick(&css);
        md[i] = if kind == 0 { *r.pick(&mds) } else { 524288 };
    }
    // sizes around the chunk sizes and the forwarders' max data sizes
    let anchor = match r.below(4) {
        0 => cs[r.range(1, h) as usize],
        1 | 2 => md[r.range(1, h) as usize].min(400),
        _ => r.range(0, 300),
    };
    let n = match r.below(8) {
        0 => 0,
        1 => anchor,
        2 => anchor + 1,
        3 => anchor.saturating_sub(1),
        4 => 2 * anchor,
        5 => r.range(0, 3),
        _ => r.range(0, anchor.max(1) * 3).min(600),
    };
    let keep = r.chance(1, 2) as u64;
    let mut ops: Vec<(u64, u64, u64, u64)> = Vec::new();
    // frames a transfer of n bytes needs at least (for cut positions around the end of the transfer)
    let frames = |csz: u64| if n == 0 { 1 } else { (n + csz - 1) / csz };
    let nops = r.range(1, 5);
    for _ in 0..nops {
        match r.below(20) {
            0..=12 => {
                let a = if kind == 1 {
                    if r.chance(9, 10) {
                        h
                    } else {
                        r.below(4)
                    }
                } else if r.chance(1, 12) {
                    0
                } else {
                    r.range(1, h)
                };
                if r.chance(1, 2) && a >= 1 {
                    let k = r.below(a.min(h).max(1));
                    let f = frames(cs[k as usize + 1]);
                    let d = if kind == 1 {
                        0
                    } else {
                        match r.below(6) {
                            0 => 0,
                            1 => f.saturating_sub(1),
                            2 => f,
                            3 => f + 1,
                            4 => f + 2,
                            _ => r.range(0, f + 2),
                        }
                    };
                    ops.push((0, a, k, d));
                } else {
                    ops.push((0, a, 9, 0));
                }
            }
            13 | 14 => ops.push((1, r.below(h), 0, 0)),
            15 | 16 => ops.push((2, 0, 0, 0)),
            17 => ops.push((3, 0, 0, 0)),
            _ => ops.push((0, r.below(5), 9, 0)),
        }
    }
    let seed = r.below(256);
    let mut v: Vec<u128> = vec![kind as u128, n as u128, seed as u128, h as u128, keep as u128];
    v.extend(cs.iter().map(|x| *x as u128));
    v.extend(md.iter().map(|x| *x as u128));
    for (o, a, b, c) in ops {
        v.extend([o as u128, a as u128, b as u128, c as u128]);
    }
    vec![v]
}

pub fn run(seed: u64, count: usize, extra: &[String], out: &mut impl std::io::Write) {
    let seed = Rng::new(seed ^ 0xC200).next();
    crate::drive(COMP, seed, count, extra, out, gen, exec);
}
