//! Two real chmux endpoints: oracle-only streams for the connection-level properties whose model
//! (`Chmux/Endpoint.v`) is validated against the code one endpoint at a time by `endpoint.rs`:
//!   lifecycle (C07), connect outcomes and pairing (C10), close/drop classification (C11),
//!   transport faults, silence and idle periods under a virtual clock (C06).
//! Output is the constant [96]; the verdict is the oracle's.
use crate::{
    conn::{self, quiesce, Pair},
    rng::Rng,
    transport::Fault,
};
use bytes::Bytes;
use futures::FutureExt;
use remoc::chmux::{self, Cfg, ChMuxError, ConnectError, Received, Receiver, SendError, Sender};
use std::{io::Write, time::Duration};

const COMP: u128 = 70;

fn cfg(r: &mut Rng, timeout: Option<Duration>) -> Cfg {
    Cfg {
        connection_timeout: timeout,
        max_ports: *r.pick(&[2u32, 3, 8, 100]),
        connect_queue: *r.pick(&[1u16, 2, 8]),
        chunk_size: *r.pick(&[4u32, 8, 64]),
        receive_buffer: *r.pick(&[4u32, 7, 16, 64, 1024]),
        shared_send_queue: r.range(1, 4) as usize,
        transport_send_queue: r.range(1, 4) as usize,
        transport_receive_queue: r.range(1, 4) as usize,
        max_data_size: 1 << 16,
        ..Default::default()
    }
}

async fn recv_all_now(rx: &mut Receiver) -> (Vec<Vec<u8>>, bool, bool) {
    // (messages, end-of-stream seen, error seen)
    let mut got = Vec::new();
    loop {
        match rx.recv_any().now_or_never() {
            None => return (got, false, false),
            Some(Ok(Some(Received::Data(d)))) => got.push(d.into()),
            Some(Ok(Some(Received::Chunks))) => loop {
                match rx.recv_chunk().now_or_never() {
                    Some(Ok(Some(_))) => continue,
                    _ => break,
                }
            },
            Some(Ok(Some(Received::Requests(_)))) => {}
            Some(Ok(None)) => return (got, true, false),
            Some(Err(_)) => return (got, false, true),
        }
    }
}

fn mux_class<T>(r: &Result<(), ChMuxError<T, T>>) -> &'static str {
    match r {
        Ok(()) => "ok",
        Err(ChMuxError::SinkError(_)) => "sink",
        Err(ChMuxError::StreamError(_)) => "stream",
        Err(ChMuxError::StreamClosed) => "closed",
        Err(ChMuxError::Reset) => "reset",
        Err(ChMuxError::Timeout) => "timeout",
        Err(ChMuxError::Protocol(_)) => "protocol",
    }
}

/// C07: open ports, use them, drop everything in a random order; both dispatchers must end with Ok
/// without the transport being closed, all port numbers must be released, no task may be left.
async fn lifecycle(r: &mut Rng) -> (String, String) {
    let ca = cfg(r, None);
    let cb = cfg(r, None);
    let max_a = ca.max_ports;
    let max_b = cb.max_ports;
    let base_tasks = tokio::runtime::Handle::current().metrics().num_alive_tasks();
    let mut p: Pair = conn::connect(ca, cb).await;
    let alloc_a = p.a_client.port_allocator();
    let alloc_b = p.b_client.port_allocator();
    let cycles = r.range(1, 3);
    let dbg = std::env::var("VH_DEBUG").is_ok();
    if dbg { eprintln!("lifecycle max_a={max_a} max_b={max_b} cycles={cycles}"); }
    let mut sig = String::new();
    for cycle in 0..cycles {
        let mut objs: Vec<Box<dyn std::any::Any>> = Vec::new();
        let mut senders: Vec<Sender> = Vec::new();
        let mut receivers: Vec<Receiver> = Vec::new();
        let n = r.range(0, (max_a.min(max_b) as u64).min(3));
        let mut numbers_a = std::collections::HashSet::new();
        let mut numbers_b = std::collections::HashSet::new();
        for _ in 0..n {
            if dbg { eprintln!("open port"); }
            let ((ta, ra), (tb, rb)) = if r.chance(1, 2) {
                conn::open_port(&mut p).await
            } else {
                // B connects, A accepts
                let conn = p.b_client.connect();
                let acc = p.a_listener.accept();
                let (rb, ra) = tokio::join!(conn, acc);
                (ra.unwrap().unwrap(), rb.unwrap())
            };
            if !numbers_a.insert(ta.local_port()) || !numbers_b.insert(tb.local_port()) {
                return ("lifecycle".into(), "FAIL: C07 two concurrently open ports share a number".into());
            }
            if numbers_a.len() as u32 > max_a || numbers_b.len() as u32 > max_b {
                return ("lifecycle".into(), "FAIL: C07 more ports open than max_ports".into());
            }
            senders.push(ta);
            senders.push(tb);
            receivers.push(ra);
            receivers.push(rb);
        }
        // some traffic
        for s in senders.iter_mut() {
            if r.chance(1, 2) {
                let _ = s.try_send(&Bytes::from(vec![1u8; r.below(6) as usize]));
            }
        }
        quiesce().await;
        // pending connect without accept / unanswered request
        // (only in the last cycle: a stale request in the listener queue would confuse the next cycle's pairing)
        if cycle + 1 == cycles && r.chance(1, 2) {
            if let Some(Ok(c)) = p.a_client.connect_ext(None, true).now_or_never() {
                objs.push(Box::new(c));
                sig.push_str("pc,");
            }
            quiesce().await;
            if r.chance(1, 2) {
                if let Some(Ok(Some(req))) = p.b_listener.inspect().now_or_never() {
                    objs.push(Box::new(req));
                    sig.push_str("ur,");
                }
            }
        }
        for s in senders {
            objs.push(Box::new(s));
        }
        for rx in receivers {
            objs.push(Box::new(rx));
        }
        if dbg { eprintln!("dropping {} objects", objs.len()); }
        // random drop order, with or without barriers in between
        while !objs.is_empty() {
            let k = r.below(objs.len() as u64) as usize;
            drop(objs.swap_remove(k));
            if r.chance(1, 3) {
                quiesce().await;
            }
        }
        quiesce().await;
        sig.push_str(&format!("n{n},"));
    }
    if dbg { eprintln!("drop clients/listeners"); }
    // drop clients and listeners in random order
    let Pair { a_client, a_listener, b_client, b_listener, mux_a, mux_b, net } = p;
    let mut last: Vec<Box<dyn std::any::Any>> = vec![Box::new(a_client), Box::new(a_listener), Box::new(b_client), Box::new(b_listener)];
    while !last.is_empty() {
        let k = r.below(last.len() as u64) as usize;
        drop(last.swap_remove(k));
        if r.chance(1, 2) {
            quiesce().await;
        }
    }
    for _ in 0..4 {
        quiesce().await;
    }
    if !mux_a.is_finished() || !mux_b.is_finished() {
        return (format!("lifecycle:{sig}"), "FAIL: C07 a dispatcher is still running after everything was dropped".into());
    }
    let (ra, rb) = (mux_a.await.unwrap(), mux_b.await.unwrap());
    if ra.is_err() || rb.is_err() {
        return (format!("lifecycle:{sig}"), format!("FAIL: C07 dispatchers ended with {} / {}", mux_class(&ra), mux_class(&rb)));
    }
    // every number released
    let mut held = Vec::new();
    for _ in 0..max_a {
        match alloc_a.try_allocate() {
            Some(n) => held.push(n),
            None => return (format!("lifecycle:{sig}"), "FAIL: C07 port numbers of endpoint A were not released".into()),
        }
    }
    drop(held);
    let mut held = Vec::new();
    for _ in 0..max_b {
        match alloc_b.try_allocate() {
            Some(n) => held.push(n),
            None => return (format!("lifecycle:{sig}"), "FAIL: C07 port numbers of endpoint B were not released".into()),
        }
    }
    drop(held);
    drop(net);
    quiesce().await;
    let tasks = tokio::runtime::Handle::current().metrics().num_alive_tasks();
    if tasks > base_tasks {
        return (format!("lifecycle:{sig}"), format!("FAIL: C07 {} background tasks left behind", tasks - base_tasks));
    }
    (format!("lifecycle:{sig}"), "ok".into())
}

/// C10: the configured default behaviour for exhausted local ports (fail / wait / wait with a time limit).
async fn exhaustion(r: &mut Rng) -> (String, String) {
    use remoc::chmux::PortsExhausted;
    let policy = r.below(3);
    let limit = Duration::from_millis(*r.pick(&[5u64, 200, 60_000]));
    let mut ca = cfg(r, None);
    ca.max_ports = r.range(1, 3) as u32;
    ca.ports_exhausted = match policy {
        0 => PortsExhausted::Fail,
        1 => PortsExhausted::Wait(None),
        _ => PortsExhausted::Wait(Some(limit)),
    };
    let mut cb = cfg(r, None);
    cb.max_ports = 100;
    cb.connect_queue = 8;
    let k = ca.max_ports;
    let mut p = conn::connect(ca, cb).await;
    let sig = format!("exhaustion:p{policy}:k{k}");
    let mut held = Vec::new();
    for _ in 0..k {
        held.push(conn::open_port(&mut p).await);
    }
    // all local ports of A are in use now
    let c = p.a_client.clone();
    let t0 = tokio::time::Instant::now();
    let task = tokio::spawn(async move { c.connect().await.map(|_| ()) });
    quiesce().await;
    match policy {
        0 => {
            if !task.is_finished() {
                return (sig, "FAIL: C10 connect waits although PortsExhausted::Fail is configured and all local ports are in use".into());
            }
            match task.await.unwrap() {
                Err(ConnectError::LocalPortsExhausted) => {}
                other => return (sig, format!("FAIL: C10 connect with exhausted local ports ended with {other:?} instead of LocalPortsExhausted")),
            }
        }
        1 => {
            tokio::time::sleep(Duration::from_secs(3600)).await;
            if task.is_finished() {
                return (sig, "FAIL: C10 connect gave up although PortsExhausted::Wait(None) is configured".into());
            }
            // a port becomes free: the connect must go through
            held.pop();
            let acc = p.b_listener.accept();
            let _ = tokio::time::timeout(Duration::from_secs(10), acc).await;
            quiesce().await;
            if !task.is_finished() {
                return (sig, "FAIL: C10 waiting connect did not proceed when a local port became free".into());
            }
        }
        _ => {
            tokio::time::sleep(limit + Duration::from_millis(50)).await;
            quiesce().await;
            if !task.is_finished() {
                return (sig, format!("FAIL: C10 connect still waiting after the configured limit {:?}", limit));
            }
            match task.await.unwrap() {
                Err(ConnectError::LocalPortsExhausted) => {}
                other => return (sig, format!("FAIL: C10 connect after the time limit ended with {other:?} instead of LocalPortsExhausted")),
            }
            if t0.elapsed() < limit {
                return (sig, "FAIL: C10 connect gave up before the configured limit".into());
            }
        }
    }
    (sig, "ok".into())
}

/// C10: concurrent connects against a listener that accepts, rejects or drops; outcome per request,
/// true refusal reason, pairing by label exchange.
async fn connects(r: &mut Rng) -> (String, String) {
    if r.chance(1, 4) {
        return exhaustion(r).await;
    }
    let ca = cfg(r, None);
    let cb = cfg(r, None);
    let mut p = conn::connect(ca, cb.clone()).await;
    let n = r.range(1, 5) as usize;
    // what the listener does with the i-th request it sees
    let plan: Vec<u8> = (0..n).map(|_| r.below(4) as u8).collect(); // 0/1 accept, 2 reject(no_ports random), 3 drop
    let mut pending = Vec::new();
    for _ in 0..n {
        match p.a_client.connect_ext(None, true).now_or_never() {
            Some(Ok(c)) => pending.push(c),
            _ => break, // waiting for a local port or a request credit: fine, not issued
        }
    }
    let issued = pending.len();
    quiesce().await;
    let mut accepted_b: Vec<(Sender, Receiver)> = Vec::new();
    let mut expect: Vec<&'static str> = Vec::new();
    let mut accept_tasks: Vec<(usize, tokio::task::JoinHandle<Result<(Sender, Receiver), chmux::ListenerError>>)> = Vec::new();
    let mut seen = 0;
    let mut guard = 0;
    while seen < issued && guard < 50 {
        guard += 1;
        match p.b_listener.inspect().now_or_never() {
            Some(Ok(Some(req))) => {
                match plan[seen] {
                    0 | 1 => {
                        // accept runs as its own task: it may have to wait for a free local port
                        accept_tasks.push((seen, tokio::spawn(req.accept())));
                        expect.push("accepting");
                    }
                    2 => {
                        let np = r.chance(1, 2);
                        req.reject(np).await;
                        expect.push(if np { "noports" } else { "rejected" });
                    }
                    _ => {
                        drop(req);
                        expect.push("rejected");
                    }
                }
                seen += 1;
            }
            _ => {
                quiesce().await;
            }
        }
        quiesce().await;
    }
    for _ in 0..3 {
        quiesce().await;
    }
    for (i, t) in accept_tasks {
        if t.is_finished() {
            match t.await.unwrap() {
                Ok(pair) => {
                    accepted_b.push(pair);
                    expect[i] = "accepted";
                }
                Err(_) => expect[i] = "noports",
            }
        } else {
            // waits for a free local port: the request stays unanswered
            expect[i] = "pending";
        }
    }
    let mut sig = format!("connects:n{issued}:");
    let mut accepted_a: Vec<(Sender, Receiver)> = Vec::new();
    // requests are queued in order, so the i-th connect corresponds to the i-th request seen
    for (i, c) in pending.into_iter().enumerate() {
        let exp = expect.get(i).copied().unwrap_or("pending");
        match c.now_or_never() {
            None => {
                if exp != "pending" {
                    return (sig, format!("FAIL: C10 connect {i} is still pending although the listener answered ({exp})"));
                }
                sig.push('p');
            }
            Some(Ok(pair)) => {
                if exp != "accepted" {
                    return (sig, format!("FAIL: C10 connect {i} was accepted but the listener did {exp}"));
                }
                accepted_a.push(pair);
                sig.push('a');
            }
            Some(Err(e)) => {
                let got = match e {
                    ConnectError::Rejected => "rejected",
                    ConnectError::RemotePortsExhausted => "noports",
                    _ => "other",
                };
                if got != exp {
                    return (sig, format!("FAIL: C10 connect {i} refused with {got} but the true reason is {exp}"));
                }
                sig.push('r');
            }
        }
    }
    if accepted_a.len() != accepted_b.len() {
        return (sig, "FAIL: C10 number of accepted pairs differs between the endpoints".into());
    }
    // pairing: the i-th accepted pair on A is wired to the i-th accepted pair on B and to nothing else
    for (i, ((ta, _ra), (tb, _rb))) in accepted_a.iter_mut().zip(accepted_b.iter_mut()).enumerate() {
        if ta.remote_port() != tb.local_port() || tb.remote_port() != ta.local_port() {
            return (sig, format!("FAIL: C10 pair {i} names the wrong remote ports"));
        }
        let _ = ta.send(Bytes::from(vec![100 + i as u8])).await;
        let _ = tb.send(Bytes::from(vec![200 + i as u8])).await;
    }
    quiesce().await;
    quiesce().await;
    for (i, ((_ta, ra), (_tb, rb))) in accepted_a.iter_mut().zip(accepted_b.iter_mut()).enumerate() {
        let (ga, _, _) = recv_all_now(ra).await;
        let (gb, _, _) = recv_all_now(rb).await;
        if ga != vec![vec![200 + i as u8]] || gb != vec![vec![100 + i as u8]] {
            return (sig, format!("FAIL: C10 pair {i}: labels arrived at the wrong port ({ga:?} / {gb:?})"));
        }
    }
    (sig, "ok".into())
}

/// C11 over a forwarding hop: origin A --(connection 1)--> forwarder B (`chmux::Receiver::forward`) --(connection 2)--> C.
/// C closes gracefully while messages are under way and the forwarder is back-pressured by C's small buffers; every message
/// whose send completed at A must still reach C, then end-of-stream; A's later sends fail gracefully.
async fn closing_forward(r: &mut Rng) -> (String, String) {
    let c1a = cfg(r, None);
    let mut c1b = cfg(r, None);
    let mut c2b = cfg(r, None);
    let mut c2c = cfg(r, None);
    c1b.receive_buffer = *r.pick(&[16u32, 64, 1024]);
    c2b.max_ports = 100;
    c2c.receive_buffer = *r.pick(&[4u32, 8, 16, 64]);
    c2c.chunk_size = *r.pick(&[4u32, 8, 64]);
    let mut p1 = conn::connect(c1a, c1b).await;
    let mut p2 = conn::connect(c2b, c2c).await;
    let ((mut tx_a, _ra), (_tb, mut rx_b)) = conn::open_port(&mut p1).await;
    let ((mut tx_b2, _rb2), (_tc, mut rx_c)) = conn::open_port(&mut p2).await;
    let n = r.range(4, 24) as usize;
    let pos = r.below(n as u64 / 2 + 1) as usize;
    let msgs: Vec<Vec<u8>> = (0..n).map(|i| vec![i as u8; r.range(1, 24) as usize]).collect();
    let sig = format!("closing:forward:n{}:pos{}", n.min(4), pos.min(4));
    let fwd = tokio::spawn(async move { rx_b.forward(&mut tx_b2).await.map_err(|e| e.to_string()) });
    let (stx, mut srx) = tokio::sync::mpsc::unbounded_channel::<(usize, Result<(), SendError>)>();
    let to_send = msgs.clone();
    let sender_task = tokio::spawn(async move {
        for (i, m) in to_send.into_iter().enumerate() {
            let res = tx_a.send(Bytes::from(m)).await;
            let failed = res.is_err();
            let _ = stx.send((i, res));
            if failed {
                break;
            }
        }
        drop(tx_a);
    });
    let mut got: Vec<Vec<u8>> = Vec::new();
    let mut eos = false;
    let mut closed_called = false;
    for _ in 0..4000 {
        quiesce().await;
        if got.len() >= pos && !closed_called {
            closed_called = true;
            rx_c.close().await;
        }
        // the closed receiver takes one message per round: the forwarder stays back-pressured
        match rx_c.recv_any().now_or_never() {
            Some(Ok(Some(Received::Data(d)))) => got.push(d.into()),
            Some(Ok(Some(Received::Chunks))) => {
                let mut b = Vec::new();
                loop {
                    quiesce().await;
                    match rx_c.recv_chunk().now_or_never() {
                        Some(Ok(Some(c))) => b.extend_from_slice(&c),
                        Some(Ok(None)) => {
                            got.push(b);
                            break;
                        }
                        Some(Err(_)) => break,
                        None => {
                            if sender_task.is_finished() && fwd.is_finished() {
                                break;
                            }
                        }
                    }
                }
            }
            Some(Ok(Some(Received::Requests(_)))) => {}
            Some(Ok(None)) => {
                eos = true;
                break;
            }
            Some(Err(_)) => return (sig, "FAIL: C11 receive error at the final receiver of a forwarded channel on healthy connections".into()),
            None => {}
        }
    }
    for _ in 0..4 {
        quiesce().await;
    }
    let mut results: Vec<(usize, Result<(), SendError>)> = Vec::new();
    while let Ok(x) = srx.try_recv() {
        results.push(x);
    }
    let ok_count = results.iter().filter(|(_, r)| r.is_ok()).count();
    for (i, g) in got.iter().enumerate() {
        if i >= msgs.len() || *g != msgs[i] {
            return (sig, format!("FAIL: C11 message {i} received over the forwarded channel differs from what was sent"));
        }
    }
    if !sender_task.is_finished() {
        return (sig, "FAIL: C11 the origin sender neither completed nor failed after the final receiver closed".into());
    }
    if !eos {
        return (sig, format!("FAIL: C11 the final receiver of a forwarded channel closed but never saw end-of-stream ({} received, {ok_count} sends completed)", got.len()));
    }
    if got.len() != ok_count {
        let f = if fwd.is_finished() { format!("{:?}", fwd.await.ok()) } else { "running".into() };
        return (sig, format!("FAIL: C11 over a forwarding hop {ok_count} sends completed at the origin before it learned of the close, but the closed receiver obtained {} messages before end-of-stream (forwarder: {f})", got.len()));
    }
    if let Some((_, Err(e))) = results.iter().find(|(_, r)| r.is_err()) {
        if !matches!(e, SendError::Closed { gracefully: true }) {
            return (sig, format!("FAIL: C11 send at the origin after the close of the final receiver failed with {e:?} instead of Closed{{gracefully: true}}"));
        }
    }
    (sig, "ok".into())
}

/// C11: a stream of messages with a close / drop at a chosen position.
async fn closing(r: &mut Rng) -> (String, String) {
    let ca = cfg(r, None);
    let mut cb = cfg(r, None);
    // (for the cancelled-close kind, chosen below, B's event queue has to be small; harmless otherwise)
    // (no extra random draw here, so that recorded seeds keep their meaning)
    let small_queue = cb.shared_send_queue == 1;
    if small_queue {
        cb.transport_send_queue = 1;
    }
    let mut p = conn::connect(ca, cb).await;
    let ((mut tx, mut ra_fill), (mut tb_fill, mut rx)) = conn::open_port(&mut p).await;
    let p_net = p.net.clone();
    let n = r.range(1, 8) as usize;
    let pos = r.below(n as u64 + 1) as usize;
    // 0: receiver closes after pos, 1: receiver dropped after pos, 2: all senders dropped at the end,
    // 3: like 0 but the sender overrides graceful close (as chmux forwarding does) and the receiver is dropped after closing
    let kind = r.below(4);
    let mut msgs: Vec<Vec<u8>> = (0..n).map(|i| vec![i as u8; r.below(20) as usize]).collect();
    // 4: like 0, but the sender overrides graceful close and goes on sending (as chmux forwarding does) much more than
    //    the receive buffer holds, while the closed receiver keeps receiving: everything must arrive, then end-of-stream
    //    (drawn after the other choices, so that recorded seeds of kinds 0-3 keep their meaning)
    let kind = if kind == 0 && r.chance(1, 2) { 4 } else { kind };
    // 5: forwarding hop (separate scenario); 6: like 0, but the first close() is cancelled while it waits for a slot of the
    //    full event queue and then repeated (drawn after the other choices as well)
    if kind == 1 && r.chance(1, 3) {
        return closing_forward(r).await;
    }
    let cancelled_close = kind == 0 && small_queue;
    let mut n = n;
    if kind == 4 {
        for i in 0..r.range(10, 60) as usize {
            msgs.push(vec![(n + i) as u8; r.range(1, 40) as usize]);
        }
        n = msgs.len();
    }
    let sig = format!("closing:k{kind}:n{}:pos{}", n.min(4), pos.min(4));
    if std::env::var("VH_DEBUG").is_ok() { eprintln!("{sig} n={n} pos={pos}"); }
    let (stx, mut srx) = tokio::sync::mpsc::unbounded_channel::<(usize, Result<(), SendError>)>();
    let to_send = msgs.clone();
    if kind == 3 || kind == 4 {
        tx.set_override_graceful_close(true);
    }
    let sender_task = tokio::spawn(async move {
        for (i, m) in to_send.into_iter().enumerate() {
            let res = tx.send(Bytes::from(m)).await;
            let failed = res.is_err();
            let _ = stx.send((i, res));
            if failed {
                break;
            }
        }
        drop(tx);
    });
    let mut got: Vec<Vec<u8>> = Vec::new();
    let mut rx_opt = Some(rx);
    let mut eos = false;
    let mut closed_called = false;
    for it in 0..(if kind == 4 { 8000 } else { 200 }) {
        if std::env::var("VH_DEBUG").is_ok() { eprintln!("iter {it} got {} closed {closed_called}", got.len()); }
        quiesce().await;
        if let Some(rx) = rx_opt.as_mut() {
            if kind != 2 && got.len() >= pos && !closed_called {
                closed_called = true;
                if kind == 3 {
                    rx.close().await;
                    quiesce().await;
                    rx_opt = None;
                    continue;
                }
                if kind == 0 || kind == 4 {
                    if std::env::var("VH_DEBUG").is_ok() { eprintln!("closing..."); }
                    if cancelled_close {
                        // B cannot write for a while and its one-slot event queue is full: close() has to wait; it is
                        // cancelled (as by a timeout) and repeated when the link works again
                        p_net.b2a.set_sink_ready(false);
                        for _ in 0..6 {
                            let _ = tb_fill.try_send(&Bytes::from_static(b"f"));
                            quiesce().await;
                        }
                        let _ = rx.close().now_or_never();
                        quiesce().await;
                        p_net.b2a.set_sink_ready(true);
                        for _ in 0..3 {
                            quiesce().await;
                            let _ = recv_all_now(&mut ra_fill).await;
                        }
                    }
                    let sender_alive = !sender_task.is_finished();
                    rx.close().await;
                    if cancelled_close && sender_alive {
                        // the close must reach the other endpoint: ReceiveClose for this port on the wire
                        for _ in 0..4 {
                            quiesce().await;
                        }
                        let frames = p_net.b2a.log_from(0);
                        let told = conn::group(&frames).iter().any(|m| matches!(m.msg, remoc::chmux::verif::MultiplexMsg::ReceiveClose { .. }));
                        if !told {
                            return (sig, "FAIL: C11 close() returned (after an earlier close() had been cancelled while waiting for the event queue) but the remote sender was never told".into());
                        }
                    }
                    if std::env::var("VH_DEBUG").is_ok() { eprintln!("closed"); }
                } else {
                    rx_opt = None;
                    continue;
                }
            }
            let (g, e, err) = recv_all_now(rx).await;
            got.extend(g);
            if err {
                return (sig, "FAIL: C11 receive error on a healthy connection".into());
            }
            if e {
                eos = true;
                break;
            }
            if kind != 2 && got.len() > pos && !closed_called {
                // received more than pos in one go: close now
            }
        }
        if sender_task.is_finished() && rx_opt.is_none() {
            break;
        }
    }
    quiesce().await;
    let mut results: Vec<(usize, Result<(), SendError>)> = Vec::new();
    while let Ok(x) = srx.try_recv() {
        results.push(x);
    }
    let ok_count = results.iter().filter(|(_, r)| r.is_ok()).count();
    // what was received is a prefix of what was sent successfully, byte for byte
    if got.len() > ok_count + 0 && kind == 2 {
        return (sig, "FAIL: C11 received more than was sent".into());
    }
    for (i, g) in got.iter().enumerate() {
        if *g != msgs[i] {
            return (sig, format!("FAIL: C11 message {i} differs from what was sent"));
        }
    }
    match kind {
        2 => {
            // all senders dropped: everything, then end-of-stream
            if !eos || got.len() != n {
                return (sig, format!("FAIL: C11 senders dropped: got {} of {} messages, eos={}", got.len(), n, eos));
            }
        }
        0 => {
            // close: every message whose send completed is delivered, then end of stream; later sends fail gracefully
            if !eos {
                return (sig, "FAIL: C11 closed receiver never saw end-of-stream".into());
            }
            if got.len() != ok_count {
                return (sig, format!("FAIL: C11 after close {} sends completed but {} messages were delivered", ok_count, got.len()));
            }
            if let Some((_, Err(e))) = results.iter().find(|(_, r)| r.is_err()) {
                if !matches!(e, SendError::Closed { gracefully: true }) {
                    return (sig, format!("FAIL: C11 send after close failed with {e:?} instead of Closed{{gracefully: true}}"));
                }
            } else if ok_count < n {
                return (sig, "FAIL: C11 sender neither completed nor failed after close".into());
            }
        }
        4 => {
            // closed but still receiving, sender overriding graceful close: nothing may be lost or left pending
            if !sender_task.is_finished() {
                return (sig, format!("FAIL: C11 sender overriding graceful close is starved: {} of {n} sends completed although the closed receiver keeps receiving ({} received)", ok_count, got.len()));
            }
            if ok_count != n || got.len() != n || !eos {
                return (sig, format!("FAIL: C11 closed receiver obtained {} of {n} messages sent by a sender overriding graceful close ({} sends Ok), eos={eos}", got.len(), ok_count));
            }
        }
        3 => {
            // closed, then dropped, sender overriding graceful close: it must not hang, and what it sends
            // after the drop must fail
            if !sender_task.is_finished() {
                return (sig, "FAIL: C11 sender overriding graceful close is still pending after the receiver was closed and dropped".into());
            }
        }
        _ => {
            // receiver dropped: later sends fail non-gracefully (or everything had been sent)
            if let Some((_, Err(e))) = results.iter().find(|(_, r)| r.is_err()) {
                if !matches!(e, SendError::Closed { gracefully: false }) {
                    return (sig, format!("FAIL: C11 send after receiver drop failed with {e:?} instead of Closed{{gracefully: false}}"));
                }
            } else if ok_count < n && !sender_task.is_finished() {
                return (sig, "FAIL: C11 sender still pending after the receiver was dropped".into());
            }
        }
    }
    (sig, "ok".into())
}

/// C06: a workload, a fault at a chosen frame, a configured timeout under the virtual clock.
async fn faults(r: &mut Rng) -> (String, String) {
    let timeout = Duration::from_millis(*r.pick(&[1u64, 5, 1000, 60_000]));
    let sub_ms = r.chance(1, 8);
    let timeout = if sub_ms { Duration::from_micros(*r.pick(&[100u64, 400, 900])) } else { timeout };
    let kind = r.below(7);
    // Tokio timers have a resolution of one millisecond: with a timeout of that order the keep-alive ping
    // and the timeout can fall into the same timer tick; the idle test uses timeouts well above it
    let timeout = if kind == 6 && timeout < Duration::from_millis(5) { Duration::from_millis(5) } else { timeout };
    let sub_ms = sub_ms && kind != 6;
    let sig = format!("faults:k{kind}:{}", if sub_ms { "subms" } else { "ms" });
    let ca = cfg(r, Some(timeout));
    let mut cb = cfg(r, Some(timeout));
    if kind < 6 && r.chance(1, 8) {
        // the fault hits the handshake: one direction is silent (its writer never becomes ready, or its frames vanish) while
        // the other one works; creating the multiplexer must fail with a timeout on BOTH sides within the configured time
        let sig = format!("faults:handshake:{}", if sub_ms { "subms" } else { "ms" });
        let net = crate::transport::Net::new(true);
        let variant = r.below(2);
        if variant == 0 {
            net.a2b.set_sink_ready(false);
        } else {
            net.a2b.silence_after_now();
        }
        let a = tokio::spawn(chmux::ChMux::new(ca, net.a2b.sink(), net.b2a.stream()));
        let b = tokio::spawn(chmux::ChMux::new(cb, net.b2a.sink(), net.a2b.stream()));
        let limit = timeout.max(Duration::from_millis(1)) * 3 + Duration::from_millis(10);
        tokio::time::sleep(limit).await;
        quiesce().await;
        for (name, t) in [("A (whose outgoing direction is stalled)", a), ("B", b)] {
            if variant == 1 && name != "B" {
                // A's frames are accepted by its transport and vanish: A cannot know; only B has to notice
                continue;
            }
            if !t.is_finished() {
                return (sig, format!("FAIL: C06 creating multiplexer {name} still hangs {limit:?} after the start although the connection timeout is {timeout:?} (handshake variant {variant})"));
            }
            match t.await {
                Ok(Err(_)) => {}
                Ok(Ok(_)) => return (sig, format!("FAIL: C06 handshake of {name} succeeded over a silent direction")),
                Err(_) => return (sig, "FAIL: C06 panic during the handshake".into()),
            }
        }
        return (sig, "ok".into());
    }
    if kind == 6 && r.chance(2, 3) {
        // the endpoints configure different timeouts (or one of them none): each must ping at the rate the OTHER one needs
        cb.connection_timeout = *r.pick(&[None, Some(Duration::from_millis(7)), Some(Duration::from_millis(300)), Some(Duration::from_secs(60))]);
    }
    let start = tokio::time::Instant::now();
    let cb_timeout = cb.connection_timeout;
    let mut p = conn::connect(ca, cb).await;
    if kind == 6 {
        // idle but healthy for a long time: nothing may be torn down.  The idle period is a thousand local timeouts,
        // limited to 300 000 of the shorter ping interval (the link's frame log is kept in memory)
        p.net.a2b.set_budget(2_000_000);
        p.net.b2a.set_budget(2_000_000);
        let shorter = cb_timeout.map(|t| t.min(timeout)).unwrap_or(timeout) / 2;
        tokio::time::sleep((timeout * 1000).min(shorter * 300_000)).await;
        if p.net.a2b.over_budget() || p.net.b2a.over_budget() {
            return (sig, "FAIL: harness: frame budget of the idle stream exceeded".into());
        }
        if p.mux_a.is_finished() || p.mux_b.is_finished() {
            let ea = if p.mux_a.is_finished() { (&mut p.mux_a).now_or_never().map(|r| format!("{r:?}")) } else { None };
            let eb = if p.mux_b.is_finished() { (&mut p.mux_b).now_or_never().map(|r| format!("{r:?}")) } else { None };
            return (sig, format!("FAIL: C06 an idle healthy connection was torn down (timeouts {:?} / {:?}; dispatchers {ea:?} {eb:?}; after {:?})", timeout, cb_timeout, start.elapsed()));
        }
        // the hypothesis of C06_idle_healthy_forever (gaps_ok): each endpoint hands a message to the transport at least
        // once per ping interval of the timeout its PEER announced (whole milliseconds, at least one, halved);
        // Tokio's timers add up to one millisecond
        for (name, link, need) in [("A", &p.net.a2b, cb_timeout), ("B", &p.net.b2a, Some(timeout))] {
            if let Some(t) = need {
                let announced = Duration::from_millis((t.as_nanos() / 1_000_000).max(1) as u64);
                let allowed = announced / 2 + Duration::from_millis(1);
                let pause = link.longest_pause();
                if pause > allowed {
                    return (sig, format!("FAIL: C06 endpoint {name} left a healthy link silent for {pause:?}: its peer announced the timeout {t:?} and needs a message every {:?}", announced / 2));
                }
            }
        }
        // and it still works
        let ((mut tx, _), (_, mut rx)) = conn::open_port(&mut p).await;
        let _ = tx.try_send(&Bytes::from_static(b"x"));
        tokio::time::sleep(Duration::from_micros(50)).await;
        let (g, _, _) = recv_all_now(&mut rx).await;
        if g != vec![b"x".to_vec()] {
            return (sig, "FAIL: C06 connection unusable after an idle period".into());
        }
        return (sig, "ok".into());
    }
    // workload: a sender blocked on credits, a pending recv, a pending connect and a pending accept
    let ((mut tx, mut ra), (_tb, mut rb)) = conn::open_port(&mut p).await;
    // silent stalls also begin at a FRAME index of the workload (e.g. between the header frame of a data message and
    // its payload frame), not only at an instant between two bursts
    let by_frame = (kind == 3 || kind == 4) && r.chance(1, 2);
    let sig = if by_frame { format!("{sig}:fr") } else { sig };
    if by_frame {
        p.net.a2b.silence_after_frames(r.below(14) as usize);
        if kind == 3 {
            p.net.b2a.silence_after_frames(r.below(6) as usize);
        }
    }
    let big = vec![7u8; 5000];
    let send_task = tokio::spawn(async move {
        let mut sent = 0usize;
        loop {
            match tx.send(Bytes::from(big.clone())).await {
                Ok(()) => sent += 1,
                Err(e) => return (sent, e),
            }
        }
    });
    let recv_task = tokio::spawn(async move { ra.recv().await.map(|_| ()) });
    let connect_task = {
        let c = p.a_client.clone();
        tokio::spawn(async move { c.connect().await.map(|_| ()) })
    };
    let Pair { a_listener, b_listener, mux_a, mux_b, net, a_client, b_client } = p;
    let mut a_listener = a_listener;
    let accept_task = tokio::spawn(async move { a_listener.accept().await.map(|_| ()) });
    tokio::time::sleep(Duration::from_micros(r.below(300))).await;
    if by_frame {
        // the stall begins when the chosen frame is written -- possibly a keep-alive ping much later than now; the
        // deadline below counts from the instant a frame was actually lost (a case in which none is lost is vacuous)
        let step = timeout.max(Duration::from_millis(1)) / 8;
        let mut n = 0;
        while !net.a2b.silence_began() && n < 200 {
            tokio::time::sleep(step).await;
            n += 1;
        }
        if !net.a2b.silence_began() {
            return (format!("{sig}:none"), "ok".into());
        }
    }
    let t_fault = tokio::time::Instant::now();
    match kind {
        0 => net.a2b.fail(Fault::SinkErr),
        1 => net.b2a.fail(Fault::StreamErr),
        2 => net.b2a.fail(Fault::Eof),
        3 | 4 if by_frame => {}
        3 => {
            net.a2b.silence_after_now();
            net.b2a.silence_after_now();
        }
        4 => net.a2b.silence_after_now(),
        _ => net.b2a.fail(Fault::Eof),
    }
    // everything must be over within the timeout (plus slack) of virtual time
    let limit = timeout.max(Duration::from_millis(1)) * 3 + Duration::from_millis(10);
    tokio::time::sleep(limit).await;
    if let Ok(ms) = std::env::var("VERIF_C06_EXTRA_MS") {
        // diagnosis only: wait longer before judging
        tokio::time::sleep(Duration::from_millis(ms.parse().unwrap_or(0))).await;
    }
    quiesce().await;
    let _ = (&a_client, &b_client, &b_listener, &mut rb, start, t_fault);
    if !mux_a.is_finished() {
        let b_state = if mux_b.is_finished() { format!("{:?}", mux_b.await) } else { "running".into() };
        return (sig, format!("FAIL: C06 dispatcher A still running {:?} after the fault (timeout {:?}; dispatcher B: {b_state}; frames a2b {} b2a {})", limit, timeout, net.a2b.log_len(), net.b2a.log_len()));
    }
    let ra = mux_a.await.unwrap();
    if ra.is_ok() {
        return (sig, "FAIL: C06 dispatcher A ended with Ok after a transport fault".into());
    }
    if kind != 4 || true {
        // B observes the fault at the latest through its own timeout (A stops sending)
        if !mux_b.is_finished() {
            return (sig, format!("FAIL: C06 dispatcher B still running {:?} after the fault", limit));
        }
    }
    for (name, fin) in [("send", send_task.is_finished()), ("recv", recv_task.is_finished()), ("connect", connect_task.is_finished()), ("accept", accept_task.is_finished())] {
        if !fin {
            return (sig, format!("FAIL: C06 a pending {name} did not complete after the dispatcher ended"));
        }
    }
    if let Ok((_, e)) = send_task.await {
        if !matches!(e, SendError::ChMux | SendError::Closed { .. }) {
            return (sig, "FAIL: C06 send ended without an error".into());
        }
    }
    if let Ok(Ok(())) = recv_task.await {
        return (sig, "FAIL: C06 pending recv returned data/end-of-stream instead of an error".into());
    }
    if let Ok(Ok(())) = connect_task.await {
        return (sig, "FAIL: C06 pending connect succeeded after the fault".into());
    }
    if let Ok(Ok(())) = accept_task.await {
        return (sig, "FAIL: C06 pending accept returned a port or a clean end after the fault".into());
    }
    // operations started afterwards fail as well -- and keep failing: a receiver whose remote sender was never dropped
    // must not turn the lost connection into an end-of-stream on a later call
    {
        let mut errors = 0;
        for _ in 0..60 {
            // (awaited up to quiescence: returning credits may take a helper task's turn)
            match tokio::time::timeout(Duration::from_nanos(1), rb.recv()).await.ok() {
                Some(Ok(Some(_))) => {
                    if errors > 0 {
                        return (sig, "FAIL: C06 a receiver delivered data after it had reported the connection failure".into());
                    }
                }
                Some(Ok(None)) => {
                    return (sig, format!("FAIL: C06 a receiver reports end-of-stream after the connection failed ({errors} errors reported before), although its remote sender was never dropped"));
                }
                Some(Err(_)) => {
                    errors += 1;
                    if errors >= 3 {
                        break;
                    }
                }
                None => return (sig, "FAIL: C06 recv is pending after the dispatcher ended".into()),
            }
        }
    }
    if a_client.connect().now_or_never().map(|r| r.is_ok()).unwrap_or(true) {
        // a connect that stays pending or succeeds after the dispatcher ended
        quiesce().await;
    }
    (sig, "ok".into())
}

/// C03: a receiver that stops receiving (its last receive was cancelled while the return of flow credits
/// waited for a slot in the endpoint's event queue) must not stop the other ports of the endpoint.
async fn blocking(r: &mut Rng) -> (String, String) {
    let ca = cfg(r, None);
    let mut cb = cfg(r, None);
    cb.shared_send_queue = r.range(1, 2) as usize;
    cb.transport_send_queue = 1;
    cb.receive_buffer = *r.pick(&[4u32, 5, 7, 8, 16]);
    cb.max_ports = 100;
    let q = cb.shared_send_queue;
    let sig = format!("blocking:q{q}:rb{}", cb.receive_buffer);
    let mut ca = ca;
    ca.max_ports = 100;
    ca.receive_buffer = 1024;
    let mut p = conn::connect(ca, cb).await;
    // port P: A -> B data; port Q: B -> A data
    let ((mut tx_p, _ra_p), (_tb_p, mut rx_p)) = conn::open_port(&mut p).await;
    let ((_ta_q, mut rx_q), (mut tx_q, _rb_q)) = conn::open_port(&mut p).await;
    // some messages for P arrive at B
    for i in 0..3u8 {
        let _ = tx_p.try_send(&Bytes::from(vec![i; 2]));
        quiesce().await;
    }
    // B cannot write to the transport for a while: its queues fill up with Q's traffic
    p.net.b2a.set_sink_ready(false);
    for _ in 0..8 {
        let _ = tx_q.try_send(&Bytes::from_static(b"q"));
        quiesce().await;
    }
    // the receiver of P consumes what it has; returning the credits finds the event queue full
    for _ in 0..4 {
        let _ = rx_p.recv_any().now_or_never();
    }
    // ... and its next receive is cancelled (now_or_never drops the future after one poll)
    let _ = rx_p.recv_any().now_or_never();
    quiesce().await;
    // the transport recovers; P's receiver is NOT polled again
    p.net.b2a.set_sink_ready(true);
    for _ in 0..3 {
        quiesce().await;
    }
    // port Q must still work in both respects: sending and being closed
    let send_task = tokio::spawn(async move {
        for _ in 0..3 {
            if tx_q.send(Bytes::from_static(b"after")).await.is_err() {
                return false;
            }
        }
        true
    });
    for _ in 0..6 {
        quiesce().await;
        let _ = recv_all_now(&mut rx_q).await;
    }
    if !send_task.is_finished() {
        return (sig, "FAIL: C03 sends on port Q are blocked by port P, whose receiver does not receive (a cancelled receive left its credit return holding the event queue)".into());
    }
    drop(rx_p);
    (sig, "ok".into())
}

/// forwards a byte stream and checks its framing: u32 little-endian length prefix, no frame longer than
/// the limit of the endpoint that is going to read it (its chunk_size + MAX_MSG_LENGTH)
async fn tee(mut from: tokio::io::ReadHalf<tokio::io::DuplexStream>, mut to: tokio::io::WriteHalf<tokio::io::DuplexStream>, limit: usize, bad: std::sync::Arc<std::sync::Mutex<Option<String>>>, frames: std::sync::Arc<std::sync::Mutex<Vec<usize>>>) {
    use tokio::io::{AsyncReadExt, AsyncWriteExt};
    let mut buf: Vec<u8> = Vec::new();
    let mut tmp = vec![0u8; 4096];
    loop {
        let n = match from.read(&mut tmp).await {
            Ok(0) | Err(_) => break,
            Ok(n) => n,
        };
        buf.extend_from_slice(&tmp[..n]);
        while buf.len() >= 4 {
            let len = u32::from_le_bytes([buf[0], buf[1], buf[2], buf[3]]) as usize;
            if len > limit {
                bad.lock().unwrap().get_or_insert(format!("a frame of {len} bytes exceeds the reader's limit {limit}"));
            }
            if buf.len() < 4 + len {
                break;
            }
            frames.lock().unwrap().push(len);
            buf.drain(..4 + len);
        }
        if to.write_all(&tmp[..n]).await.is_err() {
            break;
        }
    }
    let _ = to.shutdown().await;
}

#[derive(serde::Serialize, serde::Deserialize)]
enum IoItem {
    Bytes(Vec<u8>),
    /// each channel half is one port of a port batch
    Chans(Vec<remoc::rch::mpsc::Receiver<u8>>),
}

/// C09: two endpoints with different configurations over a byte-stream transport (`Connect::io`):
/// length-prefixed framing, every frame within the reader's announced limit, messages of all sizes
/// relative to both chunk sizes and port batches of all sizes arrive intact in both directions.
async fn stream_transport(r: &mut Rng) -> (String, String) {
    use remoc::{codec, rch::base, Connect};
    let pick_cfg = |r: &mut Rng| Cfg {
        connection_timeout: None,
        chunk_size: *r.pick(&[4u32, 9, 10, 16, 64, 1000, 16384]),
        receive_buffer: *r.pick(&[64u32, 1000, 65536]),
        max_data_size: 1 << 22,
        max_ports: 4000,
        ..Default::default()
    };
    let ca = pick_cfg(r);
    let cb = pick_cfg(r);
    let (a_io, mid_a) = tokio::io::duplex(1 << 12);
    let (b_io, mid_b) = tokio::io::duplex(1 << 12);
    let (a_r, a_w) = tokio::io::split(a_io);
    let (b_r, b_w) = tokio::io::split(b_io);
    let (ma_r, ma_w) = tokio::io::split(mid_a);
    let (mb_r, mb_w) = tokio::io::split(mid_b);
    let bad: std::sync::Arc<std::sync::Mutex<Option<String>>> = Default::default();
    let fr_ab: std::sync::Arc<std::sync::Mutex<Vec<usize>>> = Default::default();
    let fr_ba: std::sync::Arc<std::sync::Mutex<Vec<usize>>> = Default::default();
    tokio::spawn(tee(ma_r, mb_w, cb.max_frame_length() as usize, bad.clone(), fr_ab.clone()));
    tokio::spawn(tee(mb_r, ma_w, ca.max_frame_length() as usize, bad.clone(), fr_ba.clone()));
    let small = ca.chunk_size.min(cb.chunk_size) as usize;
    let big = ca.chunk_size.max(cb.chunk_size) as usize;
    // what is sent: byte messages and port batches
    let n_items = r.range(2, 5);
    let plan: Vec<(bool, usize)> = (0..n_items)
        .map(|_| match r.below(8) {
            0 => (false, 0),
            1 => (false, r.range(1, small as u64 + 1) as usize),
            2 => (false, r.range(small.min(2000) as u64, big.min(2000) as u64 + 20) as usize),
            3 => (false, big + r.range(0, 40) as usize),
            4 => (false, 3 * big.min(2000) + r.range(0, 7) as usize),
            5 => (true, r.range(1, 4) as usize),
            6 => (true, (small / 8 + r.range(0, 4) as usize).clamp(1, 300)),
            _ => (true, (small / 4 + r.range(0, 4) as usize).clamp(1, 300)),
        })
        .collect();
    let sig = format!(
        "streamio:{}:{}{}",
        match ca.chunk_size.cmp(&cb.chunk_size) { std::cmp::Ordering::Less => "lt", std::cmp::Ordering::Equal => "eq", _ => "gt" },
        if small < 10 { "tiny:" } else { "" },
        if plan.iter().any(|p| p.0) { "ports" } else { "bytes" }
    );
    let (a, b) = tokio::join!(
        Connect::io::<_, _, IoItem, IoItem, codec::Default>(ca.clone(), a_r, a_w),
        Connect::io::<_, _, IoItem, IoItem, codec::Default>(cb.clone(), b_r, b_w),
    );
    let (conn_a, mut tx_a, mut rx_a): (_, base::Sender<IoItem, codec::Default>, base::Receiver<IoItem, codec::Default>) = match a {
        Ok(x) => x,
        Err(e) => return (sig, format!("FAIL: C09 connecting over a stream transport failed (chunk sizes {} / {}): {e}", ca.chunk_size, cb.chunk_size)),
    };
    let (conn_b, mut tx_b, mut rx_b) = match b {
        Ok(x) => x,
        Err(e) => return (sig, format!("FAIL: C09 connecting over a stream transport failed (chunk sizes {} / {}): {e}", ca.chunk_size, cb.chunk_size)),
    };
    let ja = tokio::spawn(conn_a);
    let jb = tokio::spawn(conn_b);
    let keep: std::sync::Arc<std::sync::Mutex<Vec<remoc::rch::mpsc::Sender<u8>>>> = Default::default();
    let mk = |plan: &Vec<(bool, usize)>, keep: &std::sync::Arc<std::sync::Mutex<Vec<remoc::rch::mpsc::Sender<u8>>>>| -> Vec<IoItem> {
        plan.iter()
            .enumerate()
            .map(|(i, (ports, n))| {
                if *ports {
                    IoItem::Chans((0..*n).map(|_| { let (tx, rx) = remoc::rch::mpsc::channel(1); keep.lock().unwrap().push(tx); rx }).collect())
                } else {
                    IoItem::Bytes((0..*n).map(|j| (i * 31 + j) as u8).collect())
                }
            })
            .collect()
    };
    let m1 = mk(&plan, &keep);
    let m2 = mk(&plan, &keep);
    let sa = tokio::spawn(async move {
        for m in m1 {
            if let Err(e) = tx_a.send(m).await {
                return Err(format!("{e}"));
            }
        }
        Ok(tx_a)
    });
    let sb = tokio::spawn(async move {
        for m in m2 {
            if let Err(e) = tx_b.send(m).await {
                return Err(format!("{e}"));
            }
        }
        Ok(tx_b)
    });
    let shape = |m: &IoItem| -> (bool, usize, bool) {
        match m {
            IoItem::Bytes(b) => (false, b.len(), b.iter().enumerate().all(|(j, x)| *x == (b.first().copied().unwrap_or(0) as usize + j) as u8)),
            IoItem::Chans(c) => (true, c.len(), true),
        }
    };
    let mut got_a: Vec<(bool, usize, bool)> = Vec::new();
    let mut got_b: Vec<(bool, usize, bool)> = Vec::new();
    let mut held: Vec<IoItem> = Vec::new();
    let mut err: Option<String> = None;
    let mut idle = 0;
    let mut progress = 0usize;
    for _ in 0..200_000 {
        quiesce().await;
        while let Some(x) = rx_a.recv().now_or_never() {
            match x {
                Ok(Some(m)) => { got_a.push(shape(&m)); held.push(m) }
                Ok(None) => { err.get_or_insert("end of stream at A".into()); break }
                Err(e) => { err.get_or_insert(format!("A: {e}")); break }
            }
        }
        while let Some(x) = rx_b.recv().now_or_never() {
            match x {
                Ok(Some(m)) => { got_b.push(shape(&m)); held.push(m) }
                Ok(None) => { err.get_or_insert("end of stream at B".into()); break }
                Err(e) => { err.get_or_insert(format!("B: {e}")); break }
            }
        }
        if err.is_some() || (got_a.len() == plan.len() && got_b.len() == plan.len()) {
            break;
        }
        let p = fr_ab.lock().unwrap().len() + fr_ba.lock().unwrap().len() + got_a.len() + got_b.len();
        if p == progress {
            idle += 1;
            if idle > 50 {
                break;
            }
        } else {
            idle = 0;
            progress = p;
        }
    }
    let want: Vec<(bool, usize, bool)> = plan.iter().map(|(p, n)| (*p, *n, true)).collect();
    if let Some(b) = bad.lock().unwrap().clone() {
        return (sig, format!("FAIL: C09 stream framing (chunk sizes {} / {}, plan {plan:?}): {b}", ca.chunk_size, cb.chunk_size));
    }
    if ja.is_finished() || jb.is_finished() || err.is_some() || got_a != want || got_b != want {
        let ea = if ja.is_finished() { ja.now_or_never().map(|r| format!("{r:?}")) } else { None };
        let eb = if jb.is_finished() { jb.now_or_never().map(|r| format!("{r:?}")) } else { None };
        return (sig, format!(
            "FAIL: C09 endpoints with chunk sizes {} / {} do not interoperate over a stream transport (plan {plan:?}): received {}/{} of {}, error {err:?}, dispatchers {ea:?} {eb:?}",
            ca.chunk_size, cb.chunk_size, got_a.len(), got_b.len(), plan.len()));
    }
    let _ = (sa, sb, held, keep);
    (sig, "ok".into())
}

/// C03: ports whose receiver does not consume, each with a pending operation (a send or a multi-port open
/// request waiting for credits), must not stop another port of the same endpoint; once their receivers
/// consume, the pending operations complete.
async fn isolation(r: &mut Rng) -> (String, String) {
    use remoc::chmux::PortReq;
    let mut ca = cfg(r, None);
    ca.shared_send_queue = r.range(1, 2) as usize;
    ca.max_ports = 100;
    let mut cb = cfg(r, None);
    cb.max_ports = 100;
    cb.connect_queue = 8;
    cb.receive_buffer = *r.pick(&[4u32, 5, 7, 8, 16]);
    let k = r.range(1, 3) as usize;
    let mut kinds = Vec::new();
    let mut p = conn::connect(ca.clone(), cb.clone()).await;
    let mut starved = Vec::new();
    for _ in 0..k {
        let ((tx, _ra), (_tb, rx)) = conn::open_port(&mut p).await;
        starved.push((tx, rx, _ra, _tb));
    }
    let ((mut tx_q, _ra_q), (_tb_q, mut rx_q)) = conn::open_port(&mut p).await;
    // use up the credits of the starved ports
    for (tx, ..) in starved.iter_mut() {
        for _ in 0..64 {
            if tx.try_send(&Bytes::from_static(b"x")).is_err() {
                break;
            }
            quiesce().await;
        }
    }
    // one pending operation per starved port
    let mut pending = Vec::new();
    let mut rxs = Vec::new();
    let mut keep = Vec::new();
    for (mut tx, rx, ra, tb) in starved {
        let kind = r.below(2);
        kinds.push(kind);
        let n = r.range(1, 3);
        let wait = r.chance(1, 2);
        let len = r.range(1, 3 * cb.receive_buffer as u64) as usize;
        pending.push(tokio::spawn(async move {
            if kind == 0 {
                tx.send(Bytes::from(vec![9u8; len])).await.is_ok()
            } else {
                let alloc = tx.port_allocator();
                let mut ports = Vec::new();
                for _ in 0..n {
                    ports.push(PortReq::new(alloc.allocate().await));
                }
                tx.connect(ports, wait).await.is_ok()
            }
        }));
        rxs.push(rx);
        keep.push((ra, tb));
    }
    let sig = format!("isolation:q{}:k{k}:{}", ca.shared_send_queue, kinds.iter().map(|k| if *k == 0 { "s" } else { "c" }).collect::<String>());
    for _ in 0..4 {
        quiesce().await;
    }
    // port Q must work
    let send_task = tokio::spawn(async move {
        for _ in 0..3 {
            if tx_q.send(Bytes::from_static(b"after")).await.is_err() {
                return None;
            }
        }
        Some(tx_q)
    });
    for _ in 0..10 {
        quiesce().await;
        let _ = recv_all_now(&mut rx_q).await;
    }
    if !send_task.is_finished() {
        return (sig, "FAIL: C03 sends on a port whose receiver consumes are blocked by operations waiting for credits on other ports".into());
    }
    // the starved receivers consume (requests are dropped = rejected): every pending operation completes
    for _ in 0..200 {
        quiesce().await;
        for rx in rxs.iter_mut() {
            let _ = recv_all_now(rx).await;
        }
        if pending.iter().all(|t| t.is_finished()) {
            break;
        }
    }
    for (i, t) in pending.into_iter().enumerate() {
        if !t.is_finished() {
            return (sig, format!("FAIL: C03 the pending operation on starved port {i} did not complete although its receiver consumed everything"));
        }
        if t.await.ok() != Some(true) {
            return (sig, format!("FAIL: C03 the pending operation on starved port {i} failed on a healthy connection"));
        }
    }
    drop(keep);
    (sig, "ok".into())
}

/// C10 / C07: answers to open requests under unusual circumstances.
///   0: the accept / reject future is cancelled while it waits for a slot of the full event queue: the request
///      must still be answered (as dropped = rejected), and after everything is dropped both dispatchers end Ok
///   1: `PortsExhausted::Wait(Some(limit))` with free ports and a listener that answers later than the limit:
///      the time limit is about local ports and request credits, not about the listener's answer
///   2: exactly connect_queue unanswered requests in a listener that is not polled, then all clients of the
///      requesting endpoint are dropped: no protocol error, the listener gets every request, then the end
async fn answers(r: &mut Rng) -> (String, String) {
    use remoc::chmux::PortsExhausted;
    // (variant 3 is drawn separately so that recorded seeds of variants 0-2 keep their meaning)
    let variant = r.below(3);
    let mut ca = cfg(r, None);
    let mut cb = cfg(r, None);
    ca.max_ports = 100;
    cb.max_ports = 100;
    let variant = if r.chance(1, 4) { 3 } else { variant };
    match variant {
        0 => {
            cb.shared_send_queue = 1;
            cb.transport_send_queue = 1;
            cb.connect_queue = 8;
            let reject = r.chance(1, 2);
            let sig = format!("answers:cancel:{}", if reject { "reject" } else { "accept" });
            let mut p = conn::connect(ca, cb).await;
            let ((_ta, mut ra_h), (mut tb_h, _rb_h)) = conn::open_port(&mut p).await;
            // B cannot write: its queues fill up with the helper port's traffic
            p.net.b2a.set_sink_ready(false);
            for _ in 0..8 {
                let _ = tb_h.try_send(&Bytes::from_static(b"h"));
                quiesce().await;
            }
            let conn_a = match p.a_client.connect_ext(None, true).now_or_never() {
                Some(Ok(c)) => c,
                _ => return (sig, "ok".into()),
            };
            let task = tokio::spawn(conn_a);
            quiesce().await;
            let req = match p.b_listener.inspect().now_or_never() {
                Some(Ok(Some(req))) => req,
                _ => return (sig, "FAIL: C10 the request did not reach the listener".into()),
            };
            // the answer waits for a queue slot; its future is dropped
            let answered = if reject { req.reject(false).now_or_never().is_some() } else { req.accept().now_or_never().is_some() };
            quiesce().await;
            p.net.b2a.set_sink_ready(true);
            for _ in 0..6 {
                quiesce().await;
                let _ = recv_all_now(&mut ra_h).await;
            }
            if !task.is_finished() {
                return (sig, format!("FAIL: C10 an open request was never answered after its {} future was cancelled while waiting for the event queue (answer completed at once: {answered})", if reject { "reject" } else { "accept" }));
            }
            let res = task.await.unwrap();
            if !answered && !matches!(res, Err(ConnectError::Rejected)) {
                return (sig, format!("FAIL: C10 a request whose answer was cancelled resolved as {:?} instead of Rejected", res.map(|_| ())));
            }
            // C07: everything dropped => both dispatchers end successfully
            drop((_ta, ra_h, tb_h, _rb_h));
            let Pair { a_client, a_listener, b_client, b_listener, mut mux_a, mut mux_b, .. } = p;
            drop((a_client, a_listener, b_client, b_listener));
            for _ in 0..6 {
                quiesce().await;
            }
            if !mux_a.is_finished() || !mux_b.is_finished() {
                return (sig, "FAIL: C07 dispatchers did not end after everything was dropped (a request is still outstanding)".into());
            }
            let (ea, eb) = ((&mut mux_a).await.unwrap(), (&mut mux_b).await.unwrap());
            if ea.is_err() || eb.is_err() {
                return (sig, format!("FAIL: C07 dispatchers ended with {} / {}", mux_class(&ea), mux_class(&eb)));
            }
            (sig, "ok".into())
        }
        1 => {
            let limit = Duration::from_millis(*r.pick(&[5u64, 50, 300]));
            ca.ports_exhausted = PortsExhausted::Wait(Some(limit));
            let accept = r.chance(2, 3);
            let sig = format!("answers:slowlistener:{}", if accept { "accept" } else { "reject" });
            let mut p = conn::connect(ca, cb).await;
            let c = p.a_client.clone();
            let task = tokio::spawn(async move { c.connect().await.map(|_| ()) });
            quiesce().await;
            let req = match p.b_listener.inspect().now_or_never() {
                Some(Ok(Some(req))) => req,
                _ => return (sig, "FAIL: C10 the request did not reach the listener".into()),
            };
            tokio::time::sleep(limit * 4).await;
            quiesce().await;
            if task.is_finished() {
                let res = task.await.unwrap();
                return (sig, format!("FAIL: C10 connect gave up with {res:?} after the local-exhaustion time limit {limit:?} although no port or credit was missing; the listener had not answered yet"));
            }
            let keep = if accept { Some(req.accept().await) } else { req.reject(false).await; None };
            for _ in 0..4 {
                quiesce().await;
            }
            if !task.is_finished() {
                return (sig, "FAIL: C10 connect still pending after the listener answered".into());
            }
            let res = task.await.unwrap();
            match (accept, &res) {
                (true, Ok(())) | (false, Err(ConnectError::Rejected)) => {}
                _ => return (sig, format!("FAIL: C10 connect answered late resolved as {res:?}")),
            }
            drop(keep);
            (sig, "ok".into())
        }
        3 => {
            //   3: connect requests are abandoned (their futures dropped) while the remote listener is idle; however many
            //      are issued, the number of unanswered requests on the wire never exceeds the queue length the peer
            //      advertised, and the connection survives
            use remoc::chmux::PortsExhausted;
            let q = r.range(1, 3) as u16;
            cb.connect_queue = q;
            ca.ports_exhausted = PortsExhausted::Fail;
            let wait = r.chance(1, 2);
            let total = q as usize + r.range(2, 6) as usize;
            let sig = format!("answers:abandoned:q{q}:{}", if wait { "wait" } else { "nowait" });
            let mut p = conn::connect(ca, cb).await;
            let seen0 = p.net.a2b.log_len();
            let mut issued = 0;
            for _ in 0..total {
                // the request future is polled once and dropped; so is the connect it returns
                match p.a_client.connect_ext(None, wait).now_or_never() {
                    Some(Ok(c)) => {
                        issued += 1;
                        drop(c);
                    }
                    _ => {}
                }
                quiesce().await;
            }
            for _ in 0..3 {
                quiesce().await;
            }
            let frames = p.net.a2b.log_from(seen0);
            let opens = conn::group(&frames).iter().filter(|m| matches!(m.msg, remoc::chmux::verif::MultiplexMsg::OpenPort { .. })).count();
            if opens > q as usize {
                return (sig, format!("FAIL: C10 {opens} unanswered open requests are on the wire although the peer advertised a connect queue of {q} ({issued} connects issued and abandoned)"));
            }
            if p.mux_a.is_finished() || p.mux_b.is_finished() {
                return (sig, "FAIL: C10 the connection failed after connect requests were abandoned".into());
            }
            // the listener answers what it got; afterwards new requests go through again
            let mut guard = 0;
            while let Some(Ok(Some(req))) = p.b_listener.inspect().now_or_never() {
                drop(req);
                quiesce().await;
                guard += 1;
                if guard > 20 {
                    break;
                }
            }
            for _ in 0..3 {
                quiesce().await;
            }
            let c = p.a_client.clone();
            let task = tokio::spawn(async move { c.connect().await.map(|_| ()) });
            quiesce().await;
            let acc = p.b_listener.accept();
            let got = tokio::time::timeout(Duration::from_secs(5), acc).await;
            for _ in 0..3 {
                quiesce().await;
            }
            if !task.is_finished() || !matches!(got, Ok(Ok(Some(_)))) {
                return (sig, "FAIL: C10 after the abandoned requests were answered a new connect does not go through".into());
            }
            (sig, "ok".into())
        }
        _ => {
            let q = r.range(1, 3) as u16;
            cb.connect_queue = q;
            let wait = r.chance(1, 2);
            let sig = format!("answers:fullqueue:q{q}:{}", if wait { "wait" } else { "nowait" });
            let p = conn::connect(ca, cb).await;
            let Pair { a_client, a_listener, b_client, mut b_listener, mut mux_a, mut mux_b, .. } = p;
            let mut conns = Vec::new();
            for _ in 0..q {
                match a_client.connect_ext(None, wait).now_or_never() {
                    Some(Ok(c)) => conns.push(tokio::spawn(c)),
                    _ => break,
                }
            }
            quiesce().await;
            // all clients of A go away while B's listener has not been polled
            drop(a_client);
            for _ in 0..4 {
                quiesce().await;
            }
            if mux_a.is_finished() || mux_b.is_finished() {
                let ea = if mux_a.is_finished() { Some(mux_class(&(&mut mux_a).await.unwrap())) } else { None };
                let eb = if mux_b.is_finished() { Some(mux_class(&(&mut mux_b).await.unwrap())) } else { None };
                return (sig, format!("FAIL: C07 the connection failed ({ea:?} / {eb:?}) when the clients were dropped with {} unanswered requests in a listener queue of {q}", conns.len()));
            }
            // the listener hands out every request (dropped here = rejected), then reports the end
            let mut seen = 0;
            for _ in 0..(3 * q as usize + 6) {
                match b_listener.inspect().now_or_never() {
                    Some(Ok(Some(req))) => {
                        seen += 1;
                        drop(req)
                    }
                    Some(Ok(None)) => break,
                    Some(Err(e)) => return (sig, format!("FAIL: C07 listener error {e:?} on a healthy connection")),
                    None => {}
                }
                quiesce().await;
            }
            // (the listener may report the end before it has handed out every queued request: it picks between its
            // two queues at random once the remote clients are gone; what it did not hand out is refused when it is dropped)
            let _ = seen;
            drop((a_listener, b_client, b_listener));
            for _ in 0..4 {
                quiesce().await;
            }
            for (i, c) in conns.into_iter().enumerate() {
                if !c.is_finished() {
                    return (sig, format!("FAIL: C10 connect {i} unanswered although its request was dropped by the listener or with it"));
                }
            }
            for _ in 0..6 {
                quiesce().await;
            }
            if !mux_a.is_finished() || !mux_b.is_finished() {
                return (sig, "FAIL: C07 dispatchers did not end after everything was dropped".into());
            }
            let (ea, eb) = ((&mut mux_a).await.unwrap(), (&mut mux_b).await.unwrap());
            if ea.is_err() || eb.is_err() {
                return (sig, format!("FAIL: C07 dispatchers ended with {} / {}", mux_class(&ea), mux_class(&eb)));
            }
            (sig, "ok".into())
        }
    }
}

pub fn exec(inp: &[u128]) -> (Vec<u128>, String, String) {
    if inp.len() < 2 {
        return (vec![98], "net:malformed".into(), "ok".into());
    }
    let stream = inp[0];
    let seed = inp[1] as u64;
    let rt = conn::runtime();
    let (sig, oracle) = rt.block_on(async move {
        let mut r = Rng::new(seed);
        remoc::exec::verif::set_defer_seed(if r.chance(1, 2) { r.next() | 1 } else { 0 });
        let res = match stream {
            0 => lifecycle(&mut r).await,
            1 => connects(&mut r).await,
            2 => closing(&mut r).await,
            4 => blocking(&mut r).await,
            5 => stream_transport(&mut r).await,
            6 => isolation(&mut r).await,
            7 => answers(&mut r).await,
            _ => faults(&mut r).await,
        };
        remoc::exec::verif::set_defer_seed(0);
        res
    });
    (vec![96], sig, oracle)
}

pub fn gen(r: &mut Rng, i: usize) -> Vec<Vec<u128>> {
    vec![vec![(i % 4) as u128, r.next() as u128 >> 1]]
}

pub fn run(seed: u64, count: usize, extra: &[String], out: &mut impl Write) {
    // a sub-stream can be selected with --stream k (used by the per-property checks)
    let stream = extra.iter().position(|a| a == "--stream").and_then(|p| extra.get(p + 1)).and_then(|s| s.parse::<u128>().ok());
    crate::drive(COMP, seed ^ 0xC70, count, extra, out, |r, i| {
        let mut v = gen(r, i);
        if let Some(s) = stream {
            v[0][0] = s;
        }
        v
    }, exec);
}
