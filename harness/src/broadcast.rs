//! C16: the real `remoc::rch::broadcast` channel driven in big steps on a paused current-thread
//! runtime, compared with the model (`Run/RunBroadcast.v`) for local subscribers; a second stream
//! (`remote:` signatures) sends the receivers over a chmux connection and checks the property
//! oracle only.
//!
//! Input (after the component number):
//!   local:  n, cap_1..cap_n, steps                     (what the model decodes)
//!   remote: n + 100, cap_1..cap_n, steps               (the model answers [96]: not predicted)
//! steps: 0 = send next value; 1 c = subscribe(c); 2 s k = subscriber s takes up to k items;
//!        3 s = drop receiver s; 4 = quiescence barrier (spawned re-admission tasks run).
//! Output: see RunBroadcast.v.
use crate::{rng::Rng, transport::Net};
use remoc::{
    codec,
    rch::{base, broadcast},
};
use std::{io::Write, panic::AssertUnwindSafe, time::Duration};

const COMP: u128 = 16;
/// first input number >= REMOTE marks a remote case (number of initial subscribers + REMOTE)
const REMOTE: u128 = 100;
/// remote case whose receiving endpoint has small port buffers (number of initial subscribers + REMOTE_SMALL)
const REMOTE_SMALL: u128 = 200;

type Rx = broadcast::Receiver<u64, codec::Default, 2>;

#[derive(Clone, Copy, PartialEq, Eq, Debug)]
enum Item {
    Value(u64),
    Lagged,
}

impl Item {
    fn num(self) -> u128 {
        match self {
            Item::Value(v) => v as u128 + 1,
            Item::Lagged => 0,
        }
    }
}

#[derive(Clone, Debug)]
enum Op {
    Send,
    Subscribe(usize),
    Consume(usize, usize),
    Drop(usize),
    Quiesce,
    /// remote cases only: the transport of the sending endpoint stops / resumes accepting frames
    Stall(bool),
}

fn parse_ops(mut l: &[u128], remote: bool) -> Option<Vec<Op>> {
    let mut ops = Vec::new();
    while let Some((&op, r)) = l.split_first() {
        match (op, r) {
            (0, _) => {
                ops.push(Op::Send);
                l = r;
            }
            (1, [c, rest @ ..]) => {
                ops.push(Op::Subscribe(*c as usize));
                l = rest;
            }
            (2, [s, k, rest @ ..]) => {
                ops.push(Op::Consume(*s as usize, *k as usize));
                l = rest;
            }
            (3, [s, rest @ ..]) => {
                ops.push(Op::Drop(*s as usize));
                l = rest;
            }
            (4, _) => {
                ops.push(Op::Quiesce);
                l = r;
            }
            (5 | 6, _) if remote => {
                ops.push(Op::Stall(op == 5));
                l = r;
            }
            _ => return None,
        }
    }
    Some(ops)
}

/// Harness-side view of one subscriber.
struct Sub {
    rx: Option<Rx>,
    cap: usize,
    /// index of the first value sent after subscribe
    start: u64,
    received: Vec<Item>,
    queued: Vec<Item>,
    /// upper bound on the queue occupancy argument for the keep-up oracle: true while every send
    /// since subscription found (values sent since subscription - items taken) < cap
    kept_up: bool,
    taken: u64,
    errors: Vec<String>,
}

impl Sub {
    fn new(rx: Rx, cap: usize, start: u64) -> Self {
        Sub { rx: Some(rx), cap, start, received: Vec::new(), queued: Vec::new(), kept_up: true, taken: 0, errors: Vec::new() }
    }

    /// one non-blocking poll; None = nothing available
    fn take(&mut self) -> Option<Item> {
        let rx = self.rx.as_mut()?;
        match rx.try_recv() {
            Ok(v) => Some(Item::Value(v)),
            Err(broadcast::TryRecvError::Lagged) => Some(Item::Lagged),
            Err(broadcast::TryRecvError::Empty) => None,
            Err(broadcast::TryRecvError::Closed) => {
                self.errors.push("Closed while the sender is alive".into());
                None
            }
            Err(e) => {
                self.errors.push(format!("receive error {e}"));
                None
            }
        }
    }
}

/// The property, stated directly on what one subscriber got (received then still queued):
/// values strictly increasing and not older than the subscription; a value directly after a value
/// is its successor; every Lagged stands for at least one skipped value, i.e. after m >= 1
/// markers the next value is at least m indices further; a subscriber whose queue provably never
/// was full got every value.
fn oracle_sub(id: usize, s: &Sub, sent: u64) -> Result<(), String> {
    if let Some(e) = s.errors.first() {
        return Err(format!("sub {id}: {e}"));
    }
    let all: Vec<Item> = s.received.iter().chain(s.queued.iter()).copied().collect();
    let mut expect = s.start;
    let mut lagged = false;
    for (pos, it) in all.iter().enumerate() {
        match *it {
            Item::Value(v) => {
                if v >= sent {
                    return Err(format!("sub {id}: value {v} at {pos} was never sent"));
                }
                if !lagged {
                    if v > expect {
                        return Err(format!("sub {id}: values {expect}..{v} skipped without Lagged at position {pos}"));
                    }
                    if v < expect {
                        return Err(format!("sub {id}: value {v} duplicated or out of order at position {pos}"));
                    }
                } else if v < expect {
                    return Err(format!("sub {id}: Lagged without a gap (or duplicate) before value {v} at position {pos}"));
                }
                expect = v + 1;
                lagged = false;
            }
            Item::Lagged => {
                expect += 1;
                lagged = true;
            }
        }
    }
    if s.kept_up {
        let want: Vec<Item> = (s.start..sent).map(Item::Value).collect();
        if s.rx.is_some() {
            if all != want {
                return Err(format!("sub {id}: kept up but got {} of {} values", all.len(), want.len()));
            }
        } else if !want.starts_with(&all) {
            return Err(format!("sub {id}: kept up until dropped but stream is not a prefix of the sent values"));
        }
    }
    Ok(())
}

async fn barrier() {
    tokio::time::sleep(Duration::from_nanos(1)).await;
    tokio::time::sleep(Duration::from_nanos(1)).await;
}

fn new_rt() -> tokio::runtime::Runtime {
    tokio::runtime::Builder::new_current_thread().enable_time().start_paused(true).build().unwrap()
}

struct Outcome {
    out: Vec<u128>,
    subs: Vec<Sub>,
    sent: u64,
    send_closed: usize,
    oracle: Result<(), String>,
}

fn finish(out: &mut Vec<u128>, subs: &mut [Sub]) {
    out.push(77);
    out.push(subs.len() as u128);
    for s in subs.iter_mut() {
        while let Some(it) = s.take() {
            s.queued.push(it);
        }
        out.push(s.received.len() as u128);
        out.extend(s.received.iter().map(|i| i.num()));
        out.push(s.queued.len() as u128);
        out.extend(s.queued.iter().map(|i| i.num()));
    }
}

/// Local subscribers: every step is synchronous; spawned tasks run only at a barrier.
fn exec_local(caps: &[usize], ops: &[Op]) -> Outcome {
    let rt = new_rt();
    rt.block_on(async move {
        let mut out = Vec::new();
        let mut subs: Vec<Sub> = Vec::new();
        let mut sent = 0u64;
        let mut send_closed = 0usize;
        let mut oracle = Ok(());
        let mut caps = caps.iter().copied().filter(|c| *c > 0);
        // the first subscriber comes from broadcast::channel, the others from subscribe
        let tx: broadcast::Sender<u64, codec::Default> = match caps.next() {
            Some(c) => {
                let (tx, rx) = broadcast::channel::<u64, codec::Default, 2>(c);
                subs.push(Sub::new(rx, c, 0));
                tx
            }
            None => broadcast::Sender::new(),
        };
        for c in caps {
            subs.push(Sub::new(tx.subscribe(c), c, 0));
        }
        for op in ops {
            match *op {
                Op::Send => {
                    for s in subs.iter_mut().filter(|s| s.rx.is_some()) {
                        if (sent - s.start).saturating_sub(s.taken) >= s.cap as u64 {
                            s.kept_up = false;
                        }
                    }
                    // `send` is a plain function: it returns before anything else can run
                    match tx.send(sent) {
                        Ok(_) => out.push(1),
                        Err(broadcast::SendError::Closed(_)) => {
                            send_closed += 1;
                            out.push(0)
                        }
                        Err(e) => {
                            oracle = Err(format!("send {sent} failed: {e}"));
                            out.push(2)
                        }
                    }
                    sent += 1;
                }
                Op::Subscribe(c) => {
                    if c > 0 {
                        subs.push(Sub::new(tx.subscribe(c), c, sent));
                    }
                }
                Op::Consume(s, k) => {
                    if let Some(sub) = subs.get_mut(s) {
                        for _ in 0..k {
                            match sub.take() {
                                Some(it) => {
                                    sub.received.push(it);
                                    sub.taken += 1;
                                }
                                None => break,
                            }
                        }
                    }
                }
                Op::Drop(s) => {
                    if let Some(sub) = subs.get_mut(s) {
                        sub.rx = None;
                    }
                }
                Op::Quiesce => barrier().await,
                Op::Stall(_) => unreachable!("remote only"),
            }
            out.push(tx.receiver_count() as u128);
        }
        finish(&mut out, &mut subs);
        // After the compared part: every sender goes away while some subscribers may be lagging (buffer full, marker not
        // yet queued); they then drain.  A subscriber that missed the last values must still be told so (a lag marker
        // after its last value) before it sees the end of the channel.
        let mut oracle = oracle;
        drop(tx);
        for (id, s) in subs.iter_mut().enumerate() {
            let Some(rx) = s.rx.as_mut() else { continue };
            let mut all: Vec<Item> = s.received.iter().chain(s.queued.iter()).copied().collect();
            let mut closed = false;
            for _ in 0..200 {
                barrier().await;
                loop {
                    match rx.try_recv() {
                        Ok(v) => all.push(Item::Value(v)),
                        Err(broadcast::TryRecvError::Lagged) => all.push(Item::Lagged),
                        Err(broadcast::TryRecvError::Empty) => break,
                        Err(_) => {
                            closed = true;
                            break;
                        }
                    }
                }
                if closed {
                    break;
                }
            }
            if !closed {
                if oracle.is_ok() {
                    oracle = Err(format!("sub {id}: the channel does not end after every sender was dropped and the subscriber drained"));
                }
                continue;
            }
            let last_value = all.iter().rev().find_map(|i| if let Item::Value(v) = i { Some(*v) } else { None });
            let ends_with_marker = matches!(all.last(), Some(Item::Lagged));
            let missed_tail = match last_value {
                Some(v) => v + 1 < sent,
                None => sent > s.start,
            };
            if missed_tail && !ends_with_marker && oracle.is_ok() {
                oracle = Err(format!(
                    "sub {id}: the last values (up to {}) were skipped for this subscriber, but after every sender was dropped it saw the end of the channel without a lag marker (last value {:?})",
                    sent.saturating_sub(1), last_value
                ));
            }
        }
        Outcome { out, subs, sent, send_closed, oracle }
    })
}

/// Remote subscribers: every receiver is sent over a chmux connection (harness transport,
/// automatic delivery) and used on the other side.  The remote side adds buffers the model does
/// not describe, so only the oracle is evaluated.
fn exec_remote(caps: &[usize], ops: &[Op], small: bool) -> Outcome {
    let rt = new_rt();
    rt.block_on(async move {
        let net = Net::new(true);
        // short chmux queues, so that a stalled transport (steps 5/6) pushes back on the broadcast
        // sender after a few items; the credit-based port buffers keep their default size
        let cfg = || remoc::Cfg { connection_timeout: None, shared_send_queue: 1, transport_send_queue: 1, transport_receive_queue: 1, ..Default::default() };
        let a = remoc::Connect::framed::<_, _, Rx, (), codec::Default>(cfg(), net.a2b.sink(), net.b2a.stream());
        // `small`: the receiving endpoint grants few credits per port, so that a remote subscriber that does not
        // consume makes its forwarder lag after a few values without the transport being stalled
        let mut cfg_b = cfg();
        if small {
            cfg_b.receive_buffer = 32;
        }
        let b = remoc::Connect::framed::<_, _, (), Rx, codec::Default>(cfg_b, net.b2a.sink(), net.a2b.stream());
        let (ra, rb) = tokio::join!(a, b);
        let (conn_a, mut rx_tx, _): (_, base::Sender<Rx, codec::Default>, base::Receiver<(), codec::Default>) =
            ra.map_err(|e| e.to_string()).expect("connect a");
        let (conn_b, _, mut rx_rx): (_, base::Sender<(), codec::Default>, base::Receiver<Rx, codec::Default>) =
            rb.map_err(|e| e.to_string()).expect("connect b");
        let ha = tokio::spawn(conn_a);
        let hb = tokio::spawn(conn_b);

        let mut out = Vec::new();
        let mut subs: Vec<Sub> = Vec::new();
        let mut sent = 0u64;
        let mut send_closed = 0usize;
        let mut oracle: Result<(), String> = Ok(());
        let tx: broadcast::Sender<u64, codec::Default> = broadcast::Sender::new();
        let mut stalled = false;
        // ship a receiver to the other endpoint and take it out there
        macro_rules! ship {
            ($c:expr, $start:expr) => {{
                let rx: Rx = tx.subscribe($c);
                // sent and taken out concurrently: with small port buffers the send completes only while the other
                // endpoint receives
                let (sres, rres) = tokio::join!(rx_tx.send(rx), tokio::time::timeout(Duration::from_secs(1), rx_rx.recv()));
                if let Err(e) = sres {
                    oracle = Err(format!("shipping a receiver failed: {e}"));
                } else {
                    barrier().await;
                    match rres {
                        Ok(Ok(Some(rrx))) => {
                            let mut s = Sub::new(rrx, $c, $start);
                            // remote buffers make the local occupancy bound meaningless
                            s.kept_up = false;
                            subs.push(s)
                        }
                        other => oracle = Err(format!("receiver did not arrive: {:?}", other.map(|r| r.map(|o| o.is_some())))),
                    }
                }
            }};
        }
        for c in caps.iter().copied().filter(|c| *c > 0) {
            ship!(c, 0);
        }
        barrier().await;
        for op in ops {
            match *op {
                Op::Send => {
                    match tx.send(sent) {
                        Ok(_) => out.push(1),
                        Err(broadcast::SendError::Closed(_)) => {
                            send_closed += 1;
                            out.push(0)
                        }
                        Err(e) => {
                            // the error of a failed remote subscriber is reported only when it was the last one
                            let _ = e;
                            out.push(2)
                        }
                    }
                    if matches!(out.last(), Some(0) | Some(2)) {
                        if let Some(k) = subs.iter().position(|s| s.rx.is_some()) {
                            if oracle.is_ok() {
                                oracle = Err(format!("C16 send of value {sent} failed although subscriber {k} is alive (a failed or slow subscriber must not stop the broadcast for the others)"));
                            }
                        }
                    }
                    sent += 1;
                }
                Op::Subscribe(c) => {
                    if c > 0 {
                        // the receiver itself travels over an unstalled transport
                        net.a2b.set_sink_ready(true);
                        ship!(c, sent);
                        net.a2b.set_sink_ready(!stalled);
                    }
                }
                Op::Consume(s, k) => {
                    if let Some(sub) = subs.get_mut(s) {
                        for _ in 0..k {
                            match sub.take() {
                                Some(it) => {
                                    sub.received.push(it);
                                    sub.taken += 1;
                                }
                                None => break,
                            }
                        }
                    }
                }
                Op::Drop(s) => {
                    if let Some(sub) = subs.get_mut(s) {
                        sub.rx = None;
                    }
                }
                Op::Quiesce => barrier().await,
                Op::Stall(s) => {
                    stalled = s;
                    net.a2b.set_sink_ready(!s)
                }
            }
            out.push(tx.receiver_count() as u128);
        }
        net.a2b.set_sink_ready(true);
        // what is still on its way: take everything, let the pipeline refill, until nothing comes
        loop {
            barrier().await;
            let mut got = false;
            for s in subs.iter_mut() {
                while let Some(it) = s.take() {
                    s.queued.push(it);
                    got = true;
                }
            }
            if !got {
                break;
            }
        }
        finish(&mut out, &mut subs);
        ha.abort();
        hb.abort();
        Outcome { out, subs, sent, send_closed, oracle }
    })
}

/// first input number of a case in which several OS threads send concurrently on clones of the sender
const THREADS: u128 = 900;

/// a value whose `Clone` takes a while, so that concurrent `send` calls overlap
#[derive(serde::Serialize, serde::Deserialize, Debug, PartialEq)]
struct Slow(u64);
impl Clone for Slow {
    fn clone(&self) -> Self {
        let spins = 200 + (self.0 % 7) * 300;
        for _ in 0..spins {
            std::hint::spin_loop();
        }
        if self.0 % 3 == 0 {
            std::thread::yield_now();
        }
        Slow(self.0)
    }
}

/// `send` is a plain function on a shared sender: concurrent calls must behave as if one ran after the
/// other (every value reaches every subscriber with free space, in each caller's order, and no call
/// reports Closed while a subscriber is alive).  input: [900; threads; per_thread; subscribers]
fn exec_threads(nthreads: usize, per: usize, nsubs: usize) -> (String, String) {
    let rt = tokio::runtime::Builder::new_multi_thread().worker_threads(1).enable_all().build().unwrap();
    let total = nthreads * per;
    let _enter = rt.enter();
    let (tx, rx0) = broadcast::channel::<Slow, codec::Default, 2>(total + 1);
    let mut rxs = vec![rx0];
    for _ in 1..nsubs {
        rxs.push(tx.subscribe(total + 1));
    }
    let errors = std::sync::Arc::new(std::sync::Mutex::new(Vec::<String>::new()));
    let barrier = std::sync::Arc::new(std::sync::Barrier::new(nthreads));
    let mut hs = Vec::new();
    for t in 0..nthreads {
        let tx = tx.clone();
        let handle = rt.handle().clone();
        let errors = errors.clone();
        let barrier = barrier.clone();
        hs.push(std::thread::spawn(move || {
            let _g = handle.enter();
            barrier.wait();
            for i in 0..per {
                let v = (t * 1_000_000 + i) as u64;
                if let Err(e) = tx.send(Slow(v)) {
                    errors.lock().unwrap().push(format!("send of {v} by thread {t} failed although every subscriber is alive with free space: {e}"));
                }
            }
        }));
    }
    for h in hs {
        let _ = h.join();
    }
    let sig = format!("threads{}:subs{}", nthreads, nsubs);
    if let Some(e) = errors.lock().unwrap().first() {
        return (sig, format!("FAIL: C16 {e}"));
    }
    for (k, rx) in rxs.iter_mut().enumerate() {
        let mut got: Vec<u64> = Vec::new();
        loop {
            match rx.try_recv() {
                Ok(Slow(v)) => got.push(v),
                Err(broadcast::TryRecvError::Lagged) => return (sig, format!("FAIL: C16 subscriber {k} lagged although its buffer holds every value sent")),
                Err(_) => break,
            }
        }
        if got.len() != total {
            return (sig, format!("FAIL: C16 subscriber {k} obtained {} of {total} values sent concurrently by {nthreads} threads, without a lag marker", got.len()));
        }
        for t in 0..nthreads {
            let mine: Vec<u64> = got.iter().copied().filter(|v| (*v / 1_000_000) as usize == t).collect();
            if mine != (0..per).map(|i| (t * 1_000_000 + i) as u64).collect::<Vec<_>>() {
                return (sig, format!("FAIL: C16 subscriber {k}: values of thread {t} are out of order or incomplete"));
            }
        }
    }
    drop(rxs);
    drop(tx);
    drop(_enter);
    drop(rt);
    (sig, "ok".into())
}

pub fn exec(inp: &[u128]) -> (Vec<u128>, String, String) {
    let Some((&n0, rest)) = inp.split_first() else { return (vec![98], "malformed".into(), "ok".into()) };
    if n0 == THREADS {
        if rest.len() < 3 {
            return (vec![98], "malformed".into(), "ok".into());
        }
        #[cfg(remoc_verif)]
        remoc::exec::verif::set_defer_seed(0);
        let (sig, oracle) = exec_threads((rest[0] as usize).clamp(2, 4), (rest[1] as usize).clamp(1, 200), (rest[2] as usize).clamp(1, 3));
        return (vec![96], sig, oracle);
    }
    let remote = n0 >= REMOTE;
    let small = n0 >= REMOTE_SMALL;
    let n = (if small { n0 - REMOTE_SMALL } else if remote { n0 - REMOTE } else { n0 }) as usize;
    if rest.len() < n {
        return (vec![98], "malformed".into(), "ok".into());
    }
    let caps: Vec<usize> = rest[..n].iter().map(|c| *c as usize).collect();
    let Some(ops) = parse_ops(&rest[n..], remote) else { return (vec![98], "malformed".into(), "ok".into()) };

    #[cfg(remoc_verif)]
    {
        // poll deferral of remoc's spawned tasks (hook H1), derived from the input only
        let h = inp.iter().fold(0x9E3779B97F4A7C15u64, |a, x| (a ^ *x as u64).wrapping_mul(0x100000001B3));
        remoc::exec::verif::set_defer_seed(if h % 3 == 0 { 0 } else { h | 1 });
    }
    let res = std::panic::catch_unwind(AssertUnwindSafe(|| if remote { exec_remote(&caps, &ops, small) } else { exec_local(&caps, &ops) }));
    let prefix = if remote { "remote" } else { "local" };
    let o = match res {
        Ok(o) => o,
        Err(_) => return (vec![95], format!("{prefix}:panic"), "FAIL: panic in the implementation (send/subscribe/recv)".into()),
    };
    let mut verdict = o.oracle.clone();
    for (id, s) in o.subs.iter().enumerate() {
        if verdict.is_ok() {
            verdict = oracle_sub(id, s, o.sent);
        }
    }
    let lags: usize = o.subs.iter().map(|s| s.received.iter().chain(s.queued.iter()).filter(|i| **i == Item::Lagged).count()).sum();
    let lagging_subs = o.subs.iter().filter(|s| s.received.iter().chain(s.queued.iter()).any(|i| *i == Item::Lagged)).count();
    let dropped = o.subs.iter().filter(|s| s.rx.is_none()).count();
    let late = o.subs.iter().filter(|s| s.start > 0).count();
    let kept = o.subs.iter().filter(|s| s.kept_up).count();
    let strict = ops.iter().filter(|o| matches!(o, Op::Quiesce)).count() * 2 >= ops.len();
    let sig = format!(
        "{prefix}:subs{}:lag{}of{}:drop{}:late{}:kept{}:closed{}:{}",
        o.subs.len(),
        lags.min(3),
        lagging_subs,
        dropped.min(2),
        late.min(1),
        kept.min(2),
        o.send_closed.min(1),
        if strict { "q" } else { "nq" }
    );
    if std::env::var_os("VH_DEBUG").is_some() {
        eprintln!("{:?}", o.out);
    }
    let out = if remote { vec![96] } else { o.out };
    (out, sig, match verdict {
        Ok(()) => "ok".into(),
        Err(e) => format!("FAIL: {e}"),
    })
}

fn gen_steps(r: &mut Rng, n0: usize, every_q: bool) -> Vec<u128> {
    let mut v = Vec::new();
    let mut nsubs = n0;
    let steps = r.range(5, 40);
    // consumption rate class of this case: slow readers lag a lot, fast ones keep up
    let consume_w = *r.pick(&[10u64, 25, 40, 60]);
    for _ in 0..steps {
        let x = r.below(100);
        if x < consume_w && nsubs > 0 {
            v.extend([2, r.below(nsubs as u64) as u128, r.range(1, 3) as u128]);
        } else if x < consume_w + 5 && nsubs < 6 {
            v.extend([1, r.range(1, 4) as u128]);
            nsubs += 1;
        } else if x < consume_w + 9 && nsubs > 0 {
            v.extend([3, r.below(nsubs as u64) as u128]);
        } else {
            v.push(0);
        }
        if every_q || r.chance(1, 2) {
            v.push(4);
        }
    }
    if r.chance(1, 2) {
        v.push(4);
    }
    v
}

pub fn gen(r: &mut Rng, i: usize) -> Vec<Vec<u128>> {
    let n = r.range(1, 4) as usize;
    let mut inp: Vec<u128> = vec![n as u128];
    for _ in 0..n {
        inp.push(r.range(1, 4) as u128);
    }
    // two thirds of the cases run the barrier after every step; the rest leave spawned tasks
    // unscheduled across several steps
    let every_q = !r.chance(1, 3);
    inp.extend(gen_steps(r, n, every_q));
    let mut cases = vec![inp.clone()];
    // every 16th case: OS threads sending concurrently on clones of the sender (oracle only)
    if i % 16 == 5 {
        cases.push(vec![THREADS, r.range(2, 4) as u128, r.range(20, 120) as u128, r.range(1, 3) as u128]);
    }
    // every 8th case also runs with remote subscribers (oracle only), with transport stalls mixed in
    if i % 8 == 0 {
        let mut rem = vec![n as u128 + REMOTE];
        rem.extend_from_slice(&inp[1..=n]);
        let mut stalled = false;
        let mut k = 1 + n;
        while k < inp.len() {
            let l = match inp[k] {
                1 | 3 => 2,
                2 => 3,
                _ => 1,
            };
            rem.extend_from_slice(&inp[k..k + l]);
            // a consume step of the local case becomes a send half of the time: remote readers are slower
            if inp[k] == 2 && r.chance(1, 2) {
                rem.truncate(rem.len() - 3);
                rem.push(0);
            }
            k += l;
            if r.chance(1, 6) {
                stalled = !stalled;
                rem.push(if stalled { 5 } else { 6 });
            }
        }
        // a subscriber fails (dropped at the remote endpoint) and the failure is noticed by a send at which
        // the others are lagging; then the others catch up
        if r.chance(1, 2) {
            rem.extend([6, 3, 0, 4]);
            for _ in 0..r.range(3, 8) {
                rem.push(0);
            }
            rem.push(4);
            for k in 0..6u128 {
                rem.extend([2, k, 3]);
            }
            rem.extend([0, 4, 0, 4]);
        }
        cases.push(rem);
        // dedicated pattern: the other subscribers never consume and lag (small port buffers at the receiving
        // endpoint) while subscriber R keeps up; R is dropped at the remote endpoint and its failure is noticed by a
        // send at which all others are lagging; the broadcast must go on for them
        {
            let m = r.range(1, 3) as usize;
            let mut p: Vec<u128> = vec![m as u128 + REMOTE_SMALL];
            for _ in 0..m {
                p.push(r.range(1, 3) as u128);
            }
            p.extend([1, 4, 4]);
            for _ in 0..r.range(20, 32) {
                p.extend([0, 4, 2, m as u128, 3]);
            }
            p.extend([3, m as u128, 4, 0, 4, 0, 4]);
            for k in 0..m as u128 {
                p.extend([2, k, 3]);
            }
            p.extend([4, 0, 4, 0, 4]);
            for k in 0..m as u128 {
                p.extend([2, k, 3]);
            }
            cases.push(p);
        }
    }
    cases
}

pub fn run(seed: u64, count: usize, extra: &[String], out: &mut impl Write) {
    // `Rng::new(s + 1)` is `Rng::new(s)` advanced by one draw, and the driver gives the shards
    // consecutive seeds: mix the seed first so that the shards do not repeat each other's cases
    let mut z = (seed ^ 0xC16).wrapping_add(0x9E3779B97F4A7C15);
    z = (z ^ (z >> 30)).wrapping_mul(0xBF58476D1CE4E5B9);
    z = (z ^ (z >> 27)).wrapping_mul(0x94D049BB133111EB);
    crate::drive(COMP, z ^ (z >> 31), count, extra, out, gen, exec);
}
