//! C05: channel halves embedded in values are wired one-to-one to their counterparts.
//!
//! Every case builds a chain of 1..3 REAL connections (`remoc::Connect::framed` over the harness
//! transport); the raw chmux port that carries the values is obtained on every connection by moving an
//! `rch::bin` half over the connection's base channel; intermediate nodes run the real
//! `chmux::Receiver::forward`.  The origin owns `base::Sender<Val>` over the first raw port, the far end
//! `base::Receiver<Val>` over the last one.  Values are trees (Vec / Option / tuple / enum / HashMap
//! positions) whose leaves are channel halves of `rch::{mpsc, oneshot, watch, broadcast, bin, lr}`.
//!
//! Input (after the component number):
//!   kind hops rbuf cs free0 freeF fault retry shape nvals nchan (ck which mode v1 v2 pre)*
//!   kind   0 = compared with the model; 1 = "remote:" oracle-only stream (small receive buffers: the
//!          output is the single number 1)
//!   hops   number of chained connections (1..3)
//!   rbuf   receive buffer of every connection (0 = default)
//!   cs     chunk size of every connection (0 = default): a port message carries at most cs/4 requests
//!   free0 / freeF  free ports left in the port allocator of the origin / the far end when the first
//!          value is serialized / deserialized (99 = unlimited)
//!   fault  0 none | 1 cut the LAST connection while value 0 is in flight (sent, not yet delivered; rbuf = 0)
//!          | 2 cut the FIRST connection in the same situation | 3 cut the last connection after everything
//!          was delivered and connected | 4 cut the first connection then
//!   retry  1 = after a send that failed with a serialization error release all hogged ports and
//!          send the returned value once more
//!   shape  seed of the tree shapes (irrelevant to the model: only the visiting order matters and the
//!          observables are keyed by channel label)
//!   per channel c (label c+1):
//!     ck    0 mpsc | 1 oneshot | 2 watch | 3 broadcast | 4 bin | 5 lr
//!     which 0 sender half travels | 1 receiver half travels | 2 both, sender first | 3 both, receiver first
//!     mode  0 normal | 1 the far end's type ignores this half (superfluous port request)
//!           | 2 the origin sends only the number of a port it never requested (lost request)
//!           (modes 1, 2 only with which < 2)
//!     v1 v2 index of the value (0 or 1 < nvals) carrying the first / the second half
//!     pre   (mpsc) number of items (0..8; item j has label 100+c+10j) queued in the channel before any
//!           half is handed over; the channels have a local queue of 8 items, so 8 = the queue is
//!           completely full when the half travels (whatever the wiring wants to tell the receiver end --
//!           a failed connect -- has to wait for queue space and must not get lost)
//! Output: per value: send result, receive result; per channel: sender-end location + status,
//!   receiver-end location, items received, terminal status (see `emit_*`).
use crate::{
    rng::Rng,
    transport::{Fault, Net},
};
use remoc::{
    chmux, codec,
    rch::{base, bin, broadcast, lr, mpsc, oneshot, watch},
    Cfg, Connect,
};
use serde::{
    de::{self, SeqAccess, Visitor},
    ser::SerializeTuple,
    Deserialize, Deserializer, Serialize, Serializer,
};
use std::{collections::HashMap, fmt, future::Future, marker::PhantomData, sync::Arc, time::Duration};

pub const COMP: u128 = 5;
const MAXP: u32 = 48;
/// local queue of the mpsc channels
const QCAP: u64 = 8;
/// label of the j-th item queued in channel i before the hand-over
fn pre_label(i: usize, j: u64) -> u64 {
    100 + i as u64 + 10 * j
}

// ---------------------------------------------------------------------------------------------
// value language

/// A half as it travels: `mode` tells the far end whether to read the payload as the real half or as
/// plain data of the same wire shape (version skew between the two ends).
struct Sk<H, P> {
    mode: u8,
    v: SkV<H, P>,
}
enum SkV<H, P> {
    Real(H),
    Plain(P),
}

impl<H: Serialize, P: Serialize> Serialize for Sk<H, P> {
    fn serialize<S: Serializer>(&self, s: S) -> Result<S::Ok, S::Error> {
        let mut t = s.serialize_tuple(2)?;
        t.serialize_element(&self.mode)?;
        match &self.v {
            SkV::Real(h) => t.serialize_element(h)?,
            SkV::Plain(p) => t.serialize_element(p)?,
        }
        t.end()
    }
}

impl<'de, H: Deserialize<'de>, P: Deserialize<'de>> Deserialize<'de> for Sk<H, P> {
    fn deserialize<D: Deserializer<'de>>(d: D) -> Result<Self, D::Error> {
        struct V<H, P>(PhantomData<(H, P)>);
        impl<'de, H: Deserialize<'de>, P: Deserialize<'de>> Visitor<'de> for V<H, P> {
            type Value = Sk<H, P>;
            fn expecting(&self, f: &mut fmt::Formatter) -> fmt::Result {
                write!(f, "mode and half")
            }
            fn visit_seq<A: SeqAccess<'de>>(self, mut seq: A) -> Result<Self::Value, A::Error> {
                let mode: u8 = seq.next_element()?.ok_or_else(|| de::Error::custom("mode"))?;
                let v = if mode == 1 {
                    SkV::Plain(seq.next_element()?.ok_or_else(|| de::Error::custom("plain"))?)
                } else {
                    SkV::Real(seq.next_element()?.ok_or_else(|| de::Error::custom("real"))?)
                };
                Ok(Sk { mode, v })
            }
        }
        d.deserialize_tuple(2, V(PhantomData))
    }
}

type C = codec::Default;

// plain data of the same wire shape as the transported halves
#[derive(Serialize, Deserialize)]
#[serde(rename = "TransportedSender")]
struct PMpscTx {
    port: Option<u32>,
    data: PhantomData<u64>,
    codec: PhantomData<C>,
    max_item_size: u64,
}
#[derive(Serialize, Deserialize)]
#[serde(rename = "TransportedReceiver")]
struct PMpscRx {
    port: u32,
    data: PhantomData<u64>,
    codec: PhantomData<C>,
    closed: bool,
    max_item_size: u64,
}
#[derive(Serialize, Deserialize)]
#[serde(rename = "Sender")]
struct POneTx(PMpscTx);
#[derive(Serialize, Deserialize)]
#[serde(rename = "Receiver")]
struct POneRx(PMpscRx);
#[derive(Serialize, Deserialize)]
#[serde(rename = "TransportedSender")]
struct PWatch {
    port: u32,
    data: Result<u64, watch::RecvError>,
    codec: PhantomData<C>,
    max_item_size: u64,
}
#[derive(Serialize, Deserialize)]
#[serde(rename = "Receiver")]
struct PBcastRx {
    rx: PMpscRx,
}
#[derive(Serialize, Deserialize)]
#[serde(rename = "TransportedSender")]
struct PBin {
    port: u32,
}
#[derive(Serialize, Deserialize)]
#[serde(rename = "TransportedSender")]
struct PLr {
    port: u32,
    data: PhantomData<u64>,
    codec: PhantomData<C>,
    max_item_size: u64,
}

#[derive(Serialize, Deserialize)]
enum HalfBox {
    MpscTx(Sk<mpsc::Sender<u64>, PMpscTx>),
    MpscRx(Sk<mpsc::Receiver<u64>, PMpscRx>),
    OneTx(Sk<oneshot::Sender<u64>, POneTx>),
    OneRx(Sk<oneshot::Receiver<u64>, POneRx>),
    WatchTx(Sk<watch::Sender<u64>, PWatch>),
    WatchRx(Sk<watch::Receiver<u64>, PWatch>),
    BcastRx(Sk<broadcast::Receiver<u64>, PBcastRx>),
    BinTx(Sk<bin::Sender, PBin>),
    BinRx(Sk<bin::Receiver, PBin>),
    LrTx(Sk<lr::Sender<u64>, PLr>),
    LrRx(Sk<lr::Receiver<u64>, PLr>),
}

#[derive(Serialize, Deserialize)]
enum Node {
    Leaf(u32, HalfBox),
    Pad(u64),
    List(Vec<Node>),
    Opt(Option<Box<Node>>),
    Tup(Box<(Node, u8, Node)>),
    Map(HashMap<u32, Node>),
    Rec { a: Box<Node>, s: String, b: Box<Node> },
}

type Val = Node;

fn build(r: &mut Rng, mut leaves: Vec<Node>, depth: u32) -> Node {
    if leaves.is_empty() {
        return match r.below(4) {
            0 => Node::Pad(r.next()),
            1 => Node::Opt(None),
            2 => Node::List(vec![]),
            _ => Node::Map(HashMap::new()),
        };
    }
    if leaves.len() == 1 && (depth > 3 || r.chance(1, 2)) {
        return leaves.pop().unwrap();
    }
    match r.below(5) {
        0 => {
            // vector: split into consecutive groups
            let mut items = Vec::new();
            while !leaves.is_empty() {
                let k = r.range(1, leaves.len() as u64) as usize;
                let rest = leaves.split_off(k);
                items.push(build(r, leaves, depth + 1));
                leaves = rest;
                if r.chance(1, 4) {
                    items.push(Node::Pad(r.below(1000)));
                }
            }
            Node::List(items)
        }
        1 => Node::Opt(Some(Box::new(build(r, leaves, depth + 1)))),
        2 => {
            let k = r.range(0, leaves.len() as u64) as usize;
            let rest = leaves.split_off(k);
            let a = build(r, leaves, depth + 1);
            let b = build(r, rest, depth + 1);
            Node::Tup(Box::new((a, r.below(256) as u8, b)))
        }
        3 => {
            let mut m = HashMap::new();
            let mut key = r.below(1000) as u32;
            while !leaves.is_empty() {
                let k = r.range(1, leaves.len() as u64) as usize;
                let rest = leaves.split_off(k);
                m.insert(key, build(r, leaves, depth + 1));
                key += 1 + r.below(50) as u32;
                leaves = rest;
            }
            Node::Map(m)
        }
        _ => {
            let k = r.range(0, leaves.len() as u64) as usize;
            let rest = leaves.split_off(k);
            let a = build(r, leaves, depth + 1);
            let b = build(r, rest, depth + 1);
            Node::Rec { a: Box::new(a), s: "x".repeat(r.below(40) as usize), b: Box::new(b) }
        }
    }
}

fn collect(n: Node, out: &mut Vec<(u32, HalfBox)>) {
    match n {
        Node::Leaf(c, h) => out.push((c, h)),
        Node::Pad(_) => {}
        Node::List(v) => v.into_iter().for_each(|x| collect(x, out)),
        Node::Opt(o) => {
            if let Some(x) = o {
                collect(*x, out)
            }
        }
        Node::Tup(t) => {
            let (a, _, b) = *t;
            collect(a, out);
            collect(b, out);
        }
        Node::Map(m) => m.into_iter().for_each(|(_, x)| collect(x, out)),
        Node::Rec { a, b, .. } => {
            collect(*a, out);
            collect(*b, out);
        }
    }
}

// ---------------------------------------------------------------------------------------------
// channel ends

enum TxEnd {
    Mpsc(mpsc::Sender<u64>),
    One(Option<oneshot::Sender<u64>>),
    Watch(watch::Sender<u64>),
    Bcast(broadcast::Sender<u64>),
    Bin(bin::Sender),
    Lr(lr::Sender<u64>),
}
enum RxEnd {
    Mpsc(mpsc::Receiver<u64>),
    One(Option<oneshot::Receiver<u64>>),
    Watch(watch::Receiver<u64>),
    Bcast(broadcast::Receiver<u64>),
    Bin(bin::Receiver),
    Lr(lr::Receiver<u64>),
}

fn make(ck: u128) -> (TxEnd, RxEnd) {
    match ck {
        0 => {
            let (t, r) = mpsc::channel(QCAP as usize);
            (TxEnd::Mpsc(t), RxEnd::Mpsc(r))
        }
        1 => {
            let (t, r) = oneshot::channel();
            (TxEnd::One(Some(t)), RxEnd::One(Some(r)))
        }
        2 => {
            let (t, r) = watch::channel(0);
            (TxEnd::Watch(t), RxEnd::Watch(r))
        }
        3 => {
            let (t, r) = broadcast::channel::<u64, C, { remoc::rch::DEFAULT_BUFFER }>(8);
            (TxEnd::Bcast(t), RxEnd::Bcast(r))
        }
        4 => {
            let (t, r) = bin::channel();
            (TxEnd::Bin(t), RxEnd::Bin(r))
        }
        _ => {
            let (t, r) = lr::channel();
            (TxEnd::Lr(t), RxEnd::Lr(r))
        }
    }
}

fn sk<H, P>(mode: u8, h: H) -> Sk<H, P> {
    Sk { mode, v: SkV::Real(h) }
}
fn fake<H, P>(p: P) -> Sk<H, P> {
    Sk { mode: 2, v: SkV::Plain(p) }
}

fn box_tx(t: TxEnd, mode: u8) -> HalfBox {
    match t {
        TxEnd::Mpsc(x) => HalfBox::MpscTx(sk(mode, x)),
        TxEnd::One(x) => HalfBox::OneTx(sk(mode, x.unwrap())),
        TxEnd::Watch(x) => HalfBox::WatchTx(sk(mode, x)),
        TxEnd::Bcast(_) => unreachable!("broadcast senders do not travel"),
        TxEnd::Bin(x) => HalfBox::BinTx(sk(mode, x)),
        TxEnd::Lr(x) => HalfBox::LrTx(sk(mode, x)),
    }
}
fn box_rx(t: RxEnd, mode: u8) -> HalfBox {
    match t {
        RxEnd::Mpsc(x) => HalfBox::MpscRx(sk(mode, x)),
        RxEnd::One(x) => HalfBox::OneRx(sk(mode, x.unwrap())),
        RxEnd::Watch(x) => HalfBox::WatchRx(sk(mode, x)),
        RxEnd::Bcast(x) => HalfBox::BcastRx(sk(mode, x)),
        RxEnd::Bin(x) => HalfBox::BinRx(sk(mode, x)),
        RxEnd::Lr(x) => HalfBox::LrRx(sk(mode, x)),
    }
}
/// plain data naming a port that was never requested
fn box_fake(ck: u128, is_tx: bool, port: u32) -> HalfBox {
    let mtx = || PMpscTx { port: Some(port), data: PhantomData, codec: PhantomData, max_item_size: u64::MAX };
    let mrx = || PMpscRx { port, data: PhantomData, codec: PhantomData, closed: false, max_item_size: 1 << 20 };
    let w = || PWatch { port, data: Ok(0), codec: PhantomData, max_item_size: 1 << 20 };
    let l = || PLr { port, data: PhantomData, codec: PhantomData, max_item_size: u64::MAX };
    match (ck, is_tx) {
        (0, true) => HalfBox::MpscTx(fake(mtx())),
        (0, false) => HalfBox::MpscRx(fake(mrx())),
        (1, true) => HalfBox::OneTx(fake(POneTx(mtx()))),
        (1, false) => HalfBox::OneRx(fake(POneRx(mrx()))),
        (2, true) => HalfBox::WatchTx(fake(w())),
        (2, false) => HalfBox::WatchRx(fake(w())),
        (3, _) => HalfBox::BcastRx(fake(PBcastRx { rx: mrx() })),
        (4, true) => HalfBox::BinTx(fake(PBin { port })),
        (4, false) => HalfBox::BinRx(fake(PBin { port })),
        (_, true) => HalfBox::LrTx(fake(l())),
        (_, false) => HalfBox::LrRx(fake(l())),
    }
}

enum Got {
    Tx(TxEnd),
    Rx(RxEnd),
    Ignored,
}
fn unbox(h: HalfBox) -> Got {
    fn t<H, P>(s: Sk<H, P>, f: impl FnOnce(H) -> Got) -> Got {
        match s.v {
            SkV::Real(h) => f(h),
            SkV::Plain(_) => Got::Ignored,
        }
    }
    match h {
        HalfBox::MpscTx(s) => t(s, |x| Got::Tx(TxEnd::Mpsc(x))),
        HalfBox::MpscRx(s) => t(s, |x| Got::Rx(RxEnd::Mpsc(x))),
        HalfBox::OneTx(s) => t(s, |x| Got::Tx(TxEnd::One(Some(x)))),
        HalfBox::OneRx(s) => t(s, |x| Got::Rx(RxEnd::One(Some(x)))),
        HalfBox::WatchTx(s) => t(s, |x| Got::Tx(TxEnd::Watch(x))),
        HalfBox::WatchRx(s) => t(s, |x| Got::Rx(RxEnd::Watch(x))),
        HalfBox::BcastRx(s) => t(s, |x| Got::Rx(RxEnd::Bcast(x))),
        HalfBox::BinTx(s) => t(s, |x| Got::Tx(TxEnd::Bin(x))),
        HalfBox::BinRx(s) => t(s, |x| Got::Rx(RxEnd::Bin(x))),
        HalfBox::LrTx(s) => t(s, |x| Got::Tx(TxEnd::Lr(x))),
        HalfBox::LrRx(s) => t(s, |x| Got::Rx(RxEnd::Lr(x))),
    }
}

// ---------------------------------------------------------------------------------------------
// observations

#[derive(Debug, Clone, Copy, PartialEq, Eq)]
enum St {
    Ok,      // 1: sender: accepted, no error seen; receiver: all expected items arrived
    End,     // 2: clean end of stream / closed without error
    Err,     // 3: an error was reported
    Pending, // 4: still pending at quiescence
    Absent,  // 5: this end does not exist any more (travelled with a lost value)
}
fn st_num(s: St) -> u128 {
    match s {
        St::Ok => 1,
        St::End => 2,
        St::Err => 3,
        St::Pending => 4,
        St::Absent => 5,
    }
}

async fn barrier() {
    for _ in 0..3 {
        tokio::time::sleep(Duration::from_nanos(1)).await;
        tokio::task::yield_now().await;
    }
}

/// Runs `fut` as its own task up to quiescence; `None` = still pending (the task is aborted).
async fn step<T: Send + 'static>(fut: impl Future<Output = T> + Send + 'static) -> Option<T> {
    let h = tokio::spawn(fut);
    barrier().await;
    if h.is_finished() {
        h.await.ok()
    } else {
        h.abort();
        let _ = h.await;
        barrier().await;
        None
    }
}

type Slot<T> = Arc<tokio::sync::Mutex<Option<T>>>;
fn slot<T>(x: T) -> Slot<T> {
    Arc::new(tokio::sync::Mutex::new(Some(x)))
}

/// Sends `label` into a sender end.
async fn tx_send(t: &Slot<TxEnd>, label: u64) -> St {
    let t = t.clone();
    let r = step(async move {
        let mut g = t.lock().await;
        match g.as_mut() {
            None => St::Absent,
            Some(TxEnd::Mpsc(x)) => match x.send(label).await {
                Ok(_) => St::Ok,
                Err(_) => St::Err,
            },
            Some(TxEnd::One(x)) => match x.take() {
                Some(x) => match x.send(label) {
                    Ok(_) => St::Ok,
                    Err(_) => St::Err,
                },
                None => St::Absent,
            },
            Some(TxEnd::Watch(x)) => match x.send(label) {
                Ok(()) => St::Ok,
                Err(_) => St::Err,
            },
            Some(TxEnd::Bcast(x)) => match x.send(label) {
                Ok(_) => St::Ok,
                Err(_) => St::Err,
            },
            Some(TxEnd::Bin(x)) => match x.get().await {
                Ok(s) => match s.send(bytes::Bytes::from(label.to_le_bytes().to_vec())).await {
                    Ok(()) => St::Ok,
                    Err(_) => St::Err,
                },
                Err(_) => St::Err,
            },
            Some(TxEnd::Lr(x)) => match x.send(label).await {
                Ok(()) => St::Ok,
                Err(_) => St::Err,
            },
        }
    })
    .await;
    r.unwrap_or(St::Pending)
}

/// Late status of a sender end: has it learnt of an error / closure by now?
async fn tx_late(t: &Slot<TxEnd>) -> St {
    let t = t.clone();
    let r = step(async move {
        let mut g = t.lock().await;
        match g.as_mut() {
            None => St::Absent,
            Some(TxEnd::Mpsc(x)) => {
                if x.is_closed() {
                    St::Err
                } else {
                    St::Ok
                }
            }
            Some(TxEnd::One(_)) => St::Ok,
            Some(TxEnd::Watch(x)) => {
                if x.is_closed() || x.error().is_some() {
                    St::Err
                } else {
                    St::Ok
                }
            }
            Some(TxEnd::Bcast(_)) => St::Ok,
            Some(TxEnd::Bin(x)) => match x.get().await {
                Ok(s) => {
                    if s.is_closed() {
                        St::Err
                    } else {
                        St::Ok
                    }
                }
                Err(_) => St::Err,
            },
            Some(TxEnd::Lr(x)) => match x.is_closed().await {
                Ok(false) => St::Ok,
                _ => St::Err,
            },
        }
    })
    .await;
    r.unwrap_or(St::Pending)
}

/// Reads one item from a receiver end.
async fn rx_recv(t: &Slot<RxEnd>) -> Result<u64, St> {
    let t = t.clone();
    let r = step(async move {
        let mut g = t.lock().await;
        match g.as_mut() {
            None => Err(St::Absent),
            Some(RxEnd::Mpsc(x)) => match x.recv().await {
                Ok(Some(v)) => Ok(v),
                Ok(None) => Err(St::End),
                Err(_) => Err(St::Err),
            },
            Some(RxEnd::One(x)) => match x.take() {
                Some(x) => match x.await {
                    Ok(v) => Ok(v),
                    Err(oneshot::RecvError::Closed) => Err(St::End),
                    Err(_) => Err(St::Err),
                },
                None => Err(St::End),
            },
            Some(RxEnd::Watch(x)) => match x.changed().await {
                Ok(()) => match x.borrow_and_update() {
                    Ok(v) => Ok(*v),
                    Err(_) => Err(St::Err),
                },
                Err(_) => match x.borrow() {
                    Ok(_) => Err(St::End),
                    Err(_) => Err(St::Err),
                },
            },
            Some(RxEnd::Bcast(x)) => match x.recv().await {
                Ok(v) => Ok(v),
                Err(broadcast::RecvError::Closed) => Err(St::End),
                Err(_) => Err(St::Err),
            },
            Some(RxEnd::Bin(x)) => match x.get().await {
                Ok(r) => match r.recv().await {
                    Ok(Some(b)) => {
                        let v: Vec<u8> = bytes::Buf::chunk(&bytes::Bytes::from(b)).to_vec();
                        let mut a = [0u8; 8];
                        if v.len() == 8 {
                            a.copy_from_slice(&v);
                            Ok(u64::from_le_bytes(a))
                        } else {
                            Ok(u64::MAX)
                        }
                    }
                    Ok(None) => Err(St::End),
                    Err(_) => Err(St::Err),
                },
                Err(_) => Err(St::Err),
            },
            Some(RxEnd::Lr(x)) => match x.recv().await {
                Ok(Some(v)) => Ok(v),
                Ok(None) => Err(St::End),
                Err(_) => Err(St::Err),
            },
        }
    })
    .await;
    r.unwrap_or(Err(St::Pending))
}

// ---------------------------------------------------------------------------------------------
// case

#[derive(Clone, Debug)]
struct Chan {
    ck: u128,
    which: u128,
    mode: u128,
    v1: usize,
    v2: usize,
    pre: u64,
}

#[derive(Clone, Debug)]
struct Case {
    kind: u128,
    hops: usize,
    rbuf: u32,
    cs: u32,
    free0: u128,
    free_f: u128,
    fault: u128,
    retry: bool,
    shape: u64,
    nvals: usize,
    chans: Vec<Chan>,
}

fn parse(inp: &[u128]) -> Option<Case> {
    if inp.len() < 11 {
        return None;
    }
    let n = inp[10] as usize;
    if n > 8 || inp.len() != 11 + 6 * n {
        return None;
    }
    let c = Case {
        kind: inp[0],
        hops: inp[1] as usize,
        rbuf: inp[2] as u32,
        cs: inp[3] as u32,
        free0: inp[4],
        free_f: inp[5],
        fault: inp[6],
        retry: inp[7] != 0,
        shape: inp[8] as u64,
        nvals: inp[9] as usize,
        chans: inp[11..]
            .chunks(6)
            .map(|c| Chan { ck: c[0], which: c[1], mode: c[2], v1: c[3] as usize, v2: c[4] as usize, pre: c[5] as u64 })
            .collect(),
    };
    if c.kind > 1 || c.hops < 1 || c.hops > 3 || c.nvals < 1 || c.nvals > 2 || c.fault > 4 {
        return None;
    }
    if (c.rbuf != 0 && c.rbuf < 64) || (c.cs != 0 && (c.cs < 4 || c.cs > 1 << 20)) {
        return None;
    }
    for ch in &c.chans {
        if ch.ck > 5 || ch.which > 3 || ch.mode > 2 || ch.v1 >= c.nvals || ch.v2 >= c.nvals || ch.v1 > ch.v2 {
            return None;
        }
        if ch.which >= 2 && ch.mode != 0 {
            return None;
        }
        if ch.ck == 3 && ch.which != 1 {
            return None; // only broadcast receivers travel
        }
        if ch.pre > QCAP || (ch.pre != 0 && ch.ck != 0) {
            return None;
        }
        if ch.which < 2 && ch.v1 != ch.v2 {
            return None;
        }
    }
    Some(c)
}

#[derive(Serialize, Deserialize)]
enum Boot {
    Raw(bin::Receiver),
}

/// send / receive result of a value
#[derive(Debug, Clone, Copy, PartialEq, Eq)]
enum VRes {
    Ok,         // 1
    SerErr,     // 2: serialization error (sender) / deserialization error (receiver)
    Missing,    // 3: receiver: MissingPorts
    Other,      // 4: other error
    Pending,    // 5
    End,        // 6: receiver: end of stream
    NotTried,   // 7
}
fn vres_num(v: VRes) -> u128 {
    match v {
        VRes::Ok => 1,
        VRes::SerErr => 2,
        VRes::Missing => 3,
        VRes::Other => 4,
        VRes::Pending => 5,
        VRes::End => 6,
        VRes::NotTried => 7,
    }
}

struct ChanObs {
    tx_loc: u128, // 0 origin, 1 far, 2 nowhere
    tx_first: St,
    tx_late: St,
    rx_loc: u128,
    items: Vec<u64>,
    rx_term: St,
}

struct Trace {
    sends: Vec<(VRes, VRes, VRes)>, // send, retry send, receive
    chans: Vec<ChanObs>,
    leftover: usize, // probe or transfer operations still pending at final quiescence
    dbg: String,
}

struct Ends {
    tx: Slot<TxEnd>,
    rx: Slot<RxEnd>,
}

fn hog(alloc: &chmux::PortAllocator, free: u128) -> Vec<chmux::PortNumber> {
    let mut v = Vec::new();
    if free >= 99 {
        return v;
    }
    while let Some(p) = alloc.try_allocate() {
        v.push(p);
    }
    for _ in 0..free {
        v.pop();
    }
    v
}

async fn run_case(c: &Case) -> Option<Trace> {
    let mut keep: Vec<Box<dyn std::any::Any + Send>> = Vec::new();
    let mut nets = Vec::new();
    let mut raw_txs = Vec::new();
    let mut raw_rxs = Vec::new();
    let mut dbg = String::new();
    for _ in 0..c.hops {
        let net = Net::new(true);
        let mut cfg = Cfg { max_ports: MAXP, ..Default::default() };
        if c.rbuf != 0 {
            cfg.receive_buffer = c.rbuf;
        }
        if c.cs != 0 {
            cfg.chunk_size = c.cs;
        }
        let (a, b) = tokio::join!(
            Connect::framed::<_, _, Boot, Boot, C>(cfg.clone(), net.a2b.sink(), net.b2a.stream()),
            Connect::framed::<_, _, Boot, Boot, C>(cfg, net.b2a.sink(), net.a2b.stream()),
        );
        let (conn_a, mut tx_a, rx_a): (_, base::Sender<Boot>, base::Receiver<Boot>) = a.ok()?;
        let (conn_b, tx_b, mut rx_b): (_, base::Sender<Boot>, base::Receiver<Boot>) = b.ok()?;
        keep.push(Box::new(tokio::spawn(conn_a)));
        keep.push(Box::new(tokio::spawn(conn_b)));
        let (btx, brx) = bin::channel();
        let (s, r) = tokio::join!(tx_a.send(Boot::Raw(brx)), rx_b.recv());
        s.ok()?;
        let Boot::Raw(brx) = r.ok()??;
        let (rt, rr) = tokio::join!(btx.into_inner(), brx.into_inner());
        raw_txs.push(rt.ok()?);
        raw_rxs.push(rr.ok()?);
        keep.push(Box::new((tx_a, rx_a, tx_b, rx_b)));
        nets.push(net);
    }
    barrier().await;
    let origin_alloc = raw_txs[0].port_allocator();
    let far_alloc = raw_rxs[c.hops - 1].port_allocator();
    let mut raw_txs = raw_txs.into_iter();
    let mut raw_rxs = raw_rxs.into_iter();
    let mut vtx: base::Sender<Val> = base::Sender::new(raw_txs.next().unwrap());
    // intermediate nodes forward
    let mut fwd = Vec::new();
    for _ in 1..c.hops {
        let mut rx = raw_rxs.next().unwrap();
        let mut tx = raw_txs.next().unwrap();
        fwd.push(tokio::spawn(async move {
            let _ = rx.forward(&mut tx).await;
        }));
    }
    let vrx: base::Receiver<Val> = base::Receiver::new(raw_rxs.next().unwrap());
    let vrx = slot(vrx);

    // channels
    let mut origin: Vec<Ends> = Vec::new();
    let mut o_has: Vec<(bool, bool)> = Vec::new();
    for ch in &c.chans {
        let (t, r) = make(ch.ck);
        origin.push(Ends { tx: slot(t), rx: slot(r) });
        o_has.push((true, true));
    }
    let far: Vec<Ends> = c.chans.iter().map(|_| Ends { tx: Arc::new(Default::default()), rx: Arc::new(Default::default()) }).collect();
    // queue an item before anything travels
    for (i, ch) in c.chans.iter().enumerate() {
        for j in 0..ch.pre {
            let _ = tx_send(&origin[i].tx, pre_label(i, j)).await;
        }
    }

    let mut hog0 = hog(&origin_alloc, c.free0);
    let hog_f = hog(&far_alloc, c.free_f);
    let mut shape = Rng::new(c.shape);
    let mut sends = Vec::new();
    let mut cut_done = false;
    let cut = |k: usize| {
        nets[k].a2b.fail(Fault::StreamErr);
        nets[k].b2a.fail(Fault::StreamErr);
    };
    let mut bogus = 4_000_000_000u32;
    for v in 0..c.nvals {
        // leaves of this value, in channel order; the halves of a "both" channel in the given order
        let mut leaves = Vec::new();
        for (i, ch) in c.chans.iter().enumerate() {
            let first_is_tx = ch.which == 0 || ch.which == 2;
            let mut parts: Vec<bool> = Vec::new(); // true = tx half
            if ch.v1 == v {
                parts.push(first_is_tx);
            }
            if ch.which >= 2 && ch.v2 == v {
                parts.push(!first_is_tx);
            }
            for is_tx in parts {
                if ch.mode == 2 {
                    bogus += 1;
                    leaves.push(Node::Leaf(i as u32, box_fake(ch.ck, is_tx, bogus)));
                } else if is_tx {
                    if let Some(t) = origin[i].tx.lock().await.take() {
                        leaves.push(Node::Leaf(i as u32, box_tx(t, ch.mode as u8)));
                    }
                } else if let Some(r) = origin[i].rx.lock().await.take() {
                    leaves.push(Node::Leaf(i as u32, box_rx(r, ch.mode as u8)));
                }
            }
        }
        let in_flight_cut = v == 0 && (c.fault == 1 || c.fault == 2);
        let cut_at = if c.fault == 1 || c.fault == 3 { c.hops - 1 } else { 0 };
        if in_flight_cut {
            nets[cut_at].set_auto(false);
        }
        let mut val = Some(build(&mut shape, leaves, 0));
        let mut res = (VRes::NotTried, VRes::NotTried, VRes::NotTried);
        for attempt in 0..2 {
            let Some(value) = val.take() else { break };
            // the far end receives concurrently
            let vrx2 = vrx.clone();
            // (after an error that concerns one item only it goes on receiving, as an application would:
            // otherwise the origin may wait for flow-control credit nobody returns)
            let first: Arc<std::sync::Mutex<Option<Option<Result<Option<Val>, base::RecvError>>>>> = Arc::new(Default::default());
            let first2 = first.clone();
            let recv_task = tokio::spawn(async move {
                let mut g = vrx2.lock().await;
                match g.as_mut() {
                    Some(rx) => loop {
                        let r = rx.recv().await;
                        let again = matches!(&r, Err(base::RecvError::Deserialize(_)) | Err(base::RecvError::MissingPorts(_)));
                        let mut f = first2.lock().unwrap();
                        if f.is_none() {
                            *f = Some(Some(r));
                        }
                        drop(f);
                        if !again {
                            break;
                        }
                    },
                    None => *first2.lock().unwrap() = Some(None),
                }
            });
            let send_task = tokio::spawn(async move {
                let r = vtx.send(value).await;
                (vtx, r)
            });
            barrier().await;
            if in_flight_cut && !cut_done {
                cut(cut_at);
                cut_done = true;
                // a lost connection releases its ports: from here on the origin's allocator is not limited
                hog0.clear();
                barrier().await;
            }
            // send side
            let sres;
            if send_task.is_finished() {
                let (tx_back, r) = send_task.await.ok()?;
                vtx = tx_back;
                match r {
                    Ok(()) => sres = VRes::Ok,
                    Err(e) => {
                        sres = match e.kind {
                            base::SendErrorKind::Serialize(_) => VRes::SerErr,
                            _ => VRes::Other,
                        };
                        if std::env::var("VH_DEBUG").is_ok() {
                            dbg.push_str(&format!("send err: {}\n", e.kind));
                        }
                        // the halves come back
                        let mut ls = Vec::new();
                        collect(e.item, &mut ls);
                        if c.retry && attempt == 0 && sres == VRes::SerErr {
                            hog0.clear();
                            let back: Vec<Node> = ls.into_iter().map(|(i, h)| Node::Leaf(i, h)).collect();
                            val = Some(build(&mut shape, back, 0));
                        } else {
                            for (i, h) in ls {
                                match unbox(h) {
                                    Got::Tx(t) => *origin[i as usize].tx.lock().await = Some(t),
                                    Got::Rx(r) => *origin[i as usize].rx.lock().await = Some(r),
                                    Got::Ignored => {}
                                }
                            }
                        }
                    }
                }
            } else {
                // cannot be recovered: the sender is inside the task
                send_task.abort();
                let _ = send_task.await;
                return Some(Trace { sends: vec![(VRes::Pending, VRes::NotTried, VRes::NotTried)], chans: vec![], leftover: 1, dbg });
            }
            if attempt == 0 {
                res.0 = sres;
            } else {
                res.1 = sres;
            }
            // receive side
            let rres;
            if !recv_task.is_finished() {
                recv_task.abort();
            }
            let _ = recv_task.await;
            barrier().await;
            let got = first.lock().unwrap().take();
            if let Some(got) = got {
                match got {
                    Some(Ok(Some(value))) => {
                        rres = VRes::Ok;
                        let mut ls = Vec::new();
                        collect(value, &mut ls);
                        for (i, h) in ls {
                            match unbox(h) {
                                Got::Tx(t) => *far[i as usize].tx.lock().await = Some(t),
                                Got::Rx(r) => *far[i as usize].rx.lock().await = Some(r),
                                Got::Ignored => {}
                            }
                        }
                    }
                    Some(Ok(None)) => rres = VRes::End,
                    Some(Err(e)) => {
                        if std::env::var("VH_DEBUG").is_ok() {
                            dbg.push_str(&format!("recv err: {}\n", e));
                        }
                        rres = match e {
                            base::RecvError::Deserialize(_) => VRes::SerErr,
                            base::RecvError::MissingPorts(_) => VRes::Missing,
                            _ => VRes::Other,
                        }
                    }
                    None => rres = VRes::NotTried,
                }
            } else {
                rres = VRes::Pending;
            }
            res.2 = rres;
            if val.is_none() {
                break;
            }
        }
        sends.push(res);
        barrier().await;
        // the far end keeps receiving (as an application would): requests that nobody waited for
        // (failed deserialization; a value none of whose halves the far end knows) are consumed, i.e.
        // rejected, now and not only when the next value arrives
        {
            let vrx2 = vrx.clone();
            let _ = step(async move {
                let mut g = vrx2.lock().await;
                if let Some(rx) = g.as_mut() {
                    let _ = rx.recv().await;
                }
            })
            .await;
        }
    }
    // a failed deserialization leaves the port requests of that value queued: the far end keeps
    // receiving (as an application would) until nothing more arrives; after an error on the last value
    // it gives the channel up (a value parked after MissingPorts is dropped with the receiver)
    {
        let vrx2 = vrx.clone();
        let _ = step(async move {
            let mut g = vrx2.lock().await;
            if let Some(rx) = g.as_mut() {
                let _ = rx.recv().await;
            }
        })
        .await;
        if sends.last().map(|s| s.2 != VRes::Ok).unwrap_or(false) {
            vrx.lock().await.take();
            barrier().await;
        }
    }
    if c.fault == 3 || c.fault == 4 {
        let cut_at = if c.fault == 3 { c.hops - 1 } else { 0 };
        cut(cut_at);
        barrier().await;
    }
    drop(hog0);
    drop(hog_f);
    barrier().await;

    // probes: every sender end sends its label, then every receiver end reads
    let n = c.chans.len();
    let mut obs: Vec<ChanObs> = Vec::new();
    for i in 0..n {
        let o_tx = origin[i].tx.lock().await.is_some();
        let f_tx = far[i].tx.lock().await.is_some();
        let o_rx = origin[i].rx.lock().await.is_some();
        let f_rx = far[i].rx.lock().await.is_some();
        obs.push(ChanObs {
            tx_loc: if o_tx { 0 } else if f_tx { 1 } else { 2 },
            tx_first: St::Absent,
            tx_late: St::Absent,
            rx_loc: if o_rx { 0 } else if f_rx { 1 } else { 2 },
            items: vec![],
            rx_term: St::Absent,
        });
    }
    // a bin / lr channel whose two ends are both local never connects (by design): not probed
    let unprobed: Vec<bool> = (0..n).map(|i| c.chans[i].ck >= 4 && obs[i].tx_loc == 0 && obs[i].rx_loc == 0).collect();
    // a channel whose two ends are both (still) at the origin is an ordinary local channel: a further
    // item waits for space in its queue (back-pressure, by design), so its receiver end takes the items
    // queued before the hand-over first
    let mut early: Vec<Option<St>> = vec![None; n];
    for i in 0..n {
        if unprobed[i] || obs[i].tx_loc != 0 || obs[i].rx_loc != 0 {
            continue;
        }
        for _ in 0..c.chans[i].pre {
            match rx_recv(&origin[i].rx).await {
                Ok(v) => obs[i].items.push(v),
                Err(s) => {
                    early[i] = Some(s);
                    break;
                }
            }
        }
    }
    for i in 0..n {
        if unprobed[i] {
            continue;
        }
        let label = i as u64 + 1;
        obs[i].tx_first = match obs[i].tx_loc {
            0 => tx_send(&origin[i].tx, label).await,
            1 => tx_send(&far[i].tx, label).await,
            _ => St::Absent,
        };
    }
    barrier().await;
    for i in 0..n {
        let want = 1 + c.chans[i].pre as usize;
        if unprobed[i] {
            continue;
        }
        let end = match obs[i].rx_loc {
            0 => &origin[i].rx,
            1 => &far[i].rx,
            _ => continue,
        };
        if let Some(s) = early[i] {
            obs[i].rx_term = s;
            continue;
        }
        let mut term = St::Ok;
        for _ in obs[i].items.len()..want {
            match rx_recv(end).await {
                Ok(v) => obs[i].items.push(v),
                Err(s) => {
                    term = s;
                    break;
                }
            }
        }
        obs[i].rx_term = term;
    }
    barrier().await;
    for i in 0..n {
        if unprobed[i] {
            continue;
        }
        obs[i].tx_late = match obs[i].tx_loc {
            0 => tx_late(&origin[i].tx).await,
            1 => tx_late(&far[i].tx).await,
            _ => St::Absent,
        };
    }
    // final quiescence: everything is dropped, nothing may stay pending
    for e in origin.iter().chain(far.iter()) {
        e.tx.lock().await.take();
        e.rx.lock().await.take();
    }
    drop(vtx);
    vrx.lock().await.take();
    barrier().await;
    let mut leftover = 0;
    for f in &fwd {
        if !f.is_finished() {
            leftover += 1;
        }
    }
    for f in fwd {
        f.abort();
    }
    drop(keep);
    Some(Trace { sends, chans: obs, leftover, dbg })
}

/// Combined status of a sender end: an error seen at the send or learnt of later.
fn tx_comb(o: &ChanObs) -> St {
    if o.tx_first == St::Pending || o.tx_late == St::Pending {
        St::Pending
    } else if o.tx_first == St::Err || o.tx_late == St::Err {
        St::Err
    } else {
        o.tx_first
    }
}

/// per value: send result, result of the second attempt, receive result;
/// per channel: sender-end location (0 origin, 1 far, 2 nowhere), its status, receiver-end location,
/// number of items received, the items, terminal status of the receiver end.
/// After a cut of an established connection (fault 3, 4) "clean end" and "error" are not told apart
/// (a forwarding hop turns the failure into a clean end for the side behind it).
fn emit_trace(c: &Case, t: &Trace) -> Vec<u128> {
    let mut out = Vec::new();
    let fold = |s: St| if c.fault >= 3 && s == St::End { St::Err } else { s };
    for s in &t.sends {
        out.push(vres_num(s.0));
        out.push(vres_num(s.1));
        out.push(vres_num(s.2));
    }
    for o in t.chans.iter() {
        out.push(o.tx_loc);
        out.push(st_num(fold(tx_comb(o))));
        out.push(o.rx_loc);
        out.push(o.items.len() as u128);
        out.extend(o.items.iter().map(|x| *x as u128));
        out.push(st_num(fold(o.rx_term)));
    }
    out
}

fn signature(c: &Case, t: &Trace) -> String {
    let mut s = String::new();
    let f10 = c.chans.iter().any(|ch| (ch.ck == 4 || ch.ck == 5) && ch.which >= 2);
    if f10 {
        s.push_str("F10:");
    }
    if c.kind == 1 {
        s.push_str("remote:");
    }
    let nb = match c.chans.len() {
        0 => "0",
        1 => "1",
        2..=4 => "2-4",
        _ => "5-8",
    };
    s.push_str(&format!("h{}:n{}", c.hops, nb));
    if c.chans.iter().any(|ch| ch.ck >= 4) {
        s.push_str(":il"); // a bin / lr half (interlock) travels
    }
    if c.chans.iter().any(|ch| ch.which >= 2) {
        s.push_str(":both");
    }
    if c.chans.iter().any(|ch| ch.mode == 1) {
        s.push_str(":superfluous");
    }
    if c.chans.iter().any(|ch| ch.mode == 2) {
        s.push_str(":lost");
    }
    if c.chans.iter().any(|ch| ch.pre != 0) {
        s.push_str(":queued");
    }
    if c.chans.iter().any(|ch| ch.pre == QCAP) {
        s.push_str(":qfull");
    }
    if c.nvals > 1 {
        s.push_str(":2vals");
    }
    if c.fault != 0 {
        s.push_str(&format!(":cut{}", c.fault));
    }
    for (k, x) in t.sends.iter().enumerate() {
        if x.0 != VRes::Ok || x.2 != VRes::Ok {
            s.push_str(&format!(":v{}s{}r{}", k, vres_num(x.0), vres_num(x.2)));
        }
        if x.1 != VRes::NotTried {
            s.push_str(&format!(":retry{}", vres_num(x.1)));
        }
    }
    s
}

/// The property, stated on the implementation trace alone.
fn oracle(c: &Case, t: &Trace) -> String {
    if t.leftover != 0 {
        return format!("FAIL: {} operation(s) still pending at final quiescence", t.leftover);
    }
    // delivered: with unlimited ports, no version skew in the value and no connection loss, a value
    // that was sent is received (also after being forwarded over further connections)
    for (v, sr) in t.sends.iter().enumerate() {
        let plain = c.chans.iter().all(|ch| ch.mode == 0 || !(ch.v1 == v || (ch.which >= 2 && ch.v2 == v)));
        if c.fault == 0 && c.free0 >= 99 && c.free_f >= 99 && plain {
            let sent = sr.0 == VRes::Ok || sr.1 == VRes::Ok;
            if sent && sr.2 != VRes::Ok {
                return format!("FAIL: value {} was sent but the far end's receive reports {:?}", v, sr.2);
            }
            if !sent && sr.0 == VRes::Pending {
                return format!("FAIL: sending value {} hangs", v);
            }
        }
    }
    for (i, o) in t.chans.iter().enumerate() {
        let label = i as u64 + 1;
        // one-to-one: a receiver end only ever sees items of its own channel, in order, each once
        let mut allowed: Vec<u64> = Vec::new();
        allowed.extend((0..c.chans[i].pre).map(|j| pre_label(i, j)));
        allowed.push(label);
        let mut k = 0;
        for it in &o.items {
            while k < allowed.len() && allowed[k] != *it {
                k += 1;
            }
            if k == allowed.len() {
                return format!("FAIL: receiver end of channel {} got item {} which was not sent into this channel (or twice / out of order): {:?}", i, it, o.items);
            }
            k += 1;
        }
        // wired: when nothing was in the way -- every travelling half of the channel went in a value
        // that was sent and received successfully, no version skew, no connection loss -- the label (and
        // before it the queued item) must arrive: every delivered half is connected to its counterpart
        {
            let ch = &c.chans[i];
            let val_ok = |v: usize| t.sends.get(v).map(|s| (s.0 == VRes::Ok || s.1 == VRes::Ok) && s.2 == VRes::Ok).unwrap_or(false);
            let clean = c.fault == 0 && ch.mode == 0 && val_ok(ch.v1) && (ch.which < 2 || val_ok(ch.v2));
            if clean {
                let mut want = Vec::new();
                want.extend((0..ch.pre).map(|j| pre_label(i, j)));
                want.push(label);
                if o.items != want {
                    return format!("FAIL: channel {}: all its halves were delivered but the receiver end got {:?} ({:?}) instead of {:?}", i, o.items, o.rx_term, want);
                }
            }
        }
        // a half that travelled in a value that was sent but did not make it to the far end (request
        // rejected or lost, value lost): the end that stayed behind must not report success
        {
            let ch = &c.chans[i];
            let sent = |v: usize| t.sends.get(v).map(|s| s.0 == VRes::Ok || s.1 == VRes::Ok).unwrap_or(false);
            if ch.which < 2 && ch.mode != 2 && sent(ch.v1) {
                if ch.which == 1 && o.rx_loc == 2 && o.tx_loc == 0 && tx_comb(o) == St::Ok {
                    return format!("FAIL: channel {}: the receiver half was sent and got lost, but the sender end reports no error", i);
                }
                if ch.which == 0 && o.tx_loc == 2 && o.rx_loc == 0 && o.rx_term == St::Ok {
                    return format!("FAIL: channel {}: the sender half was sent and got lost, but the receiver end reports no error", i);
                }
                // ... and when the trace itself shows that the far end never built the sender half (its
                // receive of the value failed in deserialization: no port left there; its type ignores
                // the half; the connection was lost while the value was in flight), the port request was
                // rejected / failed: the receiver end that stayed behind gets exactly the items queued
                // before the hand-over, however many (the notification has to wait for queue space), and
                // then an ERROR -- a clean end would tell it that every sender finished regularly
                let rr = t.sends.get(ch.v1).map(|s| s.2).unwrap_or(VRes::NotTried);
                let never_built = match rr {
                    VRes::SerErr => true,
                    VRes::Ok => ch.mode == 1,
                    VRes::Missing | VRes::NotTried => false,
                    _ => (c.fault == 1 || c.fault == 2) && ch.v1 == 0,
                };
                if ch.which == 0 && o.tx_loc == 2 && o.rx_loc == 0 && never_built && c.fault < 3 {
                    let queued: Vec<u64> = (0..ch.pre).map(|j| pre_label(i, j)).collect();
                    if o.items != queued {
                        return format!("FAIL: channel {}: the sender half could not be connected; the receiver end got {:?} instead of the {} queued item(s) {:?}", i, o.items, ch.pre, queued);
                    }
                    if o.rx_term != St::Err {
                        return format!("FAIL: channel {}: the sender half was sent with {} item(s) queued and could not be connected, but after them the receiver end reports {:?} instead of an error", i, ch.pre, o.rx_term);
                    }
                }
            }
        }
        // never a hang
        if o.tx_first == St::Pending || o.tx_late == St::Pending {
            return format!("FAIL: sender end of channel {} hangs", i);
        }
        if o.rx_term == St::Pending {
            return format!("FAIL: receiver end of channel {} hangs", i);
        }
        // connected or error: when both ends exist and the label did not arrive, both ends must
        // have observed an error (a clean end-of-stream is not an error: nobody closed the channel)
        let arrived = o.items.contains(&label);
        let unprobed = c.chans[i].ck >= 4 && o.tx_loc == 0 && o.rx_loc == 0;
        let lenient = c.fault >= 3 && c.hops > 1; // classification behind a forwarding hop is not C05
        if o.tx_loc != 2 && o.rx_loc != 2 && !arrived && !unprobed {
            if o.rx_term != St::Err && !(lenient && o.rx_term == St::End) {
                return format!("FAIL: channel {}: the label did not arrive and the receiver end reports {:?} instead of an error", i, o.rx_term);
            }
            if o.tx_first != St::Err && o.tx_late != St::Err {
                return format!("FAIL: channel {}: the label did not arrive and the sender end saw no error", i);
            }
        }
        if arrived && o.tx_first != St::Ok {
            return format!("FAIL: channel {}: label arrived although the send reported {:?}", i, o.tx_first);
        }
        // an end whose counterpart was lost with a value must not hang and must not see data
        if o.tx_loc == 2 && o.rx_loc != 2 && o.items.iter().any(|x| *x == label) {
            return format!("FAIL: channel {}: label arrived although the sender end does not exist", i);
        }
    }
    "ok".into()
}

pub fn exec(inp: &[u128]) -> (Vec<u128>, String, String) {
    let Some(c) = parse(inp) else { return (vec![98], "unparsable".into(), "ok".into()) };
    let (txr, rxr) = std::sync::mpsc::channel();
    let c = Arc::new(c);
    let c2 = c.clone();
    std::thread::spawn(move || {
        let rt = tokio::runtime::Builder::new_current_thread().enable_time().start_paused(true).build().unwrap();
        let t = rt.block_on(run_case(&c2));
        let _ = txr.send(t);
    });
    let t = match rxr.recv_timeout(Duration::from_secs(20)) {
        Ok(Some(t)) => t,
        Ok(None) => return (vec![96], "setup-failed".into(), "FAIL: could not establish the connections".into()),
        Err(_) => return (vec![95], "livelock".into(), "FAIL: case did not reach quiescence within 20 s of wall time".into()),
    };
    if std::env::var("VH_DEBUG").is_ok() {
        eprint!("{}", t.dbg);
    }
    let out = if c.kind == 0 { emit_trace(&c, &t) } else { vec![1] };
    (out, signature(&c, &t), oracle(&c, &t))
}

pub fn gen(r: &mut Rng, i: usize) -> Vec<Vec<u128>> {
    // every 16th case group is the separate stream of the known class F10 (both halves of a bin / lr
    // channel travel); the main stream never contains it
    let f10 = i % 16 == 15;
    let hops = match r.below(20) {
        0..=7 => 1,
        8..=14 => 2,
        _ => 3,
    };
    let nchan = match r.below(100) {
        0..=2 => 0,
        3..=17 => 1,
        18..=67 => r.range(2, 4),
        _ => r.range(5, 8),
    } as usize;
    let nchan = if f10 { nchan.max(1) } else { nchan };
    let nvals = if r.chance(2, 5) { 2 } else { 1 };
    let mut chans: Vec<[u128; 6]> = Vec::new();
    for k in 0..nchan {
        let mut ck = r.below(6) as u128;
        let mut which = if r.chance(3, 10) { 2 + r.below(2) } else { r.below(2) } as u128;
        if f10 && k == 0 {
            ck = 4 + r.below(2) as u128;
            which = 2 + r.below(2) as u128;
        } else if ck >= 4 && which >= 2 {
            which -= 2;
        }
        if ck == 3 {
            which = 1;
        }
        let mode = if which >= 2 {
            0
        } else {
            match r.below(100) {
                0..=84 => 0,
                85..=92 => 1,
                _ => 2,
            }
        };
        let a = r.below(nvals) as u128;
        let b = r.below(nvals) as u128;
        let (v1, v2) = if which >= 2 { (a.min(b), a.max(b)) } else { (a, a) };
        // items queued before the hand-over: one, some, or as many as the local queue holds
        let pre = if ck == 0 && r.chance(3, 10) {
            match r.below(3) {
                0 => 1,
                1 => r.range(2, QCAP - 1),
                _ => QCAP,
            }
        } else {
            0
        } as u128;
        chans.push([ck, which, mode, v1, v2, pre]);
    }
    // ports needed by value 0 at the origin (every travelling half that is not a bare number) and at
    // the far end (every half the far end reads as a half)
    let need0 = chans.iter().map(|c| {
        let mut n = 0;
        if c[2] != 2 {
            if c[3] == 0 {
                n += 1;
            }
            if c[1] >= 2 && c[4] == 0 {
                n += 1;
            }
        }
        n
    }).sum::<u64>();
    let need_f = chans.iter().map(|c| {
        let mut n = 0;
        if c[2] != 1 {
            if c[3] == 0 {
                n += 1;
            }
            if c[1] >= 2 && c[4] == 0 {
                n += 1;
            }
        }
        n
    }).sum::<u64>();
    let lim = |r: &mut Rng, need: u64| -> u128 {
        if r.chance(7, 10) {
            99
        } else {
            match r.below(5) {
                0 => need.saturating_sub(1),
                1 => need,
                2 => need + 1,
                3 => 0,
                _ => r.range(0, need + 2),
            }
            .min(20) as u128
        }
    };
    let free0 = lim(r, need0);
    let free_f = lim(r, need_f);
    let fault = match r.below(100) {
        0..=74 => 0,
        75..=80 => 1,
        81..=86 => 2,
        87..=93 => 3,
        _ => 4,
    };
    let retry = (free0 != 99 && r.chance(1, 2)) as u128;
    // (a value in flight on a frozen link must fit the receive buffer: default buffer for faults 1, 2)
    let rbuf = if r.chance(1, 2) || fault == 1 || fault == 2 { 0 } else { *r.pick(&[64u64, 68, 96, 128, 256, 1024]) };
    let cs = if r.chance(1, 2) { 0 } else { *r.pick(&[4u64, 5, 8, 12, 16, 64]) };
    let kind = (i % 16 == 7) as u128;
    let mut v: Vec<u128> = vec![
        kind,
        hops as u128,
        rbuf as u128,
        cs as u128,
        free0,
        free_f,
        fault as u128,
        retry,
        r.below(1 << 30) as u128,
        nvals as u128,
        nchan as u128,
    ];
    for c in chans {
        v.extend(c);
    }
    vec![v]
}

pub fn run(seed: u64, count: usize, extra: &[String], out: &mut impl std::io::Write) {
    let seed = Rng::new(seed ^ 0xC05).next();
    crate::drive(COMP, seed, count, extra, out, gen, exec);
}
