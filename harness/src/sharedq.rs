//! C03 (cross-port part): several ports of ONE sending endpoint share its bounded event queue; the peer's
//! receivers consume only when told to.  Compared with `Run/RunSharedQ.v` (component 3), the executable
//! interface of the model `Chmux/SharedQueue.v` about which `Props/C03b.v` is proved.
//!   input:  cap n rb (op p k)*     see RunSharedQ.v
//!   output: after every op, per port: data frames put on the wire so far, operation pending (1/0); then 77
use crate::{
    conn::{self, group, quiesce},
    rng::Rng,
};
use bytes::Bytes;
use futures::FutureExt;
use remoc::chmux::{verif::MultiplexMsg, Cfg, Received, Receiver, Sender};
use std::{io::Write, sync::Arc};
use tokio::task::JoinHandle;

const COMP: u128 = 3;

pub fn exec(inp: &[u128]) -> (Vec<u128>, String, String) {
    if inp.len() < 3 || inp[0] == 0 || inp[1] == 0 || inp[1] > 16 || inp[2] < 4 {
        return (vec![98], "sq:malformed".into(), "ok".into());
    }
    let (cap, n, rb) = (inp[0] as usize, inp[1] as usize, inp[2] as u32);
    let ops: Vec<u128> = inp[3..].to_vec();
    let rt = conn::runtime();
    rt.block_on(async move {
        remoc::exec::verif::set_defer_seed(0);
        let ca = Cfg { connection_timeout: None, shared_send_queue: cap, max_ports: 100, connect_queue: 32, ..Default::default() };
        let cb = Cfg { connection_timeout: None, receive_buffer: rb, max_ports: 100, connect_queue: 32, ..Default::default() };
        let mut p = conn::connect(ca, cb).await;
        let mut txs: Vec<Arc<tokio::sync::Mutex<Sender>>> = Vec::new();
        let mut rxs: Vec<Receiver> = Vec::new();
        let mut remote_ports: Vec<u32> = Vec::new();
        let mut keep = Vec::new();
        for _ in 0..n {
            let ((ta, ra), (tb, rxb)) = conn::open_port(&mut p).await;
            remote_ports.push(ta.remote_port());
            txs.push(Arc::new(tokio::sync::Mutex::new(ta)));
            rxs.push(rxb);
            keep.push((ra, tb));
        }
        quiesce().await;
        let seen0 = p.net.a2b.log_len();
        let mut tasks: Vec<Option<JoinHandle<bool>>> = (0..n).map(|_| None).collect();
        let mut out = Vec::new();
        let mut started = 0;
        let mut cancelled = 0;
        let mut starved = false;
        let mut oracle = "ok".to_string();
        let mut i = 0;
        while i + 2 < ops.len() {
            let (op, port, k) = (ops[i], ops[i + 1] as usize, ops[i + 2]);
            i += 3;
            if port < n {
                match op {
                    1 => {
                        let idle = tasks[port].as_ref().map(|t| t.is_finished()).unwrap_or(true);
                        if idle && k > 0 {
                            started += 1;
                            let tx = txs[port].clone();
                            tasks[port] = Some(tokio::spawn(async move {
                                let mut g = tx.lock().await;
                                for _ in 0..k {
                                    if g.send(Bytes::from_static(b"x")).await.is_err() {
                                        return false;
                                    }
                                }
                                true
                            }));
                        }
                    }
                    2 => {
                        if let Some(t) = tasks[port].take() {
                            if !t.is_finished() {
                                cancelled += 1;
                            }
                            t.abort();
                            let _ = t.await;
                        }
                    }
                    3 => {
                        for _ in 0..k {
                            match rxs[port].recv_any().now_or_never() {
                                Some(Ok(Some(Received::Data(_)))) => {}
                                Some(Ok(Some(_))) => {}
                                _ => break,
                            }
                        }
                    }
                    _ => {}
                }
            }
            quiesce().await;
            quiesce().await;
            // frames on the wire per port
            let frames = p.net.a2b.log_from(seen0);
            let msgs = group(&frames);
            for q in 0..n {
                let cnt = msgs.iter().filter(|m| matches!(&m.msg, MultiplexMsg::Data { port, .. } if *port == remote_ports[q])).count();
                let pending = tasks[q].as_ref().map(|t| !t.is_finished()).unwrap_or(false);
                if pending {
                    starved = true;
                }
                out.push(cnt as u128);
                out.push(pending as u128);
            }
            out.push(77);
        }
        for t in tasks.iter_mut().flatten() {
            if t.is_finished() {
                if let Some(Ok(false)) = t.now_or_never() {
                    oracle = "FAIL: C03 a send failed on a healthy connection".into();
                }
            }
        }
        drop(keep);
        (out, format!("sq:cap{}:n{}:rb{}:st{}:ca{}:{}", cap.min(3), n.min(4), if rb < 8 { "s" } else { "l" }, started.min(3), cancelled.min(2), if starved { "starved" } else { "free" }), oracle)
    })
}

pub fn gen(r: &mut Rng, _i: usize) -> Vec<Vec<u128>> {
    let cap = r.range(1, 3) as u128;
    let n = r.range(2, 5) as u128;
    let rb = *r.pick(&[4u128, 5, 7, 8, 9, 16, 20]);
    let mut v = vec![cap, n, rb];
    // some ports are never consumed (starved), the others are
    let consumed: Vec<bool> = (0..n).map(|_| r.chance(1, 2)).collect();
    for _ in 0..r.range(4, 24) {
        let p = r.below(n as u64) as u128;
        match r.below(10) {
            0..=4 => v.extend([1, p, r.range(1, 2 * rb as u64 + 3) as u128]),
            5 => v.extend([2, p, 0]),
            _ => {
                if consumed[p as usize] || r.chance(1, 6) {
                    v.extend([3, p, r.range(1, rb as u64 + 2) as u128])
                } else {
                    v.extend([1, p, r.range(1, 6) as u128])
                }
            }
        }
    }
    vec![v]
}

pub fn run(seed: u64, count: usize, extra: &[String], out: &mut impl Write) {
    crate::drive(COMP, seed ^ 0xC03B, count, extra, out, gen, exec);
}
