//! C17: remote read/write lock.  Drives the REAL `remoc::robj::rw_lock::{Owner, RwLock}`.
//!
//! Clients are actor tasks, each owning a clone of a lock and at most one guard; the harness sends
//! them commands and records a history of invocation / response / release events with a global
//! step counter.  Cache 0 is the cache shared by every lock cloned from the owner locally; cache
//! k >= 1 belongs to the k-th lock sent to a second endpoint over a real connection
//! (`Connect::framed` over the harness transport in auto mode); clients with the same cache number
//! use clones of the same lock.
//!
//! Input (after the component number):
//!   kind v0 seed ncli cache_of*ncli nops (op c arg)*nops
//!   kind 0 = "bar": every command is followed by a quiescence barrier; compared with the model by
//!            trace acceptance: the observation after every barrier is appended to the printed
//!            input behind `OBS_SEP` and the model answers 1 iff it has a run with that history;
//!        1 = "race": commands are issued without barriers (op 5 n = n yields, n = 0 a barrier),
//!            H1 deferral of remoc's own tasks from `seed`; oracle only;
//!        2 = "mt": the F5 race (DESIGN section 6) on a multi-thread runtime, `nops` iterations,
//!            wall-clock timeout; oracle only;
//!        3 = "cbar": as kind 0 (a barrier after every command) but with CANCELLATIONS (op 6) of
//!            pending requests (reads and writes); oracle only;
//!        4 = "wbar": as kind 0 with cancellations of pending WRITE requests only (op 6 on a client
//!            whose read is pending is skipped); compared with the model by trace acceptance like
//!            kind 0: the model side represents a cancelled write request by a ghost client that
//!            drops its guard at once (Run/RunRwLock.v, `accept_g`).
//!   ops  0 acquire read | 1 acquire write | 2 release read guard | 3 commit arg | 4 drop write guard |
//!        6 cancel the client's pending read()/write() (its future is dropped where it stands;
//!          kinds 1, 3 and 4 only)
//!        (a command that does not fit the client's status is skipped, as in the model)
//! Observation per client: 0 idle | 1 read guard (value) | 2 write guard (value) | 3 read pending |
//!   4 write pending | 5 commit pending | 6 error.
use crate::{rng::Rng, transport::Net};
use remoc::{
    codec,
    rch::base,
    robj::rw_lock::{Owner, RwLock},
    Cfg, Connect,
};
use std::{
    sync::{Arc, Mutex},
    time::Duration,
};
use tokio::sync::mpsc;

pub const COMP: u128 = 17;

#[derive(Clone, Copy, Debug, PartialEq)]
enum St {
    Idle,
    HoldR(u64),
    HoldW(u64),
    PendR,
    PendW,
    PendC,
    Error,
}

#[derive(Clone, Copy, Debug, PartialEq)]
enum Ev {
    InvR(usize),
    RespR(usize, u64),
    RelR(usize),
    InvW(usize),
    RespW(usize, u64),
    InvC(usize, u64),
    RespC(usize),
    DropW(usize),
    Err(usize),
    /// the pending read() future of the client was dropped
    CancelR(usize),
    /// the pending write() future of the client was dropped
    CancelW(usize),
}

#[derive(Clone, Copy, Debug)]
enum Cmd {
    Read,
    Write,
    Release,
    Commit(u64),
    DropW,
    Cancel,
}

/// Completes when a `Cancel` command arrives (no other command fits a pending request: the harness
/// does not send any); false = the command channel is closed.
async fn wait_cancel(rx: &mut mpsc::UnboundedReceiver<Cmd>) -> bool {
    loop {
        match rx.recv().await {
            Some(Cmd::Cancel) => return true,
            Some(_) => continue,
            None => return false,
        }
    }
}

struct Shared {
    st: Mutex<Vec<St>>,
    hist: Mutex<Vec<Ev>>,
}

impl Shared {
    fn ev(&self, e: Ev) {
        self.hist.lock().unwrap().push(e);
    }
    fn set(&self, c: usize, s: St) {
        self.st.lock().unwrap()[c] = s;
    }
    fn get(&self, c: usize) -> St {
        self.st.lock().unwrap()[c]
    }
}

async fn actor(c: usize, lock: RwLock<u64>, mut rx: mpsc::UnboundedReceiver<Cmd>, sh: Arc<Shared>) {
    loop {
        let Some(cmd) = rx.recv().await else { return };
        match cmd {
            Cmd::Read => {
                sh.ev(Ev::InvR(c));
                sh.set(c, St::PendR);
                // the request future is dropped where it stands when a Cancel command arrives
                let res = tokio::select! {
                    biased;
                    r = lock.read() => Some(r),
                    open = wait_cancel(&mut rx) => {
                        if !open {
                            return;
                        }
                        None
                    }
                };
                let Some(res) = res else {
                    sh.ev(Ev::CancelR(c));
                    sh.set(c, St::Idle);
                    continue;
                };
                match res {
                    Ok(g) => {
                        let v = *g;
                        sh.ev(Ev::RespR(c, v));
                        sh.set(c, St::HoldR(v));
                        loop {
                            match rx.recv().await {
                                Some(Cmd::Release) => break,
                                Some(_) => continue,
                                None => return,
                            }
                        }
                        sh.ev(Ev::RelR(c));
                        drop(g);
                        sh.set(c, St::Idle);
                    }
                    Err(_) => {
                        sh.ev(Ev::Err(c));
                        sh.set(c, St::Error);
                    }
                }
            }
            Cmd::Write => {
                sh.ev(Ev::InvW(c));
                sh.set(c, St::PendW);
                let res = tokio::select! {
                    biased;
                    r = lock.write() => Some(r),
                    open = wait_cancel(&mut rx) => {
                        if !open {
                            return;
                        }
                        None
                    }
                };
                let Some(res) = res else {
                    sh.ev(Ev::CancelW(c));
                    sh.set(c, St::Idle);
                    continue;
                };
                match res {
                    Ok(mut g) => {
                        let v = *g;
                        sh.ev(Ev::RespW(c, v));
                        sh.set(c, St::HoldW(v));
                        let cmd = loop {
                            match rx.recv().await {
                                Some(x @ Cmd::Commit(_)) | Some(x @ Cmd::DropW) => break x,
                                Some(_) => continue,
                                None => return,
                            }
                        };
                        match cmd {
                            Cmd::Commit(nv) => {
                                *g = nv;
                                sh.ev(Ev::InvC(c, nv));
                                sh.set(c, St::PendC);
                                match g.commit().await {
                                    Ok(()) => {
                                        sh.ev(Ev::RespC(c));
                                        sh.set(c, St::Idle);
                                    }
                                    Err(_) => {
                                        sh.ev(Ev::Err(c));
                                        sh.set(c, St::Error);
                                    }
                                }
                            }
                            _ => {
                                sh.ev(Ev::DropW(c));
                                drop(g);
                                sh.set(c, St::Idle);
                            }
                        }
                    }
                    Err(_) => {
                        sh.ev(Ev::Err(c));
                        sh.set(c, St::Error);
                    }
                }
            }
            _ => {}
        }
    }
}

async fn barrier() {
    for _ in 0..2 {
        tokio::time::sleep(Duration::from_nanos(1)).await;
    }
}

struct Case {
    kind: u128,
    v0: u64,
    seed: u64,
    cache_of: Vec<usize>,
    ops: Vec<(u128, usize, u64)>,
}

fn parse(inp: &[u128]) -> Option<Case> {
    if inp.len() < 5 {
        return None;
    }
    let ncli = inp[3] as usize;
    if ncli == 0 || ncli > 8 || inp.len() < 5 + ncli {
        return None;
    }
    let cache_of: Vec<usize> = inp[4..4 + ncli].iter().map(|x| *x as usize).collect();
    if cache_of.iter().any(|k| *k > 4) {
        return None;
    }
    let nops = inp[4 + ncli] as usize;
    let rest = &inp[5 + ncli..];
    if rest.len() != 3 * nops {
        return None;
    }
    let ops: Vec<(u128, usize, u64)> = rest.chunks(3).map(|c| (c[0], c[1] as usize, c[2] as u64)).collect();
    if ops.iter().any(|o| o.0 > 6 || (o.0 != 5 && o.1 >= ncli)) {
        return None;
    }
    // the model has no cancellation: a barriered case with one is not an acceptance case
    if inp[0] == 0 && ops.iter().any(|o| o.0 == 6) {
        return None;
    }
    Some(Case { kind: inp[0], v0: inp[1] as u64, seed: inp[2] as u64, cache_of, ops })
}

struct Trace {
    /// statuses after every command (kind 0)
    obs: Vec<Vec<St>>,
    hist: Vec<Ev>,
    /// statuses after the final drain
    fin: Vec<St>,
    /// value shown by a last read through client 0's lock after the drain (None: it did not complete)
    last_read: Option<u64>,
    setup_ok: bool,
}

fn valid(kind: u128, op: u128, st: St) -> bool {
    if kind == 4 && op == 6 {
        return st == St::PendW;
    }
    matches!(
        (op, st),
        (0, St::Idle) | (1, St::Idle) | (2, St::HoldR(_)) | (3, St::HoldW(_)) | (4, St::HoldW(_)) | (6, St::PendR) | (6, St::PendW)
    )
}

async fn run_case(c: &Case) -> Trace {
    let ncli = c.cache_of.len();
    let nk = c.cache_of.iter().max().unwrap() + 1;
    let owner: Owner<u64> = Owner::new(c.v0);
    let mut locks: Vec<RwLock<u64>> = vec![owner.rw_lock()];
    let mut conn = Vec::new();
    let bad = |hist| Trace { obs: vec![], hist, fin: vec![], last_read: None, setup_ok: false };
    if nk > 1 {
        let net = Net::new(true);
        let (a, b) = tokio::join!(
            Connect::framed::<_, _, RwLock<u64>, RwLock<u64>, codec::Default>(
                Cfg::default(),
                net.a2b.sink(),
                net.b2a.stream()
            ),
            Connect::framed::<_, _, RwLock<u64>, RwLock<u64>, codec::Default>(
                Cfg::default(),
                net.b2a.sink(),
                net.a2b.stream()
            ),
        );
        let (Ok((conn_a, mut tx_a, _rx_a)), Ok((conn_b, _tx_b, mut rx_b))): (
            Result<(_, base::Sender<RwLock<u64>>, base::Receiver<RwLock<u64>>), _>,
            Result<(_, base::Sender<RwLock<u64>>, base::Receiver<RwLock<u64>>), _>,
        ) = (a, b) else {
            return bad(vec![]);
        };
        conn.push(tokio::spawn(async move { let _ = conn_a.await; }));
        conn.push(tokio::spawn(async move { let _ = conn_b.await; }));
        for _ in 1..nk {
            let (s, r) = tokio::join!(tx_a.send(owner.rw_lock()), rx_b.recv());
            match (s, r) {
                (Ok(()), Ok(Some(l))) => locks.push(l),
                _ => return bad(vec![]),
            }
        }
        barrier().await;
        // keep the base channel alive for the whole case
        conn.push(tokio::spawn(async move {
            let _keep = (tx_a, _rx_a, _tx_b, rx_b);
            std::future::pending::<()>().await;
        }));
    }
    let sh = Arc::new(Shared { st: Mutex::new(vec![St::Idle; ncli]), hist: Mutex::new(Vec::new()) });
    let mut txs = Vec::new();
    let mut tasks = Vec::new();
    for i in 0..ncli {
        let (tx, rx) = mpsc::unbounded_channel();
        txs.push(tx);
        tasks.push(tokio::spawn(actor(i, locks[c.cache_of[i]].clone(), rx, sh.clone())));
    }
    if c.kind == 1 {
        remoc::exec::verif::set_defer_seed(c.seed);
    }
    let send = |op: u128, cl: usize, arg: u64| {
        let cmd = match op {
            0 => Cmd::Read,
            1 => Cmd::Write,
            2 => Cmd::Release,
            3 => Cmd::Commit(arg),
            6 => Cmd::Cancel,
            _ => Cmd::DropW,
        };
        // the status changes with the command so that a second command in a race case sees it
        let _ = txs[cl].send(cmd);
    };
    let mut obs = Vec::new();
    for &(op, cl, arg) in &c.ops {
        if op == 5 {
            if arg == 0 {
                barrier().await;
            } else {
                for _ in 0..arg.min(50) {
                    tokio::task::yield_now().await;
                }
            }
            continue;
        }
        if valid(c.kind, op, sh.get(cl)) {
            // mark the status at once: the actor has not run yet
            match op {
                0 => sh.set(cl, St::PendR),
                1 => sh.set(cl, St::PendW),
                3 => sh.set(cl, St::PendC),
                _ => {}
            }
            send(op, cl, arg);
        }
        if c.kind == 0 || c.kind == 3 || c.kind == 4 {
            barrier().await;
            obs.push(sh.st.lock().unwrap().clone());
        }
    }
    barrier().await;
    remoc::exec::verif::set_defer_seed(0);
    // drain: release every guard (write guards are dropped) until nothing is held any more
    for _ in 0..(2 * ncli + 2) {
        let st = sh.st.lock().unwrap().clone();
        let mut any = false;
        for (i, s) in st.iter().enumerate() {
            match s {
                St::HoldR(_) => {
                    send(2, i, 0);
                    any = true;
                }
                St::HoldW(_) => {
                    send(4, i, 0);
                    any = true;
                }
                _ => {}
            }
        }
        barrier().await;
        if !any {
            break;
        }
    }
    let fin = sh.st.lock().unwrap().clone();
    // a last read through a fresh clone of the local lock
    let l = owner.rw_lock();
    let h = tokio::spawn(async move { l.read().await.ok().map(|g| *g) });
    barrier().await;
    let last_read = if h.is_finished() { h.await.ok().flatten() } else { None };
    for t in tasks.iter().chain(conn.iter()) {
        t.abort();
    }
    let hist = sh.hist.lock().unwrap().clone();
    Trace { obs, hist, fin, last_read, setup_ok: true }
}

/// The property stated directly on the recorded history (independent of the model).
/// Returns (verdict, deadlock-only flag).
///  E  exclusion: a write guard never overlaps any other guard (recorded acquisition happens after,
///     recorded release before the real one, so a recorded overlap is a real one);
///  D  durability: in guard order every write guard shows the value of the last commit before it
///     (a dropped guard changes nothing), and so does a read after the end;
///  F  freshness: a read's value is the initial value or a committed one, and was the latest
///     committed at some instant between its invocation and its return, where commit k takes effect
///     between its invocation and its return;
///  P  progress: after all guards have been released no request is still pending.
/// A cancelled request (its future dropped while pending, `CancelR`/`CancelW`) must be without any
/// effect: it never holds a guard and commits nothing, so E, D, F, P are stated on the remaining
/// events unchanged -- in particular a guard that was held when a request was cancelled still
/// excludes every later write guard, and requests issued after a cancellation must still be served.
fn oracle(c: &Case, t: &Trace) -> (String, bool) {
    if !t.setup_ok {
        return ("FAIL: could not set up the connection / move the locks".into(), false);
    }
    let ncli = c.cache_of.len();
    if t.hist.iter().any(|e| matches!(e, Ev::Err(_))) {
        return ("FAIL: a lock operation returned an error although the owner lives".into(), false);
    }
    // E
    let mut held_r = vec![false; ncli];
    let mut held_w: Option<usize> = None;
    for (i, e) in t.hist.iter().enumerate() {
        match *e {
            Ev::RespR(cl, _) => {
                if let Some(w) = held_w {
                    return (format!("FAIL: E event {i}: client {cl} got a read guard while client {w} holds a write guard"), false);
                }
                held_r[cl] = true;
            }
            Ev::RelR(cl) => held_r[cl] = false,
            Ev::RespW(cl, _) => {
                if let Some(w) = held_w {
                    return (format!("FAIL: E event {i}: client {cl} got a write guard while client {w} holds one"), false);
                }
                if let Some(r) = held_r.iter().position(|x| *x) {
                    return (format!("FAIL: E event {i}: client {cl} got a write guard while client {r} holds a read guard"), false);
                }
                held_w = Some(cl);
            }
            Ev::InvC(cl, _) | Ev::DropW(cl) => {
                if held_w == Some(cl) {
                    held_w = None;
                }
            }
            _ => {}
        }
    }
    // D: commits in guard order; (value, invoked at, returned at)
    let mut commits: Vec<(u64, usize, usize)> = vec![(c.v0, 0, 0)];
    let mut exp = c.v0;
    for (i, e) in t.hist.iter().enumerate() {
        match *e {
            Ev::RespW(cl, v) => {
                if v != exp {
                    return (format!("FAIL: D event {i}: write guard of client {cl} shows {v}, last committed value is {exp}"), false);
                }
            }
            Ev::InvC(cl, v) => {
                let ret = t.hist.iter().enumerate().skip(i).find(|(_, x)| **x == Ev::RespC(cl)).map(|(j, _)| j);
                commits.push((v, i, ret.unwrap_or(usize::MAX)));
                exp = v;
            }
            _ => {}
        }
    }
    // F
    for (i, e) in t.hist.iter().enumerate() {
        if let Ev::RespR(cl, v) = *e {
            let s = t.hist[..i].iter().rposition(|x| *x == Ev::InvR(cl)).unwrap_or(0);
            // the last commit with that value (generated values are distinct)
            let Some(k) = commits.iter().rposition(|x| x.0 == v) else {
                return (format!("FAIL: F event {i}: client {cl} read {v}, which was never committed"), false);
            };
            let inv_k = commits[k].1;
            if k > 0 && inv_k > i {
                return (format!("FAIL: F event {i}: client {cl} read {v} before its commit was invoked"), false);
            }
            if let Some(next) = commits.get(k + 1) {
                if next.2 < s {
                    return (
                        format!("FAIL: F event {i}: client {cl} read {v} although the commit of {} had returned before the read started", next.0),
                        false,
                    );
                }
            }
        }
    }
    // P
    let pend: Vec<usize> = (0..ncli).filter(|i| !matches!(t.fin[*i], St::Idle)).collect();
    if !pend.is_empty() {
        let rd = pend.iter().any(|i| t.fin[*i] == St::PendR);
        let wr = pend.iter().any(|i| t.fin[*i] == St::PendW);
        return (
            format!("FAIL: P: after every guard was released clients {pend:?} are still pending ({:?})", t.fin),
            rd && wr,
        );
    }
    if commits.iter().any(|x| x.2 == usize::MAX) {
        return ("FAIL: P: a commit never returned".into(), false);
    }
    match t.last_read {
        Some(v) if v == exp => {}
        Some(v) => return (format!("FAIL: D: a read after the end shows {v}, last committed value is {exp}"), false),
        None => return ("FAIL: P: a read after the end did not complete".into(), false),
    }
    ("ok".into(), false)
}

fn st_nums(s: St, out: &mut Vec<u128>) {
    let (a, b) = match s {
        St::Idle => (0, 0),
        St::HoldR(v) => (1, v),
        St::HoldW(v) => (2, v),
        St::PendR => (3, 0),
        St::PendW => (4, 0),
        St::PendC => (5, 0),
        St::Error => (6, 0),
    };
    out.push(a);
    out.push(b as u128);
}

fn signature(c: &Case, t: &Trace, f5: bool) -> String {
    let mut s = String::new();
    if f5 {
        s.push_str("F5:");
    }
    s.push_str(match c.kind {
        0 => "bar",
        1 => "race",
        3 => "cbar",
        4 => "wbar",
        _ => "mt",
    });
    let nk = c.cache_of.iter().max().unwrap() + 1;
    let shared = (0..nk).any(|k| c.cache_of.iter().filter(|x| **x == k).count() > 1);
    s.push_str(&format!(":k{nk}{}", if shared { "s" } else { "" }));
    let h = &t.hist;
    let cnt = |f: &dyn Fn(&Ev) -> bool| h.iter().filter(|e| f(e)).count();
    let nr = cnt(&|e| matches!(e, Ev::RespR(..)));
    let nw = cnt(&|e| matches!(e, Ev::RespW(..)));
    let nc = cnt(&|e| matches!(e, Ev::RespC(..)));
    let nd = cnt(&|e| matches!(e, Ev::DropW(..)));
    let b = |n: usize| if n >= 3 { 3 } else { n };
    s.push_str(&format!(":r{}w{}c{}d{}", b(nr), b(nw), b(nc), b(nd)));
    // a write request that had to wait for a read guard / a read that had to wait
    let mut held = 0usize;
    let (mut wwait, mut rwait, mut multi, mut newval) = (false, false, false, false);
    for (i, e) in h.iter().enumerate() {
        match *e {
            Ev::RespR(_, v) => {
                held += 1;
                if held > 1 {
                    multi = true;
                }
                if v != c.v0 {
                    newval = true;
                }
            }
            Ev::RelR(_) => held = held.saturating_sub(1),
            Ev::InvW(_) if held > 0 => wwait = true,
            Ev::InvR(cl) => {
                // pending across another client's event
                if let Some(j) = h[i..].iter().position(|x| matches!(x, Ev::RespR(c2, _) if *c2 == cl)) {
                    if h[i..i + j].iter().any(|x| matches!(x, Ev::InvC(..) | Ev::DropW(..) | Ev::RelR(..))) {
                        rwait = true;
                    }
                }
            }
            _ => {}
        }
    }
    for (f, n) in [(wwait, ":ww"), (rwait, ":rw"), (multi, ":multi"), (newval, ":nv")] {
        if f {
            s.push_str(n);
        }
    }
    if t.obs.iter().any(|o| o.iter().any(|x| *x == St::PendR)) {
        s.push_str(":pr");
    }
    // cancellations that took effect: of a read / of a write; "g": while some guard was held;
    // "n": a later request of any client was granted
    let xr = cnt(&|e| matches!(e, Ev::CancelR(..)));
    let xw = cnt(&|e| matches!(e, Ev::CancelW(..)));
    if xr + xw > 0 {
        s.push_str(&format!(":x{}{}", if xr > 0 { "r" } else { "" }, if xw > 0 { "w" } else { "" }));
        let mut guards = 0usize;
        let (mut xg, mut seen_x, mut xn) = (false, false, false);
        for e in h.iter() {
            match *e {
                Ev::RespR(..) | Ev::RespW(..) => {
                    guards += 1;
                    if seen_x {
                        xn = true;
                    }
                }
                Ev::RelR(..) | Ev::InvC(..) | Ev::DropW(..) => guards = guards.saturating_sub(1),
                Ev::CancelR(..) | Ev::CancelW(..) => {
                    seen_x = true;
                    if guards > 0 {
                        xg = true;
                    }
                }
                _ => {}
            }
        }
        if xg {
            s.push('g');
        }
        if xn {
            s.push('n');
        }
    }
    if t.fin.iter().any(|x| *x != St::Idle) {
        s.push_str(":stuck");
    }
    s
}

/// kind 2: the F5 race on a multi-thread runtime.  Reader A (cold) holds a guard, a writer makes the
/// owner invalidate, reader B (same cache) reads as soon as the invalidation is visible, A releases.
fn run_mt(iters: usize, v0: u64) -> (Vec<u128>, String, String) {
    let rt = tokio::runtime::Builder::new_multi_thread().worker_threads(4).enable_time().build().unwrap();
    let mut hang_at = None;
    let mut bad_value = None;
    for it in 0..iters.clamp(1, 200) {
        let r = rt.block_on(async {
            let owner: Owner<u64> = Owner::new(v0);
            let lock = owner.rw_lock();
            let a = lock.read().await.unwrap();
            let l2 = lock.clone();
            let w = tokio::spawn(async move {
                let mut g = l2.write().await.unwrap();
                *g += 1;
                g.commit().await.unwrap();
            });
            a.invalidated().await;
            let l3 = lock.clone();
            let b = tokio::spawn(async move { *l3.read().await.unwrap() });
            tokio::task::yield_now().await;
            drop(a);
            let res = tokio::time::timeout(Duration::from_millis(1500), async {
                let _ = w.await;
                b.await.ok()
            })
            .await;
            std::mem::forget(owner);
            res
        });
        match r {
            Err(_) => {
                hang_at = Some(it);
                break;
            }
            Ok(Some(v)) if v != v0 && v != v0 + 1 => {
                bad_value = Some(v);
                break;
            }
            _ => {}
        }
    }
    rt.shutdown_background();
    match (hang_at, bad_value) {
        (Some(it), _) => (
            vec![1],
            "F5:mt:hang".into(),
            format!("FAIL: P: iteration {it} of the read/invalidate/read race on a 4-worker runtime: writer and second reader still pending 1.5 s after the first guard was released"),
        ),
        (_, Some(v)) => (vec![1], "mt:value".into(), format!("FAIL: F: second reader saw {v}")),
        _ => (vec![1], "mt:nohang".into(), "ok".into()),
    }
}

/// returns (observation to append to the input, output, signature, oracle verdict)
pub fn exec(inp: &[u128]) -> (Vec<u128>, Vec<u128>, String, String) {
    let Some(c) = parse(inp) else { return (vec![], vec![98], "unparsable".into(), "ok".into()) };
    if c.kind == 2 {
        let (o, s, v) = run_mt(c.ops.len(), c.v0);
        return (vec![], o, s, v);
    }
    let (txr, rxr) = std::sync::mpsc::channel();
    let c = Arc::new(c);
    let c2 = c.clone();
    std::thread::spawn(move || {
        let rt = tokio::runtime::Builder::new_current_thread().enable_time().start_paused(true).build().unwrap();
        let t = rt.block_on(run_case(&c2));
        let _ = txr.send(t);
    });
    let t = match rxr.recv_timeout(Duration::from_secs(20)) {
        Ok(t) => t,
        Err(_) => {
            return (vec![], vec![95], "livelock".into(), "FAIL: case did not reach quiescence within 20 s of wall time".into())
        }
    };
    let (verdict, f5) = oracle(&c, &t);
    let mut obs = Vec::new();
    if c.kind == 0 || c.kind == 4 {
        for o in &t.obs {
            for s in o {
                st_nums(*s, &mut obs);
            }
        }
    }
    (obs, vec![1], signature(&c, &t, f5), verdict)
}

/// the witness of `C17_progress_refuted` (Props/C17.v) as API calls; `k` = cache used by the readers
fn f5_script(k: u128, wk: u128, v: u128) -> Vec<u128> {
    // clients: 0 = C, 1 = W, 2 = A, 3 = B
    let mut x = vec![0, 5, 0, 4, k, wk, k, k, 8];
    for (op, c, a) in [(0, 0, 0), (1, 1, 0), (0, 2, 0), (0, 3, 0), (2, 0, 0), (3, 1, v), (1, 1, 0), (2, 2, 0)] {
        x.extend([op, c, a]);
    }
    x
}

/// the witness of `C17_progress_refuted_clear_if_stale` as a race case: same prefix (barriered), then
/// A's release and W's second write request without a barrier in between, so that B takes the cache
/// write lock while the cached copy is still valid and the write request overtakes B's read request
fn f5_stale_script(k: u128, wk: u128, v: u128) -> Vec<u128> {
    let mut x = vec![1, 5, 0, 4, k, wk, k, k, 14];
    for (op, c, a) in [(0, 0, 0), (1, 1, 0), (0, 2, 0), (0, 3, 0), (2, 0, 0), (3, 1, v)] {
        x.extend([op, c, a]);
        x.extend([5, 0, 0]);
    }
    x.extend([2, 2, 0, 1, 1, 0]);
    x
}

pub fn gen(r: &mut Rng, i: usize) -> Vec<Vec<u128>> {
    if i % 64 == 63 {
        // multi-thread F5 race: the op list only counts the iterations
        let n = r.range(3, 6) as usize;
        let mut v: Vec<u128> = vec![2, 5, 0, 1, 0, n as u128];
        for _ in 0..n {
            v.extend([5, 0, 1]);
        }
        return vec![v];
    }
    if i % 16 == 15 {
        let k = r.below(2) as u128;
        let wk = r.below(2) as u128;
        let v = 100 + r.below(50) as u128;
        if r.chance(1, 3) {
            return vec![f5_stale_script(k, wk, v)];
        }
        return vec![f5_script(k, wk, v)];
    }
    let race = i % 4 == 3;
    // cancellation cases: every 8th case barriered ("cbar"), and half of the race cases
    let cbar = i % 8 == 5;
    // ... and every 8th barriered with cancellations of write requests only, accepted against the model
    let wbar = i % 8 == 1;
    let cancels = cbar || wbar || (race && r.chance(1, 2));
    let ncli = r.range(2, 4) as usize;
    let nk = match r.below(4) {
        0 => 1,
        1 | 2 => 2,
        _ => 3,
    };
    let mut cache_of: Vec<u64> = (0..ncli).map(|_| r.below(nk)).collect();
    // renumber caches densely so that every cache number below the maximum is used by the setup
    let mut used: Vec<u64> = cache_of.clone();
    used.sort();
    used.dedup();
    for x in cache_of.iter_mut() {
        *x = used.iter().position(|u| u == x).unwrap() as u64;
    }
    // a remote-only case needs cache numbers >= 1: shift sometimes
    if r.chance(1, 4) && *cache_of.iter().max().unwrap() < 3 {
        for x in cache_of.iter_mut() {
            *x += 1;
        }
    }
    if wbar {
        // all clients on ONE cache (local or remote): with more than four requests in a case (clients
        // are reused after a cancellation) write requests of different endpoints can pile up behind
        // the full request channel (capacity 1) and then reach the owner in another order than they
        // were invoked (a local sender overtakes a request still held by the remote forwarder); the
        // model has one FIFO of write requests.  Requests over one path arrive in order.
        let k = r.below(2);
        for x in cache_of.iter_mut() {
            *x = k;
        }
    }
    let v0 = r.range(1, 9);
    let nops = r.range(4, 18) as usize;
    // guessed status per client: 0 idle, 1 read requested, 2 write requested
    let mut guess = vec![0u8; ncli];
    let mut ops: Vec<(u64, u64, u64)> = Vec::new();
    let mut next_val = 100u64;
    // cancellation cases: a coarse simulation (one FIFO of requests, a write needs every guard
    // gone, a read no write ahead of it) tells which requests are probably pending; those are
    // cancelled 2 times out of 3, and further requests follow
    let mut fifo: Vec<(usize, bool, bool)> = Vec::new(); // (client, write, granted)
    fn regrant(fifo: &mut [(usize, bool, bool)]) {
        let mut any_w = false;
        let mut any = false;
        for e in fifo.iter_mut() {
            if !e.2 {
                if e.1 {
                    if any {
                        break;
                    }
                    e.2 = true;
                } else {
                    if any_w {
                        break;
                    }
                    e.2 = true;
                }
            }
            any = true;
            any_w |= e.1;
        }
    }
    for _ in 0..(if cancels { nops } else { 0 }) {
        let mut c = r.below(ncli as u64) as usize;
        let mut pos = fifo.iter().position(|e| e.0 == c);
        if let Some(p) = pos {
            if !fifo[p].2 {
                if (fifo[p].1 || !wbar) && r.chance(2, 3) {
                    ops.push((6, c as u64, 0));
                    fifo.remove(p);
                    regrant(&mut fifo);
                    if race {
                        match r.below(4) {
                            0 => ops.push((5, 0, 0)),
                            1 => ops.push((5, 0, r.range(1, 4))),
                            _ => {}
                        }
                    }
                    continue;
                }
                // otherwise let a client that holds a guard go on
                let held: Vec<usize> = fifo.iter().filter(|e| e.2).map(|e| e.0).collect();
                if held.is_empty() {
                    continue;
                }
                c = held[r.below(held.len() as u64) as usize];
                pos = fifo.iter().position(|e| e.0 == c);
            }
        }
        match pos {
            None => {
                let w = !r.chance(3, 5);
                ops.push((w as u64, c as u64, 0));
                fifo.push((c, w, false));
            }
            Some(p) => {
                if r.chance(1, 12) {
                    // a cancellation that comes too late: skipped
                    ops.push((6, c as u64, 0));
                }
                if !fifo[p].1 {
                    ops.push((2, c as u64, 0));
                } else if r.chance(3, 4) {
                    next_val += 1;
                    ops.push((3, c as u64, next_val));
                } else {
                    ops.push((4, c as u64, 0));
                }
                fifo.remove(p);
            }
        }
        regrant(&mut fifo);
        if race {
            match r.below(4) {
                0 => ops.push((5, 0, 0)),
                1 => ops.push((5, 0, r.range(1, 4))),
                _ => {}
            }
        }
    }
    for _ in 0..(if cancels { 0 } else { nops }) {
        let c = r.below(ncli as u64) as usize;
        match guess[c] {
            0 => {
                if r.chance(3, 5) {
                    ops.push((0, c as u64, 0));
                    guess[c] = 1;
                } else {
                    ops.push((1, c as u64, 0));
                    guess[c] = 2;
                }
            }
            1 => {
                ops.push((2, c as u64, 0));
                guess[c] = 0;
            }
            _ => {
                if r.chance(3, 4) {
                    next_val += 1;
                    ops.push((3, c as u64, next_val));
                } else {
                    ops.push((4, c as u64, 0));
                }
                guess[c] = 0;
            }
        }
        if race {
            match r.below(4) {
                0 => ops.push((5, 0, 0)),
                1 => ops.push((5, 0, r.range(1, 4))),
                _ => {}
            }
        }
    }
    let seed = if race && r.chance(2, 3) { r.next() | 1 } else { 0 };
    let kind: u128 = if cbar {
        3
    } else if wbar {
        4
    } else {
        race as u128
    };
    let mut v: Vec<u128> = vec![kind, v0 as u128, seed as u128, ncli as u128];
    v.extend(cache_of.iter().map(|x| *x as u128));
    v.push(ops.len() as u128);
    for (o, c, a) in ops {
        v.extend([o as u128, c as u128, a as u128]);
    }
    vec![v]
}

pub fn run(seed: u64, count: usize, extra: &[String], out: &mut impl std::io::Write) {
    let seed = Rng::new(seed ^ 0xC17).next();
    crate::drive_accept(COMP, seed, count, extra, out, gen, exec);
}
