//! C20 (handles): drives REAL `remoc::robj::handle::Handle<T>` values over three endpoints joined in
//! a triangle by three real connections (`remoc::Connect::framed` over the harness transport, auto
//! delivery, default = large receive buffers).  Connection k joins endpoints k and (k+1) mod 3.
//!
//! Input (after the component number): (op a b)*
//!   0 new         a = endpoint, b = keep + 2*type   (keep 1: `Handle::new`, 0: `Handle::provided`)
//!   1 clone       a = slot
//!   2 drop        a = slot
//!   3 cast        a = slot, b = type (0 | 1)
//!   4 send        a = slot, b = connection           (to the other end of the connection; consumes the slot)
//!   5 recv        a = connection, b = endpoint       (new slot)
//!   6 as_ref  7 as_mut  8 into_inner   a = slot
//!   9 provider drop   10 provider keep   a = value
//!   11 send big   like 4, inside a message larger than max_data_size with the handle ahead of the bulk (serialized twice)
//! Slots are numbered in order of creation (new, clone, recv), values in order of `new`.
//! Output per op: code arg alive
//!   code 0 unit | 1 handle (arg = slot) | 2 value (arg = value id read from the REAL value) | 3 Unknown |
//!        4 MismatchedType | 5 nothing to receive | 6 not applicable | 7 send/recv error | 8 panic
//!   alive = sum of 2^v over the values whose destructor has not run (at quiescence after the op)
use crate::{rng::Rng, transport::Net};
use remoc::{
    codec,
    rch::base,
    robj::handle::{Handle, HandleError, Provider},
    Cfg, Connect,
};
use serde::{Deserialize, Serialize};
use std::{
    collections::VecDeque,
    future::Future,
    sync::{
        atomic::{AtomicUsize, Ordering},
        Arc,
    },
    time::Duration,
};

pub const COMP: u128 = 20;
const MAXV: usize = 16;

/// The value behind a handle: knows its number and counts its destructor runs.
pub struct Val<const T: u8> {
    id: usize,
    ctr: Arc<Vec<AtomicUsize>>,
}
impl<const T: u8> Drop for Val<T> {
    fn drop(&mut self) {
        self.ctr[self.id].fetch_add(1, Ordering::SeqCst);
    }
}

/// `Handle<T>: Clone` is derived and therefore asks for `T: Clone`, although cloning a handle never
/// clones the value; a call would be a defect.
impl<const T: u8> Clone for Val<T> {
    fn clone(&self) -> Self {
        panic!("the value behind a handle was cloned")
    }
}

#[derive(Serialize, Deserialize)]
enum Item {
    A(Handle<Val<0>>),
    B(Handle<Val<1>>),
}

/// what travels: the handle first, then padding (empty, or more than max_data_size)
#[derive(Serialize, Deserialize)]
struct Msg {
    item: Item,
    pad: Vec<u8>,
}

async fn barrier() {
    for _ in 0..2 {
        tokio::time::sleep(Duration::from_nanos(1)).await;
    }
}

/// Runs the future up to quiescence; `None` if it is still pending then (it is dropped).
async fn upto_quiescence<T>(fut: impl Future<Output = T>) -> Option<T> {
    tokio::pin!(fut);
    for _ in 0..2 {
        tokio::select! {
            biased;
            r = &mut fut => return Some(r),
            _ = tokio::time::sleep(Duration::from_nanos(1)) => {}
        }
    }
    None
}

/// like `upto_quiescence`, for operations that may run (de)serializer threads (messages above max_data_size):
/// while such a thread is at work the paused clock does not advance, so this simply waits for them
async fn big_upto_quiescence<T>(fut: impl Future<Output = T>) -> Option<T> {
    tokio::pin!(fut);
    for _ in 0..60 {
        tokio::select! {
            biased;
            r = &mut fut => return Some(r),
            _ = tokio::time::sleep(Duration::from_nanos(1)) => {}
        }
    }
    None
}

#[derive(Debug, Clone, Copy, PartialEq)]
pub enum Res {
    Unit,
    Handle(usize),
    Val(usize),
    Unknown,
    Mismatch,
    Empty,
    NotApplicable,
    ChanErr,
}

fn res_nums(r: Res) -> (u128, u128) {
    match r {
        Res::Unit => (0, 0),
        Res::Handle(h) => (1, h as u128),
        Res::Val(v) => (2, v as u128),
        Res::Unknown => (3, 0),
        Res::Mismatch => (4, 0),
        Res::Empty => (5, 0),
        Res::NotApplicable => (6, 0),
        Res::ChanErr => (7, 0),
    }
}

fn herr(e: HandleError) -> Res {
    match e {
        HandleError::Unknown => Res::Unknown,
        HandleError::MismatchedType(_) => Res::Mismatch,
    }
}

pub struct Trace {
    pub results: Vec<Res>,
    /// destructor counts per value after every op
    pub counts: Vec<Vec<usize>>,
    /// destructor counts after the final clean-up (everything dropped)
    pub final_counts: Vec<usize>,
    pub nvals: usize,
}

/// ends of connection k: (k, (k+1) mod 3); side 0 is endpoint k
fn side_of(c: usize, e: usize) -> Option<usize> {
    if c > 2 {
        None
    } else if e == c {
        Some(0)
    } else if e == (c + 1) % 3 {
        Some(1)
    } else {
        None
    }
}
fn other_end(c: usize, side: usize) -> usize {
    if side == 0 {
        (c + 1) % 3
    } else {
        c
    }
}

async fn run_case(ops: &[(u128, u128, u128)]) -> Option<Trace> {
    // the first streamed (de)serialization of a process probes for threads with a plain std thread, which the paused
    // clock does not wait for: do it once here
    let _ = remoc::exec::are_threads_available().await;
    let mut txs: Vec<Vec<base::Sender<Msg>>> = Vec::new();
    let mut rxs: Vec<Vec<base::Receiver<Msg>>> = Vec::new();
    let mut muxes = Vec::new();
    let mut nets = Vec::new();
    for _ in 0..3 {
        let net = Net::new(true);
        let (a, b) = tokio::join!(
            Connect::framed::<_, _, Msg, Msg, codec::Default>(Cfg { max_data_size: 2048, ..Cfg::default() }, net.a2b.sink(), net.b2a.stream()),
            Connect::framed::<_, _, Msg, Msg, codec::Default>(Cfg { max_data_size: 2048, ..Cfg::default() }, net.b2a.sink(), net.a2b.stream()),
        );
        let (ca, ta, ra) = a.ok()?;
        let (cb, tb, rb) = b.ok()?;
        muxes.push(tokio::spawn(ca));
        muxes.push(tokio::spawn(cb));
        txs.push(vec![ta, tb]);
        rxs.push(vec![ra, rb]);
        nets.push(net);
    }
    barrier().await;

    let ctr: Arc<Vec<AtomicUsize>> = Arc::new((0..MAXV).map(|_| AtomicUsize::new(0)).collect());
    let mut slots: Vec<Option<Item>> = Vec::new();
    let mut slot_ep: Vec<usize> = Vec::new();
    let mut providers: Vec<Option<Provider>> = Vec::new();
    let mut nvals = 0usize;
    let mut results = Vec::new();
    let mut counts = Vec::new();

    for &(op, a, b) in ops {
        let a = a as usize;
        let b = b as usize;
        let res = match op {
            0 => {
                if nvals >= MAXV || a > 2 {
                    Res::NotApplicable
                } else {
                    let id = nvals;
                    nvals += 1;
                    let keep = b & 1 == 1;
                    let item = if b & 2 == 0 {
                        let v = Val::<0> { id, ctr: ctr.clone() };
                        if keep {
                            providers.push(None);
                            Item::A(Handle::new(v))
                        } else {
                            let (h, p) = Handle::provided(v);
                            providers.push(Some(p));
                            Item::A(h)
                        }
                    } else {
                        let v = Val::<1> { id, ctr: ctr.clone() };
                        if keep {
                            providers.push(None);
                            Item::B(Handle::new(v))
                        } else {
                            let (h, p) = Handle::provided(v);
                            providers.push(Some(p));
                            Item::B(h)
                        }
                    };
                    slots.push(Some(item));
                    slot_ep.push(a);
                    Res::Handle(slots.len() - 1)
                }
            }
            1 => match slots.get(a).and_then(|s| s.as_ref()) {
                Some(it) => {
                    let c = match it {
                        Item::A(h) => Item::A(h.clone()),
                        Item::B(h) => Item::B(h.clone()),
                    };
                    let e = slot_ep[a];
                    slots.push(Some(c));
                    slot_ep.push(e);
                    Res::Handle(slots.len() - 1)
                }
                None => Res::NotApplicable,
            },
            2 => match slots.get_mut(a).and_then(|s| s.take()) {
                Some(it) => {
                    drop(it);
                    Res::Unit
                }
                None => Res::NotApplicable,
            },
            3 => match slots.get_mut(a).and_then(|s| s.take()) {
                Some(it) => {
                    let n = match (it, b) {
                        (Item::A(h), 0) => Item::A(h.cast::<Val<0>>()),
                        (Item::A(h), _) => Item::B(h.cast::<Val<1>>()),
                        (Item::B(h), 0) => Item::A(h.cast::<Val<0>>()),
                        (Item::B(h), _) => Item::B(h.cast::<Val<1>>()),
                    };
                    slots[a] = Some(n);
                    Res::Unit
                }
                None => Res::NotApplicable,
            },
            4 | 11 => {
                let live = slots.get(a).map(|s| s.is_some()).unwrap_or(false);
                match (live, if live { side_of(b, slot_ep[a]) } else { None }) {
                    (true, Some(side)) => {
                        let it = slots[a].take().unwrap();
                        let pad = if op == 11 { vec![0x5a; 5000] } else { Vec::new() };
                        match big_upto_quiescence(txs[b][side].send(Msg { item: it, pad })).await {
                            Some(Ok(())) => Res::Unit,
                            other => {
                                if std::env::var_os("VH_DEBUG").is_some() {
                                    eprintln!("send: {:?}", other.map(|r| r.map_err(|e| e.to_string())));
                                }
                                Res::ChanErr
                            }
                        }
                    }
                    _ => Res::NotApplicable,
                }
            }
            5 => match side_of(a, b) {
                Some(side) => match big_upto_quiescence(rxs[a][side].recv()).await {
                    Some(Ok(Some(m))) => {
                        slots.push(Some(m.item));
                        slot_ep.push(b);
                        Res::Handle(slots.len() - 1)
                    }
                    None => Res::Empty,
                    _ => Res::ChanErr,
                },
                None => Res::Empty,
            },
            6 => match slots.get(a).and_then(|s| s.as_ref()) {
                Some(Item::A(h)) => match upto_quiescence(h.as_ref()).await {
                    Some(Ok(r)) => Res::Val(r.id),
                    Some(Err(e)) => herr(e),
                    None => Res::ChanErr,
                },
                Some(Item::B(h)) => match upto_quiescence(h.as_ref()).await {
                    Some(Ok(r)) => Res::Val(r.id),
                    Some(Err(e)) => herr(e),
                    None => Res::ChanErr,
                },
                None => Res::NotApplicable,
            },
            7 => match slots.get_mut(a).and_then(|s| s.as_mut()) {
                Some(Item::A(h)) => match upto_quiescence(h.as_mut()).await {
                    Some(Ok(r)) => Res::Val(r.id),
                    Some(Err(e)) => herr(e),
                    None => Res::ChanErr,
                },
                Some(Item::B(h)) => match upto_quiescence(h.as_mut()).await {
                    Some(Ok(r)) => Res::Val(r.id),
                    Some(Err(e)) => herr(e),
                    None => Res::ChanErr,
                },
                None => Res::NotApplicable,
            },
            8 => match slots.get_mut(a).and_then(|s| s.take()) {
                Some(Item::A(h)) => match upto_quiescence(h.into_inner()).await {
                    Some(Ok(v)) => Res::Val(v.id),
                    Some(Err(e)) => herr(e),
                    None => Res::ChanErr,
                },
                Some(Item::B(h)) => match upto_quiescence(h.into_inner()).await {
                    Some(Ok(v)) => Res::Val(v.id),
                    Some(Err(e)) => herr(e),
                    None => Res::ChanErr,
                },
                None => Res::NotApplicable,
            },
            9 => match providers.get_mut(a).and_then(|p| p.take()) {
                Some(p) => {
                    drop(p);
                    Res::Unit
                }
                None => Res::NotApplicable,
            },
            10 => match providers.get_mut(a).and_then(|p| p.take()) {
                Some(p) => {
                    p.keep();
                    Res::Unit
                }
                None => Res::NotApplicable,
            },
            _ => return None,
        };
        barrier().await;
        results.push(res);
        counts.push((0..nvals).map(|v| ctr[v].load(Ordering::SeqCst)).collect());
    }

    // clean-up for the oracle: drop every provider and handle, receive and drop what is in flight
    providers.clear();
    slots.clear();
    barrier().await;
    for c in 0..3 {
        for side in 0..2 {
            while let Some(Ok(Some(it))) = upto_quiescence(rxs[c][side].recv()).await {
                drop(it);
                barrier().await;
            }
        }
    }
    barrier().await;
    let final_counts = (0..nvals).map(|v| ctr[v].load(Ordering::SeqCst)).collect();
    drop(txs);
    drop(rxs);
    for m in muxes {
        m.abort();
    }
    drop(nets);
    Some(Trace { results, counts, final_counts, nvals })
}

/// What the harness itself knows about a slot, without consulting the implementation or the model.
#[derive(Clone, Copy)]
struct Book {
    origin: usize,
    ep: usize,
    tag: usize,
    live: bool,
}

/// The property on the implementation trace:
/// H1 a value is obtained only through a handle that lives on the endpoint that created the value, has
///    the value's type, before the value was taken, and it is the value the handle was made for;
/// H2 no destructor runs twice;
/// H3 release: at quiescence, a value none of whose handles (anywhere, in flight included) is left, or
///    whose provider is dropped, has been destroyed -- unless a live handle on the creating endpoint
///    itself still refers to it;
/// H4 after everything is dropped every destructor has run exactly once.
fn oracle(ops: &[(u128, u128, u128)], t: &Trace) -> (String, Vec<&'static str>) {
    let mut feats: Vec<&'static str> = Vec::new();
    let mut feat = |f: &'static str| {
        if !feats.contains(&f) {
            feats.push(f)
        }
    };
    let mut book: Vec<Book> = Vec::new();
    let mut creator: Vec<usize> = Vec::new();
    let mut vtag: Vec<usize> = Vec::new();
    let mut taken: Vec<bool> = Vec::new();
    let mut prov: Vec<u8> = Vec::new(); // 0 alive, 1 kept, 2 dropped
    let mut hops: Vec<usize> = Vec::new(); // per slot: number of connections travelled
    let mut flight: Vec<Vec<VecDeque<(usize, usize, usize)>>> = vec![vec![VecDeque::new(), VecDeque::new()]; 3];
    for (k, (&(op, a, b), &r)) in ops.iter().zip(t.results.iter()).enumerate() {
        let a = a as usize;
        let b = b as usize;
        let live = |book: &Vec<Book>, s: usize| book.get(s).map(|x| x.live).unwrap_or(false);
        match op {
            0 => {
                if let Res::Handle(h) = r {
                    if h != book.len() {
                        return (format!("FAIL: op {k}: slot numbering"), feats);
                    }
                    creator.push(a);
                    vtag.push((b >> 1) & 1);
                    taken.push(false);
                    prov.push((b & 1) as u8);
                    book.push(Book { origin: creator.len() - 1, ep: a, tag: (b >> 1) & 1, live: true });
                    hops.push(0);
                }
            }
            1 => {
                if live(&book, a) {
                    let x = book[a];
                    book.push(x);
                    hops.push(hops[a]);
                    feat("clone");
                }
            }
            2 => {
                if live(&book, a) {
                    book[a].live = false;
                }
            }
            3 => {
                if live(&book, a) {
                    book[a].tag = b.min(1);
                    feat("cast");
                }
            }
            4 => {
                if live(&book, a) {
                    if let Some(side) = side_of(b, book[a].ep) {
                        book[a].live = false;
                        if r == Res::Unit {
                            flight[b][1 - side].push_back((book[a].origin, book[a].tag, hops[a] + 1));
                        } else {
                            return (format!("FAIL: op {k}: sending a handle failed ({r:?})"), feats);
                        }
                    }
                }
            }
            5 => {
                if let Some(side) = side_of(a, b) {
                    match (flight[a][side].pop_front(), r) {
                        (Some((origin, tag, h)), Res::Handle(_)) => {
                            book.push(Book { origin, ep: b, tag, live: true });
                            hops.push(h);
                            if h >= 2 {
                                feat("fwd");
                            }
                            if h >= 3 {
                                feat("fwd3");
                            }
                        }
                        (None, Res::Empty) => {}
                        (x, r) => {
                            return (format!("FAIL: op {k}: receive gave {r:?} with {} message(s) in flight", x.is_some() as u8), feats)
                        }
                    }
                }
            }
            6 | 7 | 8 => {
                if live(&book, a) {
                    let bk = book[a];
                    let home = bk.ep == creator[bk.origin];
                    if let Res::Val(x) = r {
                        if !home {
                            return (format!("FAIL: H1 op {k}: value {x} obtained on endpoint {} but created on {}", bk.ep, creator[bk.origin]), feats);
                        }
                        if bk.tag != vtag[bk.origin] {
                            return (format!("FAIL: H1 op {k}: value {x} obtained through a handle of another type"), feats);
                        }
                        if x != bk.origin {
                            return (format!("FAIL: H1 op {k}: handle made for value {} yielded value {x}", bk.origin), feats);
                        }
                        if taken[bk.origin] {
                            return (format!("FAIL: H1 op {k}: value {x} obtained after it was taken"), feats);
                        }
                        if hops[a] > 0 {
                            feat("back");
                        }
                    } else {
                        match r {
                            Res::Unknown if !home => feat("foreign"),
                            Res::Unknown if taken[bk.origin] => feat("aftertake"),
                            Res::Unknown if hops[a] > 0 => feat("homeunknown"),
                            Res::Mismatch => feat("mismatch"),
                            Res::Unknown => {}
                            _ => return (format!("FAIL: op {k}: access gave {r:?}"), feats),
                        }
                    }
                    if op == 8 {
                        book[a].live = false;
                        if matches!(r, Res::Val(_) | Res::Mismatch) {
                            taken[bk.origin] = true;
                            feat("take");
                        }
                    }
                }
            }
            9 | 10 => {
                if r == Res::Unit {
                    prov[a] = if op == 9 { 2 } else { 1 };
                    feat(if op == 9 { "provdrop" } else { "provkeep" });
                }
            }
            _ => {}
        }
        // H2, H3 at this quiescence
        for v in 0..creator.len() {
            let n = t.counts[k].get(v).copied().unwrap_or(0);
            if n > 1 {
                return (format!("FAIL: H2 op {k}: destructor of value {v} ran {n} times"), feats);
            }
            let local = book.iter().any(|x| x.live && x.origin == v && x.ep == creator[v]);
            let elsewhere = book.iter().any(|x| x.live && x.origin == v && x.ep != creator[v])
                || flight.iter().any(|c| c.iter().any(|q| q.iter().any(|m| m.0 == v)));
            if !local && (!elsewhere || prov[v] == 2) && n != 1 {
                return (
                    format!(
                        "FAIL: H3 op {k}: value {v} not released (handles elsewhere or in flight: {elsewhere}, provider state {})",
                        prov[v]
                    ),
                    feats,
                );
            }
            if prov[v] == 2 && local && n == 0 {
                feat("provlocal");
            }
            if prov[v] == 2 && elsewhere && n == 1 {
                feat("provrelease");
            }
        }
    }
    for (v, n) in t.final_counts.iter().enumerate() {
        if *n != 1 {
            return (format!("FAIL: H4: after dropping everything the destructor of value {v} ran {n} times"), feats);
        }
    }
    ("ok".into(), feats)
}

pub fn exec(inp: &[u128]) -> (Vec<u128>, String, String) {
    if inp.len() % 3 != 0 || inp.len() > 3 * 200 {
        return (vec![98], "malformed".into(), "ok".into());
    }
    let ops: Vec<(u128, u128, u128)> = inp.chunks(3).map(|c| (c[0], c[1], c[2])).collect();
    if ops.iter().any(|o| o.0 > 11 || o.1 > 1000 || o.2 > 1000) {
        return (vec![98], "malformed".into(), "ok".into());
    }
    let (txr, rxr) = std::sync::mpsc::channel();
    let ops2 = ops.clone();
    std::thread::spawn(move || {
        let rt = tokio::runtime::Builder::new_current_thread().enable_time().start_paused(true).build().unwrap();
        let r = std::panic::catch_unwind(std::panic::AssertUnwindSafe(|| rt.block_on(run_case(&ops2))));
        let _ = txr.send(r);
    });
    let t = match rxr.recv_timeout(Duration::from_secs(30)) {
        Ok(Ok(Some(t))) => t,
        Ok(Ok(None)) => return (vec![96], "setup-failed".into(), "FAIL: could not establish the connections".into()),
        Ok(Err(_)) => return (vec![8], "panic".into(), "FAIL: the implementation panicked".into()),
        Err(_) => return (vec![95], "hang".into(), "FAIL: case did not reach quiescence within 30 s of wall time".into()),
    };
    let mut out = Vec::new();
    for (k, r) in t.results.iter().enumerate() {
        let (c, a) = res_nums(*r);
        out.push(c);
        out.push(a);
        let mut mask = 0u128;
        for (v, n) in t.counts[k].iter().enumerate() {
            if *n == 0 {
                mask |= 1 << v;
            }
        }
        out.push(mask);
    }
    // the oracle does not distinguish a big send from a small one
    let ops_norm: Vec<(u128, u128, u128)> = ops.iter().map(|o| if o.0 == 11 { (4, o.1, o.2) } else { *o }).collect();
    let (verdict, feats) = oracle(&ops_norm, &t);
    let mut sig = String::from("handle");
    if t.nvals == 0 {
        sig.push_str(":novalue");
    }
    for f in [
        "clone", "cast", "fwd", "fwd3", "back", "foreign", "homeunknown", "mismatch", "take", "aftertake", "provdrop",
        "provkeep", "provlocal", "provrelease",
    ] {
        if feats.contains(&f) {
            sig.push(':');
            sig.push_str(f);
        }
    }
    (out, sig, verdict)
}

pub fn gen(r: &mut Rng, _i: usize) -> Vec<Vec<u128>> {
    // bookkeeping of the generator: live slots with their endpoint, messages in flight per (conn, side)
    let mut ops: Vec<(u64, u64, u64)> = Vec::new();
    let mut slot_ep: Vec<u64> = Vec::new();
    let mut live: Vec<bool> = Vec::new();
    let mut nvals = 0u64;
    let mut provided: Vec<u64> = Vec::new();
    let mut flight = [[0u64; 2]; 3];
    let nv = r.range(1, 3);
    for _ in 0..nv {
        let e = r.below(3);
        let keep = r.chance(1, 2) as u64;
        let ty = r.chance(1, 4) as u64;
        ops.push((0, e, keep + 2 * ty));
        slot_ep.push(e);
        live.push(true);
        if keep == 0 {
            provided.push(nvals);
        }
        nvals += 1;
    }
    let steps = r.range(4, 34);
    for _ in 0..steps {
        let lives: Vec<usize> = (0..live.len()).filter(|&i| live[i]).collect();
        let pending: Vec<(u64, u64)> =
            (0..3).flat_map(|c| (0..2).map(move |s| (c, s))).filter(|&(c, s)| flight[c as usize][s as usize] > 0).collect();
        let k = r.below(100);
        if !pending.is_empty() && k < 30 {
            let &(c, s) = r.pick(&pending);
            let e = if s == 0 { c } else { (c + 1) % 3 };
            ops.push((5, c, e));
            flight[c as usize][s as usize] -= 1;
            slot_ep.push(e);
            live.push(true);
            continue;
        }
        if lives.is_empty() {
            if r.chance(1, 2) && nvals < 6 {
                let e = r.below(3);
                let keep = r.chance(1, 2) as u64;
                ops.push((0, e, keep));
                slot_ep.push(e);
                live.push(true);
                if keep == 0 {
                    provided.push(nvals);
                }
                nvals += 1;
            } else {
                ops.push((5, r.below(3), r.below(3)));
            }
            continue;
        }
        let s = *r.pick(&lives);
        match k {
            0..=49 => {
                // send over one of the two connections of the slot's endpoint (sometimes a clone, so that the
                // original stays)
                let e = slot_ep[s];
                let c = if r.chance(1, 2) { e } else { (e + 2) % 3 };
                let mut src = s;
                if r.chance(2, 5) {
                    ops.push((1, s as u64, 0));
                    slot_ep.push(e);
                    live.push(true);
                    src = live.len() - 1;
                }
                ops.push((if r.chance(1, 4) { 11 } else { 4 }, src as u64, c));
                live[src] = false;
                let side = if e == c { 1 } else { 0 };
                flight[c as usize][side] += 1;
                if r.chance(3, 4) {
                    let dst = if side == 0 { c } else { (c + 1) % 3 };
                    ops.push((5, c, dst));
                    flight[c as usize][side] -= 1;
                    slot_ep.push(dst);
                    live.push(true);
                }
            }
            50..=57 => {
                ops.push((1, s as u64, 0));
                slot_ep.push(slot_ep[s]);
                live.push(true);
            }
            58..=67 => {
                ops.push((2, s as u64, 0));
                live[s] = false;
            }
            68..=73 => ops.push((3, s as u64, r.below(2))),
            74..=83 => ops.push((6 + r.below(2), s as u64, 0)),
            84..=89 => {
                ops.push((8, s as u64, 0));
                live[s] = false;
            }
            90..=94 => {
                if !provided.is_empty() {
                    let i = r.below(provided.len() as u64) as usize;
                    let v = provided.remove(i);
                    ops.push((if r.chance(3, 4) { 9 } else { 10 }, v, 0));
                } else {
                    ops.push((6, s as u64, 0));
                }
            }
            95..=96 => ops.push((r.range(1, 8), r.below(live.len() as u64 + 2), r.below(3))), // stale / wrong slots
            _ => ops.push((5, r.below(3), r.below(3))),
        }
    }
    // ending: receive some of what is in flight, access everything, then drop handles and providers in a random order
    for c in 0..3u64 {
        for s in 0..2u64 {
            while flight[c as usize][s as usize] > 0 && r.chance(3, 4) {
                let e = if s == 0 { c } else { (c + 1) % 3 };
                ops.push((5, c, e));
                flight[c as usize][s as usize] -= 1;
                slot_ep.push(e);
                live.push(true);
            }
        }
    }
    let mut rest: Vec<(u64, u64, u64)> = Vec::new();
    for i in 0..live.len() {
        if live[i] {
            if r.chance(1, 2) {
                ops.push((6, i as u64, 0));
            }
            if r.chance(4, 5) {
                rest.push((2, i as u64, 0));
            }
        }
    }
    for v in provided {
        if r.chance(2, 3) {
            rest.push((9, v, 0));
        }
    }
    while !rest.is_empty() {
        let i = r.below(rest.len() as u64) as usize;
        ops.push(rest.remove(i));
    }
    let mut v = Vec::new();
    for (o, a, b) in ops {
        v.push(o as u128);
        v.push(a as u128);
        v.push(b as u128);
    }
    vec![v]
}

pub fn run(seed: u64, count: usize, extra: &[String], out: &mut impl std::io::Write) {
    let seed = Rng::new(seed ^ 0xC20).next();
    crate::drive(COMP, seed, count, extra, out, gen, exec);
}
