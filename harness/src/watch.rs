//! C15: the real `remoc::rch::watch` channel, with receivers (and the sender) sent over real
//! connections (`remoc::Connect::framed` over the harness transport) for up to three hops, driven in
//! big steps on a paused current-thread runtime and compared with the model (`Run/RunWatch.v`).
//!
//! Three endpoints A, B, C; connection 0 joins A and B, connection 1 joins B and C.  The channel is
//! created on A.  A receiver or the sender is moved to a neighbouring endpoint through a
//! `rch::base` channel of `Item`.
//!
//! Input (after the component number): mode p0 op*   -- see RunWatch.v for the operations.
//! Observations that are not preceded by a quiescence barrier ("racy") are written into the
//! annotation slots of the EMITTED input line, so that the model can decide whether what the
//! implementation showed is admissible (trace acceptance); on replay the slots are ignored and
//! filled again.  Independent oracle: every receiver sees only values that were stored, with
//! non-decreasing send index (clones and transferred receivers continue where the original was);
//! after every barrier with running transports every live receiver holds the value stored last;
//! once the sender is dropped no live receiver stays pending at quiescence.
use crate::{
    rng::Rng,
    transport::{Fault, Net},
};
use futures::FutureExt;
use remoc::{
    codec,
    rch::{base, watch},
};
use serde::{Deserialize, Serialize};
use std::{io::Write, panic::AssertUnwindSafe, time::Duration};

const COMP: u128 = 15;
const PBITS: u32 = 24;

#[derive(Serialize, Deserialize)]
enum Item {
    Rx(watch::Receiver<u64>),
    Tx(watch::Sender<u64>),
}

type BTx = base::Sender<Item, codec::Default>;
type BRx = base::Receiver<Item, codec::Default>;

struct Conn {
    net: Net,
    /// index 0: the side on the lower endpoint
    tx: [BTx; 2],
    rx: [BRx; 2],
    tasks: Vec<tokio::task::JoinHandle<()>>,
}

async fn barrier() {
    for _ in 0..2 {
        tokio::time::sleep(Duration::from_nanos(1)).await;
    }
}

async fn connect() -> Result<Conn, String> {
    let net = Net::new(true);
    let cfg = || remoc::Cfg { connection_timeout: None, ..Default::default() };
    let a = remoc::Connect::framed::<_, _, Item, Item, codec::Default>(cfg(), net.a2b.sink(), net.b2a.stream());
    let b = remoc::Connect::framed::<_, _, Item, Item, codec::Default>(cfg(), net.b2a.sink(), net.a2b.stream());
    let (ra, rb) = tokio::join!(a, b);
    let (ca, txa, rxa) = ra.map_err(|e| e.to_string())?;
    let (cb, txb, rxb) = rb.map_err(|e| e.to_string())?;
    let ta = tokio::spawn(async move {
        let _ = ca.await;
    });
    let tb = tokio::spawn(async move {
        let _ = cb.await;
    });
    Ok(Conn { net, tx: [txa, txb], rx: [rxa, rxb], tasks: vec![ta, tb] })
}

/// what a receiver showed
#[derive(Clone, Copy, Debug, PartialEq)]
enum Seen {
    Val(u64, u64),
    ErrVal,
}

fn decode(v: u64) -> Seen {
    Seen::Val(v >> PBITS, v & ((1 << PBITS) - 1))
}

struct RxInfo {
    rx: Option<watch::Receiver<u64>>,
    cell: usize,
    /// the model does not know which value this receiver has marked seen
    sunk: bool,
    /// oracle: highest index shown to this receiver or to the receiver it was cloned / sent from
    last: Option<u64>,
}

struct World {
    conns: Vec<Conn>,
    /// endpoint of every cell
    cells: Vec<usize>,
    /// the cell each cell is fed from (None: the root)
    parent: Vec<Option<usize>>,
    rxs: Vec<RxInfo>,
    tx: Option<watch::Sender<u64>>,
    /// cell of the sender handle (stays after the drop)
    root: usize,
    /// payloads stored so far (oracle's own record)
    sent: Vec<u64>,
    dirty: bool,
    stalled: bool,
    faulty: bool,
    failed: Vec<bool>,
    out: Vec<u128>,
    /// the input with annotations filled in
    ann: Vec<u128>,
    oracle: Result<(), String>,
    racy: usize,
    exact: usize,
    barriers: usize,
    /// observations of a value older than the one stored last
    stale: usize,
}

impl World {
    fn fail(&mut self, msg: String) {
        if self.oracle.is_ok() {
            self.oracle = Err(msg);
        }
    }

    fn exact_cell(&self, cell: usize) -> bool {
        !self.dirty || cell == self.root
    }

    fn set_auto(&self, auto: bool) {
        for c in &self.conns {
            c.net.set_auto(auto);
        }
    }

    /// oracle: a value shown to receiver r
    fn check_seen(&mut self, r: usize, s: Seen, what: &str) {
        match s {
            Seen::ErrVal => {
                if !self.faulty {
                    self.fail(format!("receiver {r} ({what}) holds an error value although no connection failed"));
                }
            }
            Seen::Val(i, p) => {
                match self.sent.get(i as usize) {
                    Some(q) if *q == p => (),
                    _ => self.fail(format!("receiver {r} ({what}) was shown ({i},{p}) which was never stored")),
                }
                if let Some(l) = self.rxs[r].last {
                    if i < l {
                        self.fail(format!("receiver {r} ({what}) went backwards: index {i} after {l}"));
                    }
                }
                self.rxs[r].last = Some(self.rxs[r].last.map_or(i, |l| l.max(i)));
                if (i as usize) + 1 < self.sent.len() {
                    self.stale += 1;
                }
            }
        }
    }

    /// oracle at quiescence: every live receiver holds the value stored last
    fn check_latest(&mut self, at: &str) {
        if self.faulty {
            return;
        }
        let latest = self.sent.len() as u64 - 1;
        let want = Seen::Val(latest, self.sent[latest as usize]);
        let mut bad = None;
        for (r, info) in self.rxs.iter().enumerate() {
            if let Some(rx) = &info.rx {
                let got = match rx.borrow() {
                    Ok(v) => decode(*v),
                    Err(_) => Seen::ErrVal,
                };
                if got != want {
                    bad = Some(format!(
                        "after {at}: receiver {r} on cell {} (endpoint {}) holds {:?}, the value stored last is {:?}",
                        info.cell, self.cells[info.cell], got, want
                    ));
                    break;
                }
                if self.tx.is_none() {
                    let mut c = rx.clone();
                    if c.changed().now_or_never().is_none() {
                        bad = Some(format!("after {at}: sender dropped but receiver {r} on cell {} is still pending", info.cell));
                        break;
                    }
                }
            }
        }
        if let Some(b) = bad {
            self.fail(b);
        }
    }

    async fn quiesce(&mut self, at: &str) {
        self.stalled = false;
        self.set_auto(true);
        barrier().await;
        self.dirty = false;
        self.barriers += 1;
        self.check_latest(at);
    }

    /// moves an item from endpoint `from` over connection k; returns what arrived
    async fn ship(&mut self, from: usize, k: usize, item: Item) -> Result<Item, String> {
        let (side, other) = if from == k { (0, 1) } else { (1, 0) };
        let was_stalled = self.stalled;
        if was_stalled {
            self.set_auto(true);
        }
        let conn = &mut self.conns[k];
        let res = match conn.tx[side].send(item).await {
            Err(e) => Err(format!("sending the half failed: {e}")),
            Ok(()) => match tokio::time::timeout(Duration::from_secs(5), conn.rx[other].recv()).await {
                Ok(Ok(Some(it))) => Ok(it),
                Ok(Ok(None)) => Err("base channel closed".into()),
                Ok(Err(e)) => Err(format!("receiving the half failed: {e}")),
                Err(_) => Err("the half did not arrive".into()),
            },
        };
        if was_stalled {
            self.set_auto(false);
        }
        res
    }
}

fn adj(ep: usize) -> &'static [usize] {
    match ep {
        0 => &[0],
        1 => &[0, 1],
        _ => &[1],
    }
}

fn seen_out(s: Seen) -> [u128; 2] {
    match s {
        Seen::Val(i, p) => [i as u128 + 1, p as u128],
        Seen::ErrVal => [0, 0],
    }
}

async fn run_case(mode: u128, p0: u64, ops: &[u128]) -> World {
    let (tx, rx) = watch::channel::<u64, codec::Default>(p0);
    let mut w = World {
        conns: Vec::new(),
        cells: vec![0],
        parent: vec![None],
        rxs: vec![RxInfo { rx: Some(rx), cell: 0, sunk: false, last: None }],
        tx: Some(tx),
        root: 0,
        sent: vec![p0],
        dirty: false,
        stalled: false,
        faulty: mode == 1,
        failed: vec![false, false],
        out: Vec::new(),
        ann: vec![mode, p0 as u128],
        oracle: Ok(()),
        racy: 0,
        exact: 0,
        barriers: 0,
        stale: 0,
    };
    for _ in 0..2 {
        match connect().await {
            Ok(c) => w.conns.push(c),
            Err(e) => {
                w.fail(format!("connection setup failed: {e}"));
                return w;
            }
        }
    }
    barrier().await;

    let mut l = ops;
    loop {
        let Some((&op, rest)) = l.split_first() else { break };
        let need = match op {
            0 | 1 | 4 | 5 | 10 | 12 | 15 | 16 => 1,
            2 | 3 | 11 | 13 | 14 => 0,
            6 | 7 | 8 => 4,
            9 => 2,
            _ => {
                w.out.push(98);
                return w;
            }
        };
        if rest.len() < need || (op == 16 && mode != 1) {
            w.out.push(98);
            return w;
        }
        let args = &rest[..need];
        l = &rest[need..];
        let ann_at = w.ann.len();
        w.ann.push(op);
        w.ann.extend_from_slice(args);
        match op {
            0 | 1 => {
                let p = (args[0] as u64) & ((1 << PBITS) - 1);
                if w.tx.is_none() {
                    w.out.push(99);
                    continue;
                }
                if op == 0 && w.dirty && !w.rxs.iter().any(|i| i.rx.is_some() && i.cell == w.root) {
                    w.quiesce("the barrier before a send without local receivers").await;
                }
                let idx = w.sent.len() as u64;
                let val = (idx << PBITS) | p;
                let tx = w.tx.as_ref().unwrap();
                if op == 0 {
                    match tx.send(val) {
                        Ok(()) => {
                            w.sent.push(p);
                            w.out.push(1)
                        }
                        Err(_) => w.out.push(0),
                    }
                } else {
                    tx.send_modify(|v| *v = val);
                    w.sent.push(p);
                }
                w.dirty = true;
            }
            2 => {
                if w.tx.take().is_none() {
                    w.out.push(99);
                    continue;
                }
                w.dirty = true;
            }
            3 => match &w.tx {
                None => w.out.push(99),
                Some(tx) => {
                    let rx = tx.subscribe();
                    let root = w.root;
                    w.rxs.push(RxInfo { rx: Some(rx), cell: root, sunk: false, last: None });
                }
            },
            4 => {
                let r = args[0] as usize;
                match w.rxs.get(r).and_then(|i| i.rx.as_ref().map(|rx| (rx.clone(), i.cell, i.sunk, i.last))) {
                    None => w.out.push(99),
                    Some((rx, cell, sunk, last)) => w.rxs.push(RxInfo { rx: Some(rx), cell, sunk, last }),
                }
            }
            5 => {
                let r = args[0] as usize;
                match w.rxs.get_mut(r).and_then(|i| i.rx.take()) {
                    None => w.out.push(99),
                    Some(rx) => {
                        drop(rx);
                        w.dirty = true;
                    }
                }
            }
            6 | 7 => {
                let r = args[0] as usize;
                let Some(info) = w.rxs.get_mut(r).filter(|i| i.rx.is_some()) else {
                    w.out.push(99);
                    continue;
                };
                let rx = info.rx.as_mut().unwrap();
                let got = if op == 6 { rx.borrow_and_update().map(|v| *v) } else { rx.borrow().map(|v| *v) };
                let seen = match got {
                    Ok(v) => decode(v),
                    Err(_) => Seen::ErrVal,
                };
                let cell = info.cell;
                if op == 6 && matches!(seen, Seen::Val(..)) {
                    info.sunk = false;
                }
                w.check_seen(r, seen, if op == 6 { "borrow_and_update" } else { "borrow" });
                if w.exact_cell(cell) {
                    w.exact += 1;
                    w.out.push(2);
                    w.out.extend(seen_out(seen));
                } else {
                    w.racy += 1;
                    match seen {
                        Seen::Val(i, p) => w.ann[ann_at + 2..ann_at + 5].copy_from_slice(&[1, i as u128, p as u128]),
                        Seen::ErrVal => w.ann[ann_at + 2..ann_at + 5].copy_from_slice(&[2, 0, 0]),
                    }
                    w.out.extend([1, 1]);
                }
            }
            8 => {
                let r = args[0] as usize;
                let Some(info) = w.rxs.get_mut(r).filter(|i| i.rx.is_some()) else {
                    w.out.push(99);
                    continue;
                };
                let rx = info.rx.as_mut().unwrap();
                let polled = rx.changed().now_or_never();
                let (code, seen) = match polled {
                    Some(Ok(())) => {
                        let s = match rx.borrow_and_update().map(|v| *v) {
                            Ok(v) => decode(v),
                            Err(_) => Seen::ErrVal,
                        };
                        (1u128, Some(s))
                    }
                    Some(Err(_)) => (2, None),
                    None => (3, None),
                };
                let cell = info.cell;
                let was_sunk = info.sunk;
                if matches!(seen, Some(Seen::Val(..))) {
                    info.sunk = false;
                }
                if let Some(s) = seen {
                    w.check_seen(r, s, "changed + borrow_and_update");
                }
                if w.exact_cell(cell) && !was_sunk {
                    w.exact += 1;
                    w.out.extend([2, code]);
                    w.out.extend(match seen {
                        Some(s) => seen_out(s),
                        None => [0, 0],
                    });
                } else {
                    w.racy += 1;
                    let a = match (code, seen) {
                        (1, Some(Seen::Val(i, p))) => [1, i as u128, p as u128],
                        (1, _) => [4, 0, 0],
                        (c, _) => [c, 0, 0],
                    };
                    w.ann[ann_at + 2..ann_at + 5].copy_from_slice(&a);
                    w.out.extend([1, 1]);
                }
            }
            9 => {
                let r = args[0] as usize;
                let Some((rx, cell, last)) = w.rxs.get(r).and_then(|i| i.rx.as_ref().map(|rx| (rx.clone(), i.cell, i.last))) else {
                    w.out.push(99);
                    continue;
                };
                let sunk = !w.exact_cell(cell);
                let from = w.cells[cell];
                let k = adj(from)[args[1] as usize % adj(from).len()];
                let to = if from == k { k + 1 } else { k };
                let new_cell = w.cells.len();
                w.cells.push(to);
                w.parent.push(Some(cell));
                w.dirty = true;
                match w.ship(from, k, Item::Rx(rx)).await {
                    Ok(Item::Rx(rrx)) => w.rxs.push(RxInfo { rx: Some(rrx), cell: new_cell, sunk, last }),
                    Ok(_) => w.fail("a sender arrived where a receiver was sent".into()),
                    Err(e) => {
                        if !w.failed[k] {
                            w.fail(format!("transfer of receiver {r} over connection {k}: {e}"));
                        }
                        // keep the numbering of the model: a receiver that does not exist
                        w.rxs.push(RxInfo { rx: None, cell: new_cell, sunk, last });
                    }
                }
            }
            10 => {
                let Some(tx) = w.tx.take() else {
                    w.out.push(99);
                    continue;
                };
                let from = w.cells[w.root];
                let k = adj(from)[args[0] as usize % adj(from).len()];
                let to = if from == k { k + 1 } else { k };
                let new_cell = w.cells.len();
                w.cells.push(to);
                w.parent.push(None);
                let old_root = w.root;
                w.parent[old_root] = Some(new_cell);
                w.root = new_cell;
                w.dirty = true;
                match w.ship(from, k, Item::Tx(tx)).await {
                    Ok(Item::Tx(rtx)) => w.tx = Some(rtx),
                    Ok(_) => w.fail("a receiver arrived where the sender was sent".into()),
                    Err(e) => {
                        if !w.failed[k] {
                            w.fail(format!("transfer of the sender over connection {k}: {e}"));
                        }
                    }
                }
            }
            11 => {
                if !w.stalled {
                    w.quiesce("a barrier").await;
                } else {
                    barrier().await;
                }
            }
            12 => {
                for _ in 0..(args[0] as usize).min(64) {
                    tokio::task::yield_now().await;
                }
                w.dirty = true;
            }
            13 => {
                w.set_auto(false);
                w.stalled = true;
                w.dirty = true;
            }
            14 => {
                w.set_auto(true);
                w.stalled = false;
                w.dirty = true;
            }
            15 => {
                for c in &w.conns {
                    c.net.a2b.deliver(args[0] as usize);
                    c.net.b2a.deliver(args[0] as usize);
                }
                for _ in 0..4 {
                    tokio::task::yield_now().await;
                }
                w.dirty = true;
            }
            16 => {
                let k = args[0] as usize % 2;
                w.failed[k] = true;
                let f = if args[0] & 2 == 0 { Fault::StreamErr } else { Fault::Eof };
                w.conns[k].net.a2b.fail(f);
                w.conns[k].net.b2a.fail(f);
                w.dirty = true;
            }
            _ => unreachable!(),
        }
    }
    // final: unstall, barrier, dump
    w.quiesce("the final barrier").await;
    w.out.push(77);
    w.out.push(w.rxs.len() as u128);
    for i in 0..w.rxs.len() {
        let info = &w.rxs[i];
        match &info.rx {
            None => w.out.push(0),
            Some(rx) => {
                let seen = match rx.borrow().map(|v| *v) {
                    Ok(v) => decode(v),
                    Err(_) => Seen::ErrVal,
                };
                let code = if info.sunk {
                    9
                } else {
                    let mut c = rx.clone();
                    match c.changed().now_or_never() {
                        Some(Ok(())) => 1,
                        Some(Err(_)) => 2,
                        None => 3,
                    }
                };
                w.out.push(1);
                w.out.extend(seen_out(seen));
                w.out.push(code);
            }
        }
    }
    for c in &w.conns {
        for t in &c.tasks {
            t.abort();
        }
    }
    w
}

/// the input with the annotation slots cleared
fn strip(inp: &[u128]) -> Vec<u128> {
    let mut v = inp.to_vec();
    let mut k = 2;
    while k < v.len() {
        let n = match v[k] {
            0 | 1 | 4 | 5 | 10 | 12 | 15 | 16 => 1,
            6 | 7 | 8 => 4,
            9 => 2,
            _ => 0,
        };
        if matches!(v[k], 6 | 7 | 8) && k + 4 < v.len() {
            v[k + 2] = 0;
            v[k + 3] = 0;
            v[k + 4] = 0;
        }
        k += 1 + n;
    }
    v
}

/// returns (emitted input, output, signature, oracle verdict)
pub fn exec(inp: &[u128]) -> (Vec<u128>, Vec<u128>, String, String) {
    if matches!(inp.first(), Some(2 | 3)) {
        return crate::watch_size::exec(inp);
    }
    let inp = strip(inp);
    if inp.len() < 2 || inp[0] > 1 {
        return (inp, vec![98], "malformed".into(), "ok".into());
    }
    let mode = inp[0];
    let p0 = (inp[1] as u64) & ((1 << PBITS) - 1);
    let ops = inp[2..].to_vec();
    #[cfg(remoc_verif)]
    {
        // poll deferral of remoc's spawned tasks (hook H1), derived from the input only
        let h = inp.iter().fold(0x9E3779B97F4A7C15u64, |a, x| (a ^ *x as u64).wrapping_mul(0x100000001B3));
        remoc::exec::verif::set_defer_seed(if h % 4 == 0 { 0 } else { h | 1 });
    }
    let res = std::panic::catch_unwind(AssertUnwindSafe(|| {
        let rt = tokio::runtime::Builder::new_current_thread().enable_time().start_paused(true).build().unwrap();
        rt.block_on(run_case(mode, p0, &ops))
    }));
    #[cfg(remoc_verif)]
    remoc::exec::verif::set_defer_seed(0);
    let w = match res {
        Ok(w) => w,
        Err(_) => return (inp, vec![95], "panic".into(), "FAIL: panic in the implementation or the harness".into()),
    };
    // the longest chain of connections between the sender's cell and a live receiver
    let hops = w
        .rxs
        .iter()
        .filter(|i| i.rx.is_some())
        .map(|i| {
            let (mut c, mut n) = (i.cell, 0usize);
            while let Some(p) = w.parent[c] {
                c = p;
                n += 1;
            }
            n
        })
        .max()
        .unwrap_or(0);
    let count = |o: u128| {
        let mut n = 0;
        let mut k = 0;
        while k < ops.len() {
            if ops[k] == o {
                n += 1;
            }
            k += 1 + match ops[k] {
                0 | 1 | 4 | 5 | 10 | 12 | 15 | 16 => 1,
                6 | 7 | 8 => 4,
                9 => 2,
                _ => 0,
            };
        }
        n
    };
    // a drop directly after an update, and the longest run of updates without anything in between
    let (mut drop_after_send, mut burst, mut cur, mut prev) = (false, 0usize, 0usize, 99u128);
    {
        let mut k = 0;
        while k < ops.len() {
            let o = ops[k];
            if o == 0 || o == 1 {
                cur += 1;
                burst = burst.max(cur);
            } else {
                cur = 0;
            }
            if o == 2 && (prev == 0 || prev == 1) {
                drop_after_send = true;
            }
            prev = o;
            k += 1 + match o {
                0 | 1 | 4 | 5 | 10 | 12 | 15 | 16 => 1,
                6 | 7 | 8 => 4,
                9 => 2,
                _ => 0,
            };
        }
    }
    let prefix = if mode == 1 {
        "fault"
    } else if w.racy > 0 {
        "race"
    } else {
        "exact"
    };
    let sig = format!(
        "{prefix}:hops{}:tx{}:drop{}:burst{}:stall{}:racy{}:stale{}",
        hops.min(4),
        count(10).min(2),
        if count(2) == 0 { 0 } else if drop_after_send { 2 } else { 1 },
        burst.min(3),
        (count(13) > 0) as u8,
        w.racy.min(2),
        w.stale.min(2),
    );
    let out = if mode == 1 { vec![96] } else { w.out.clone() };
    if std::env::var_os("VH_DEBUG").is_some() {
        eprintln!("{:?} sent={:?}", w.out, w.sent);
    }
    (w.ann.clone(), out, sig, match &w.oracle {
        Ok(()) => "ok".into(),
        Err(e) => format!("FAIL: {e}"),
    })
}

/// generator-side picture of the program built so far
struct Sim {
    /// per receiver: (alive, cell)
    rxs: Vec<(bool, usize)>,
    /// per cell: endpoint
    cells: Vec<usize>,
    sender: bool,
    root: usize,
    stalled: bool,
}

fn gen_case(r: &mut Rng, mode: u128) -> Vec<u128> {
    let mut v: Vec<u128> = vec![mode, r.below(50) as u128];
    let mut s = Sim { rxs: vec![(true, 0)], cells: vec![0], sender: true, root: 0, stalled: false };
    let steps = r.range(6, 34);
    let barrier_pct = *r.pick(&[10u64, 25, 50, 80]);
    let use_stall = r.chance(1, 4);
    let early_transfers = r.range(0, 2);
    let live = |s: &Sim| -> Vec<usize> { (0..s.rxs.len()).filter(|i| s.rxs[*i].0).collect() };
    let transfer = |r: &mut Rng, s: &mut Sim, v: &mut Vec<u128>| {
        let l = live(s);
        if l.is_empty() || s.cells.len() >= 6 || s.rxs.len() >= 9 {
            return;
        }
        let q = *r.pick(&l);
        let k = r.below(2);
        let from = s.cells[s.rxs[q].1];
        let kk = adj(from)[k as usize % adj(from).len()];
        let to = if from == kk { kk + 1 } else { kk };
        v.extend([9, q as u128, k as u128]);
        s.cells.push(to);
        s.rxs.push((true, s.cells.len() - 1));
    };
    for _ in 0..early_transfers {
        transfer(r, &mut s, &mut v);
    }
    if early_transfers > 0 && r.chance(2, 3) {
        v.push(11);
    }
    let mut payload = 100u128;
    for _ in 0..steps {
        let x = r.below(100);
        let l = live(&s);
        if x < 30 {
            // a burst of updates
            if s.sender {
                for _ in 0..*r.pick(&[1u64, 1, 2, 3, 5]) {
                    payload += 1;
                    v.extend([if r.chance(1, 5) { 1 } else { 0 }, payload]);
                }
                // ... and the sender dropped right after the last one
                if r.chance(1, 8) {
                    v.push(2);
                    s.sender = false;
                }
            }
        } else if x < 55 {
            if !l.is_empty() {
                let q = *r.pick(&l);
                v.extend([*r.pick(&[6u128, 6, 7, 8, 8]), q as u128, 0, 0, 0]);
            }
        } else if x < 65 {
            transfer(r, &mut s, &mut v);
        } else if x < 70 {
            if !l.is_empty() && s.rxs.len() < 9 {
                let q = *r.pick(&l);
                v.extend([4, q as u128]);
                let c = s.rxs[q].1;
                s.rxs.push((true, c));
            }
        } else if x < 74 {
            if s.sender && s.rxs.len() < 9 {
                v.push(3);
                s.rxs.push((true, s.root));
            }
        } else if x < 79 {
            if l.len() > 1 || (l.len() == 1 && r.chance(1, 4)) {
                let q = *r.pick(&l);
                v.extend([5, q as u128]);
                s.rxs[q].0 = false;
            }
        } else if x < 82 {
            if s.sender && s.cells.len() < 6 && r.chance(1, 2) {
                let from = s.cells[s.root];
                let k = r.below(2);
                let kk = adj(from)[k as usize % adj(from).len()];
                let to = if from == kk { kk + 1 } else { kk };
                v.extend([10, k as u128]);
                s.cells.push(to);
                s.root = s.cells.len() - 1;
            }
        } else if x < 88 {
            v.extend([12, r.range(1, 12) as u128]);
        } else if x < 94 && use_stall {
            if s.stalled {
                if r.chance(1, 2) {
                    v.extend([15, r.range(1, 4) as u128]);
                } else {
                    v.push(14);
                    s.stalled = false;
                }
            } else {
                v.push(13);
                s.stalled = true;
            }
        } else if x < 96 && mode == 1 {
            v.extend([16, r.below(4) as u128]);
        } else if x < 98 {
            if s.sender && r.chance(1, 3) {
                v.push(2);
                s.sender = false;
            }
        }
        if r.below(100) < barrier_pct {
            v.push(11);
        }
    }
    v
}

pub fn gen(r: &mut Rng, i: usize) -> Vec<Vec<u128>> {
    // every 12th case additionally runs a program with connection faults (oracle only)
    let mut cases = vec![gen_case(r, 0)];
    if i % 12 == 5 {
        cases.push(gen_case(r, 1));
    }
    // every 4th case additionally runs a program with item size limits (watch_size.rs: mode 2 compared
    // with Run/RunWatchSize.v, mode 3 oracle only)
    if i % 4 == 2 {
        cases.push(crate::watch_size::gen_case(r));
    }
    cases
}

/// like `crate::drive`, but the emitted input is the one annotated by `exec`
pub fn run(seed: u64, count: usize, extra: &[String], out: &mut impl Write) {
    let mut z = (seed ^ 0xC15).wrapping_add(0x9E3779B97F4A7C15);
    z = (z ^ (z >> 30)).wrapping_mul(0xBF58476D1CE4E5B9);
    z = (z ^ (z >> 27)).wrapping_mul(0x94D049BB133111EB);
    let seed = z ^ (z >> 31);
    let mut one = |inp: &[u128], out: &mut dyn Write| {
        out.flush().unwrap();
        crate::watchdog_arm(COMP, inp);
        let (ann, o, sig, oracle) = exec(inp);
        crate::watchdog_disarm();
        let mut input = vec![COMP];
        input.extend(ann);
        let j = |v: &Vec<u128>| v.iter().map(|x| x.to_string()).collect::<Vec<_>>().join(" ");
        writeln!(out, "{}\t{}\t{}\t{}", j(&input), j(&o), sig, oracle).unwrap();
    };
    if let Some(pos) = extra.iter().position(|a| a == "--replay") {
        let text = std::fs::read_to_string(&extra[pos + 1]).expect("replay file");
        for line in text.lines() {
            let line = line.split('\t').next().unwrap_or("");
            let nums: Vec<u128> = line.split_whitespace().filter_map(|t| t.parse().ok()).collect();
            if nums.first() == Some(&COMP) {
                one(&nums[1..], out);
            }
        }
        return;
    }
    let mut r = Rng::new(seed);
    for i in 0..count {
        let mut rr = r.fork();
        for inp in gen(&mut rr, i) {
            one(&inp, out);
        }
    }
}
