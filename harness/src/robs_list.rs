//! C13 (append-only list): random push/extend/done sequences on the real `ObservableList`, a hand-held
//! subscription from the start (events per op), a real local `mirror()` and a hand-consumed
//! subscription taken after `k` ops.  Input/output format: see coq/theories/Run/RunRobsList.v.
use crate::{
    rng::Rng,
    robs_vec::{barrier, err_code, pick_branch, runtime, take, val},
};
use remoc::robs::list::{ListEvent, ListSubscription, MirroredList, ObservableList};
use std::{
    io::Write,
    panic::{catch_unwind, AssertUnwindSafe},
    time::Duration,
};

const COMP: u128 = 133;
type Codec = remoc::codec::Default;

#[derive(Debug, Clone)]
enum Op {
    Push(u64),
    Done,
    Extend(Vec<u64>),
}

fn decode_ops(inp: &[u128]) -> Option<Vec<Op>> {
    let mut pos = 0;
    let mut ops = Vec::new();
    while pos < inp.len() {
        let code = inp[pos];
        pos += 1;
        ops.push(match code {
            1 => Op::Push(take(inp, &mut pos, 1)?[0] as u64),
            2 => Op::Done,
            3 => {
                let n = take(inp, &mut pos, 1)?[0];
                if n > 1_000_000 {
                    return None;
                }
                Op::Extend(take(inp, &mut pos, n as usize)?.iter().map(|x| *x as u64).collect())
            }
            _ => return None,
        });
    }
    Some(ops)
}

fn enc_events(es: &[ListEvent<u64>], out: &mut Vec<u128>) {
    out.push(es.len() as u128);
    for e in es {
        match e {
            ListEvent::Push(v) => out.extend([1, *v as u128]),
            ListEvent::Done => out.push(2),
            ListEvent::InitialComplete => out.push(3),
        }
    }
}

fn apply(obs: &mut ObservableList<u64, Codec>, op: &Op) -> &'static str {
    let was_done = obs.is_done();
    match op {
        Op::Push(v) => {
            obs.push(*v);
            "push"
        }
        Op::Done => {
            obs.done();
            if was_done {
                "done_again"
            } else {
                "done"
            }
        }
        Op::Extend(vs) => {
            obs.extend(vs.iter().copied());
            match (vs.is_empty(), was_done) {
                (true, true) => "extend_empty_after_done",
                (true, false) => "extend_empty",
                _ => "extend",
            }
        }
    }
}

async fn drain(sub: &mut ListSubscription<u64, Codec>, ended: &mut bool, into: &mut Vec<ListEvent<u64>>) -> Result<(), u128> {
    if *ended {
        return Ok(());
    }
    loop {
        match crate::recv_selectlike!(sub) {
            Err(_) => return Ok(()),
            Ok(Ok(Some(e))) => into.push(e),
            Ok(Ok(None)) => {
                *ended = true;
                return Ok(());
            }
            Ok(Err(e)) => {
                *ended = true;
                return Err(err_code(&e));
            }
        }
    }
}

struct Subs {
    mirror: MirroredList<u64>,
    hand: ListSubscription<u64, Codec>,
    hand_ended: bool,
    hand_events: Vec<ListEvent<u64>>,
    hand_err: u128,
    done_at: bool,
}

fn subscribe(obs: &ObservableList<u64, Codec>, mx: usize) -> Subs {
    let msub = obs.subscribe();
    let hand = obs.subscribe();
    Subs { mirror: msub.mirror(mx), hand, hand_ended: false, hand_events: Vec::new(), hand_err: 0, done_at: obs.is_done() }
}

async fn exec_async(inp: &[u128]) -> (Vec<u128>, String, String) {
    let bad = || (vec![98], "list:malformed".to_string(), "ok".to_string());
    if inp.len() < 4 || inp[3] > 1_000_000 {
        return bad();
    }
    let (mx, k) = (inp[0].min(1 << 40) as usize, inp[2].min(1 << 40) as usize);
    let mut pos = 4;
    let init: Vec<u64> = match take(inp, &mut pos, inp[3] as usize) {
        Some(s) => s.iter().map(|x| *x as u64).collect(),
        None => return bad(),
    };
    let ops = match decode_ops(&inp[pos..]) {
        Some(o) => o,
        None => return bad(),
    };

    let mut out = Vec::new();
    let mut branches: Vec<&'static str> = Vec::new();
    let mut harness_err = String::new();
    let mut obs: ObservableList<u64, Codec> = ObservableList::from(init.clone());
    let mut s0 = obs.subscribe();
    let mut s0_ended = false;
    {
        // the start subscription first replays the initial contents
        let mut evs = Vec::new();
        let _ = drain(&mut s0, &mut s0_ended, &mut evs).await;
        let mut expect: Vec<ListEvent<u64>> = init.iter().map(|v| ListEvent::Push(*v)).collect();
        expect.push(ListEvent::InitialComplete);
        if evs != expect {
            harness_err = format!("start subscription delivered {:?} for initial contents {:?}", evs, init);
        }
    }
    let mut subs: Option<Subs> = None;
    let mut peak = 0usize;

    for (j, op) in ops.iter().enumerate() {
        if j == k {
            subs = Some(subscribe(&obs, mx));
        }
        match catch_unwind(AssertUnwindSafe(|| apply(&mut obs, op))) {
            Ok(label) => {
                branches.push(label);
                let mut evs = Vec::new();
                if let Err(c) = drain(&mut s0, &mut s0_ended, &mut evs).await {
                    harness_err = format!("start subscription failed with error class {c}");
                }
                enc_events(&evs, &mut out);
            }
            Err(_) => {
                branches.push("panic_after_done");
                out.push(99);
            }
        }
        peak = peak.max(obs.len());
        barrier().await;
        if let Some(s) = subs.as_mut() {
            let mut evs = Vec::new();
            if let Err(c) = drain(&mut s.hand, &mut s.hand_ended, &mut evs).await {
                s.hand_err = c;
            }
            s.hand_events.extend(evs);
        }
    }
    if subs.is_none() {
        subs = Some(subscribe(&obs, mx));
    }
    peak = peak.max(obs.len());
    let mut s = subs.unwrap();
    barrier().await;
    {
        let mut evs = Vec::new();
        if let Err(c) = drain(&mut s.hand, &mut s.hand_ended, &mut evs).await {
            s.hand_err = c;
        }
        s.hand_events.extend(evs);
    }
    barrier().await;

    // observed list
    let coll: Vec<u64> = obs.borrow().await.clone();
    let coll_done = obs.is_done();
    out.push(coll.len() as u128);
    out.extend(coll.iter().map(|x| *x as u128));
    out.push(coll_done as u128);

    // mirror
    let mut oracle = String::new();
    let mirror_outcome;
    let borrowed = match s.mirror.borrow().await {
        Ok(r) => Ok((r.clone(), r.is_complete(), r.is_done())),
        Err(e) => Err(err_code(&e)),
    };
    match borrowed {
        Ok((v, complete, done)) => {
            mirror_outcome = "ok";
            out.push(0);
            out.push(v.len() as u128);
            out.extend(v.iter().map(|x| *x as u128));
            out.push(complete as u128);
            out.push(done as u128);
            if v != coll {
                oracle = format!("FAIL: mirror contents {:?} differ from observed list {:?}", v, coll);
            } else if done != coll_done {
                oracle = format!("FAIL: mirror done flag {} but observed list done {}", done, coll_done);
            }
        }
        Err(code) => {
            let v = s.mirror.detach().await;
            out.push(code);
            out.push(v.len() as u128);
            out.extend(v.iter().map(|x| *x as u128));
            if code == 1 && peak > mx {
                mirror_outcome = "maxsize"; // outside the hypothesis of C13 (belongs to C14)
            } else {
                mirror_outcome = "error";
                oracle = format!("FAIL: mirror reports error class {code} (max_size {mx}, largest length {peak})");
            }
        }
    }

    // hand-held subscription
    enc_events(&s.hand_events, &mut out);
    let mut hv: Vec<u64> = Vec::new();
    let (mut hcomplete, mut hdone, mut herr) = (false, false, 0u128);
    for e in &s.hand_events {
        match e {
            ListEvent::Push(x) => {
                hv.push(*x);
                if hv.len() > mx {
                    herr = 1;
                    break;
                }
            }
            ListEvent::Done => hdone = true,
            ListEvent::InitialComplete => hcomplete = true,
        }
    }
    out.push(herr);
    out.push(hv.len() as u128);
    out.extend(hv.iter().map(|x| *x as u128));
    if herr == 0 {
        out.push(hcomplete as u128);
        out.push(hdone as u128);
    }
    if oracle.is_empty() {
        if s.hand_err != 0 {
            oracle = format!("FAIL: hand-held subscription failed with error class {}", s.hand_err);
        } else if herr == 0 && (hv != coll || hdone != coll_done) {
            oracle = format!("FAIL: hand-consumed events give {:?} done={} but observed list is {:?} done={}", hv, hdone, coll, coll_done);
        } else if herr != 0 && !(herr == 1 && peak > mx) {
            oracle = format!("FAIL: hand-consumed event does not apply (class {herr})");
        }
    }
    if oracle.is_empty() && !harness_err.is_empty() {
        oracle = format!("FAIL: {harness_err}");
    }

    // The distributor handle (the list's subscription API that can be cloned and given away) outlives the list: a
    // subscription made through it after the list was marked done and its handle dropped still gets every item, then Done.
    if oracle.is_empty() {
        let dist = obs.distributor();
        let was_done = obs.is_done();
        if !was_done {
            obs.done();
        }
        let expect: Vec<u64> = coll.clone();
        drop(obs);
        barrier().await;
        let late = dist.subscribe();
        let m = late.mirror(1_000_000);
        barrier().await;
        barrier().await;
        match m.borrow().await {
            Ok(r) => {
                if *r != expect || !r.is_done() {
                    oracle = format!("FAIL: a subscription made through the distributor after the list was done and dropped holds {:?} done={} but the list was {:?}", r.clone(), r.is_done(), expect);
                }
            }
            Err(e) => oracle = format!("FAIL: a subscription made through the distributor after the list was done and dropped failed with error class {} (list {:?})", err_code(&e), expect),
        };
    }

    let subkind = if s.done_at {
        "afterdone"
    } else if k == 0 {
        "start"
    } else if k >= ops.len() {
        "end"
    } else {
        "mid"
    };
    let sig = format!("list:{subkind}:{mirror_outcome}:{}", pick_branch(inp, &branches));
    (out, sig, if oracle.is_empty() { "ok".to_string() } else { oracle })
}

pub fn exec(inp: &[u128]) -> (Vec<u128>, String, String) {
    let rt = runtime();
    let r = rt.block_on(exec_async(inp));
    drop(rt);
    r
}

pub fn gen(r: &mut Rng, _i: usize) -> Vec<Vec<u128>> {
    let n_init = r.below(7) as usize;
    let init: Vec<u128> = (0..n_init).map(|_| val(r)).collect();
    let n_ops = r.range(5, 60) as usize;
    let with_done = r.chance(1, 2);
    let done_at = if with_done {
        if r.chance(1, 2) {
            n_ops - 1 - r.below(4) as usize
        } else {
            r.below(n_ops as u64) as usize
        }
    } else {
        usize::MAX
    };
    let mut ops: Vec<u128> = Vec::new();
    for j in 0..n_ops {
        if j == done_at {
            ops.push(2);
        } else if j > done_at {
            match r.below(8) {
                0 => ops.extend([1, val(r)]),       // panics
                1 => ops.extend([3, 1, val(r)]),    // panics
                2 => ops.extend([3, 0]),            // extend with nothing: no panic
                _ => ops.push(2),
            }
        } else {
            match r.below(10) {
                0..=5 => ops.extend([1, val(r)]),
                6 => ops.extend([3, 0]),
                _ => {
                    let n = r.range(1, 4);
                    ops.extend([3, n as u128]);
                    for _ in 0..n {
                        ops.push(val(r));
                    }
                }
            }
        }
    }
    let k = match r.below(6) {
        0 => 0,
        1 => n_ops,
        2 if with_done => (done_at + 1 + r.below((n_ops - done_at) as u64) as usize).min(n_ops),
        _ => r.below(n_ops as u64 + 1) as usize,
    };
    let mx: u128 = if r.chance(1, 10) { r.below(20) as u128 } else { 1000 };
    let mut inp = vec![mx, 1, k as u128, n_init as u128];
    inp.extend(init);
    inp.extend(ops);
    vec![inp]
}

pub fn run(seed: u64, count: usize, extra: &[String], out: &mut impl Write) {
    // Rng::new of adjacent seeds yields shifted copies of one stream (the driver's shards use seeds s, s+1, ...):
    // scramble the seed first so that shards are independent
    let seed = Rng::new(seed ^ 0xC133).next();
    crate::drive(COMP, seed, count, extra, out, gen, exec);
}
