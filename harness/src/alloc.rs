//! C07 / C10: the local port-number allocator of a real connection (`Client::port_allocator()`), driven by hand:
//! `allocate()` futures are polled with flag wakers, so that the harness sees exactly which futures a released
//! number wakes, and can drop a future between its wake-up and its next poll.  Compared with `Run/RunAlloc.v`
//! (component 71), the executable interface of `Chmux/Alloc.v` about which `Props/C07c.v` is proved.
//!   input:  lim (op id)*      see RunAlloc.v
//!   output: per op the result (and for a release the woken futures), 77; finally used, live futures, 78
use crate::{conn, rng::Rng};
use futures::task::{waker, ArcWake};
use remoc::chmux::{Cfg, PortNumber};
use std::{
    collections::BTreeMap,
    future::Future,
    io::Write,
    pin::Pin,
    sync::{
        atomic::{AtomicBool, Ordering},
        Arc,
    },
    task::{Context, Poll},
};

const COMP: u128 = 71;

struct Flag(AtomicBool);
impl ArcWake for Flag {
    fn wake_by_ref(a: &Arc<Self>) {
        a.0.store(true, Ordering::SeqCst);
    }
}

struct Fut {
    fut: Pin<Box<dyn Future<Output = PortNumber>>>,
    flag: Arc<Flag>,
}

fn poll(f: &mut Fut) -> Option<PortNumber> {
    f.flag.0.store(false, Ordering::SeqCst);
    let w = waker(f.flag.clone());
    let mut cx = Context::from_waker(&w);
    match f.fut.as_mut().poll(&mut cx) {
        Poll::Ready(n) => Some(n),
        Poll::Pending => None,
    }
}

pub fn exec(inp: &[u128]) -> (Vec<u128>, String, String) {
    if inp.is_empty() || inp[0] == 0 || inp[0] > 64 {
        return (vec![98], "alloc:malformed".into(), "ok".into());
    }
    let lim = inp[0] as u32;
    let ops: Vec<u128> = inp[1..].to_vec();
    let rt = conn::runtime();
    rt.block_on(async move {
        let ca = Cfg { connection_timeout: None, max_ports: lim, ..Default::default() };
        let cb = Cfg { connection_timeout: None, ..Default::default() };
        let p = conn::connect(ca, cb).await;
        let al = p.a_client.port_allocator();
        let mut held: Vec<PortNumber> = Vec::new();
        let mut futs: BTreeMap<u128, Fut> = BTreeMap::new();
        let mut next: u128 = 0;
        let mut out = Vec::new();
        let (mut maxw, mut cancels, mut drops, mut woken_cancelled) = (0usize, 0usize, 0usize, false);
        let mut i = 0;
        while i + 1 < ops.len() {
            let (op, id) = (ops[i], ops[i + 1]);
            i += 2;
            match op {
                1 => match al.try_allocate() {
                    Some(n) => {
                        held.push(n);
                        out.push(1)
                    }
                    None => out.push(0),
                },
                2 => {
                    if id < next {
                        out.push(2);
                    } else {
                        next = id + 1;
                        let a2 = al.clone();
                        let mut f = Fut { fut: Box::pin(async move { a2.allocate().await }), flag: Arc::new(Flag(AtomicBool::new(false))) };
                        match poll(&mut f) {
                            Some(n) => {
                                held.push(n);
                                out.push(1);
                            }
                            None => {
                                futs.insert(id, f);
                                out.push(0);
                            }
                        }
                    }
                }
                3 => match futs.get_mut(&id) {
                    None => out.push(2),
                    Some(f) => match poll(f) {
                        Some(n) => {
                            held.push(n);
                            futs.remove(&id);
                            out.push(1);
                        }
                        None => out.push(0),
                    },
                },
                4 => match futs.remove(&id) {
                    None => out.push(2),
                    Some(f) => {
                        cancels += 1;
                        if f.flag.0.load(Ordering::SeqCst) {
                            woken_cancelled = true;
                        }
                        out.push(0);
                    }
                },
                5 => {
                    if held.is_empty() {
                        out.push(2);
                    } else {
                        drops += 1;
                        let before: Vec<u128> = futs.iter().filter(|(_, f)| f.flag.0.load(Ordering::SeqCst)).map(|(k, _)| *k).collect();
                        let k = (id as usize) % held.len();
                        drop(held.swap_remove(k));
                        out.push(1);
                        for (k, f) in futs.iter() {
                            if f.flag.0.load(Ordering::SeqCst) && !before.contains(k) {
                                out.push(*k);
                            }
                        }
                    }
                }
                _ => out.push(2),
            }
            maxw = maxw.max(futs.len());
            out.push(77);
        }
        // what an executor does from here: it polls the futures that were woken, and only those
        loop {
            let Some(id) = futs.iter().find(|(_, f)| f.flag.0.load(Ordering::SeqCst)).map(|(k, _)| *k) else { break };
            if let Some(n) = poll(futs.get_mut(&id).unwrap()) {
                held.push(n);
                futs.remove(&id);
            }
        }
        out.push(held.len() as u128);
        out.push(futs.len() as u128);
        out.push(78);
        let mut oracle = "ok".to_string();
        if held.len() > lim as usize {
            oracle = format!("FAIL: C07 {} port numbers in use with max_ports {lim}", held.len());
        } else if (held.len() as u32) < lim && !futs.is_empty() {
            oracle = format!(
                "FAIL: C07 lost wake-up: {} pending allocate() future(s) are never woken although {} of {lim} port numbers are free",
                futs.len(),
                lim as usize - held.len()
            );
        }
        let mut nums: Vec<u32> = held.iter().map(|n| **n).collect();
        nums.sort();
        nums.dedup();
        if nums.len() != held.len() {
            oracle = "FAIL: C07 the allocator handed out a number twice".into();
        }
        let sig = format!("alloc:l{}:w{}:c{}:d{}:{}", lim.min(3), maxw.min(3), cancels.min(2), drops.min(3), if woken_cancelled { "wc" } else { "-" });
        (out, sig, oracle)
    })
}

pub fn gen(r: &mut Rng, _i: usize) -> Vec<Vec<u128>> {
    let lim = r.range(1, 4) as u128;
    let mut v = vec![lim];
    let mut next = 1u128;
    let mut live: Vec<u128> = Vec::new();
    // fill up first, so that waiting is the common case
    for _ in 0..lim {
        if r.chance(5, 6) {
            v.extend([1, 0]);
        }
    }
    for _ in 0..r.range(4, 28) {
        match r.below(12) {
            0 => v.extend([1, 0]),
            1..=3 => {
                v.extend([2, next]);
                live.push(next);
                next += r.range(1, 2) as u128;
            }
            4..=5 if !live.is_empty() => v.extend([3, *r.pick(&live)]),
            6..=7 if !live.is_empty() => {
                let k = r.below(live.len() as u64) as usize;
                v.extend([4, live.swap_remove(k)]);
            }
            8..=10 => v.extend([5, r.below(4) as u128]),
            _ => v.extend([3, r.below(next as u64 + 2) as u128]),
        }
    }
    vec![v]
}

pub fn run(seed: u64, count: usize, extra: &[String], out: &mut impl Write) {
    crate::drive(COMP, seed ^ 0xA110C, count, extra, out, gen, exec);
}
