//! C14: real observable collections with small event buffers, slow consumers, size limits, drop of
//! the collection, mirrors and hand-held subscriptions; exact comparison with the model's big steps
//! (coq/theories/Run/RunRobsLag.v, component 14) and an independent oracle; a "remote" stream ships
//! the subscription over a real connection whose transport can be stalled and cut (oracle only).
//! Input/output format: see RunRobsLag.v.
use crate::{
    rng::Rng,
    robs_deque, robs_vec,
    robs_vec::{barrier, err_code, runtime},
    transport::{Fault, Net},
};
use remoc::{
    codec,
    rch::base,
    robs::{hash_map, hash_set, list, vec, vec_deque, RecvError},
};
use std::{
    collections::{BTreeMap, BTreeSet, VecDeque},
    io::Write,
    panic::{catch_unwind, AssertUnwindSafe},
    time::Duration,
};

const COMP: u128 = 14;
type Cd = codec::Default;

#[derive(Debug, Clone)]
enum Step {
    Burst(Vec<u128>),
    Sub { mirror: bool, incr: bool, cap: usize, mx: usize },
    Recv(usize, usize),
    DropColl,
    DropSub(usize),
    /// remote only: cut the connection
    Cut,
    /// remote only: stall / release the transport towards the subscriber
    Stall(bool),
}

fn parse_steps(l: &[u128], remote: bool) -> Option<Vec<Step>> {
    let mut pos = 0;
    let mut v = Vec::new();
    let small = |x: u128| if x < 1_000_000 { Some(x as usize) } else { None };
    while pos < l.len() {
        let c = l[pos];
        pos += 1;
        let mut next = || {
            let x = l.get(pos).copied();
            pos += 1;
            x
        };
        v.push(match c {
            1 => {
                let n = small(next()?)?;
                let xs = l.get(pos..pos + n)?.to_vec();
                pos += n;
                Step::Burst(xs)
            }
            2 => Step::Sub { mirror: next()? != 0, incr: next()? != 0, cap: small(next()?)?, mx: small(next()?)? },
            3 => Step::Recv(small(next()?)?, small(next()?)?),
            4 => Step::DropColl,
            5 => Step::DropSub(small(next()?)?),
            6 if remote => Step::Cut,
            7 if remote => Step::Stall(next()? != 0),
            _ => return None,
        });
    }
    Some(v)
}

/// What the run of one case produced.
struct Outcome {
    out: Vec<u128>,
    oracle: Result<(), String>,
    tags: Vec<String>,
}

fn cls_name(c: u128) -> &'static str {
    match c {
        0 => "ok",
        1 => "maxsize",
        2 => "invalid",
        3 => "closed",
        4 => "lagged",
        _ => "remote",
    }
}

/// Final record of a mirror.
#[derive(Clone, Debug)]
struct MirRec<C> {
    err: u128,
    cont: C,
    complete: bool,
    done: bool,
}

// ------------------------------------------------------------------------------------------------
// One body for the four broadcast-based kinds.
macro_rules! lag_kind {
    ($fname:ident, $kname:expr, $Obs:ty, $Sub:ty, $Mir:ty, $Ev:ty, $Cont:ty,
     from_init: $from_init:expr, decode: $decode:expr, apply: $apply:expr, enc_ev: $enc_ev:expr,
     enc_cont: $enc_cont:expr, cont_of: $cont_of:expr, hand: $hand:expr, init_events: $init_events:expr,
     ic: $ic:expr, done: $done:expr, canon: $canon:expr, size: $size:expr, hash_order: $hash_order:expr, checked: $checked:expr) => {
        fn $fname(init: &[u128], steps: &[Step]) -> Option<Outcome> {
            struct S {
                is_mirror: bool,
                incr: bool,
                mx: usize,
                mir: Option<$Mir>,
                hand: Option<$Sub>,
                start: usize,        // number of events sent before the subscription
                snapshot: $Cont,     // contents at subscription time
                done_at_sub: bool,
                log: Vec<$Ev>,
                err: u128,
                stopped: bool,
                rec: Option<MirRec<$Cont>>,
                first_err: Option<u128>,
                states_at_drop: Option<usize>,
            }
            let rt = runtime();
            let res = rt.block_on(async move {
                let (obs0, cont0): ($Obs, $Cont) = $from_init(init)?;
                let mut obs: Option<$Obs> = Some(obs0);
                let mut oracle: Result<(), String> = Ok(());
                let mut fail = |oracle: &mut Result<(), String>, m: String| {
                    if oracle.is_ok() {
                        *oracle = Err(m)
                    }
                };
                // reference subscription with a huge buffer: the history of events
                let mut s0: Option<$Sub> = obs.as_ref().map(|o| o.subscribe(1 << 16));
                if let Some(s) = s0.as_mut() {
                    let _ = s.take_initial();
                }
                let mut history: Vec<$Ev> = Vec::new();
                let mut states: Vec<$Cont> = vec![cont0.clone()];
                let mut checked_size: Vec<usize> = Vec::new(); // per event of the history
                let mut coll_done = false;
                let mut dropped_before_done = false;
                let mut subs: Vec<S> = Vec::new();

                macro_rules! sync_history {
                    () => {
                        if let Some(s) = s0.as_mut() {
                            loop {
                                match crate::recv_selectlike!(s) {
                                    Ok(Ok(Some(e))) => {
                                        let mut c = states.last().unwrap().clone();
                                        $hand(&mut c, &e);
                                        // size right after an event whose handling checks max_size
                                        checked_size.push(if $checked(&e) { $size(&c) } else { 0 });
                                        states.push(c);
                                        if e == $done {
                                            coll_done = true;
                                        }
                                        history.push(e);
                                    }
                                    Ok(Ok(None)) | Ok(Err(_)) => {
                                        s0 = None;
                                        break;
                                    }
                                    Err(_) => break,
                                }
                            }
                        }
                    };
                }
                // record / check the error a mirror reports (sticky)
                macro_rules! poll_mirrors {
                    () => {
                        for (i, s) in subs.iter_mut().enumerate() {
                            if let Some(m) = s.mir.as_ref() {
                                let e = match m.borrow().await {
                                    Ok(_) => 0,
                                    Err(e) => err_code(&e),
                                };
                                match s.first_err {
                                    None => {
                                        if e != 0 {
                                            s.first_err = Some(e)
                                        }
                                    }
                                    Some(f) => {
                                        if f != e {
                                            fail(&mut oracle, format!("mirror {i}: error class changed from {f} to {e} (not sticky)"));
                                        }
                                    }
                                }
                            }
                        }
                    };
                }

                for st in steps {
                    match st {
                        Step::Burst(xs) => {
                            let ops = match $decode(xs) {
                                Some(o) => o,
                                None => return None,
                            };
                            if let Some(o) = obs.as_mut() {
                                for op in &ops {
                                    // no scheduling point between the calls of a burst
                                    let _ = catch_unwind(AssertUnwindSafe(|| $apply(o, op)));
                                }
                            }
                        }
                        Step::Sub { mirror, incr, cap, mx } => {
                            if let Some(o) = obs.as_ref().filter(|o| *cap > 0 || o.is_done()) {
                                sync_history!();
                                let mut sub: $Sub = if *incr { o.subscribe_incremental(*cap) } else { o.subscribe(*cap) };
                                let snapshot = states.last().unwrap().clone();
                                let mut s = S {
                                    is_mirror: *mirror,
                                    incr: *incr,
                                    mx: *mx,
                                    mir: None,
                                    hand: None,
                                    start: history.len(),
                                    snapshot,
                                    done_at_sub: o.is_done(),
                                    log: Vec::new(),
                                    err: 0,
                                    stopped: false,
                                    rec: None,
                                    first_err: None,
                                    states_at_drop: None,
                                };
                                if *mirror {
                                    s.mir = Some(sub.mirror(*mx));
                                } else {
                                    let _ = sub.take_initial();
                                    s.hand = Some(sub);
                                }
                                subs.push(s);
                            }
                        }
                        Step::Recv(i, k) => {
                            if let Some(s) = subs.get_mut(*i) {
                                if let (Some(h), false) = (s.hand.as_mut(), s.stopped) {
                                    for _ in 0..*k {
                                        match crate::recv_selectlike!(h) {
                                            Err(_) => break,
                                            Ok(Ok(Some(e))) => s.log.push(e),
                                            Ok(Ok(None)) => break,
                                            Ok(Err(e)) => {
                                                s.err = err_code(&e);
                                                s.stopped = true;
                                                break;
                                            }
                                        }
                                    }
                                }
                            }
                        }
                        Step::DropColl => {
                            if let Some(o) = obs.take() {
                                if !o.is_done() {
                                    dropped_before_done = true;
                                }
                                drop(o);
                            }
                        }
                        Step::DropSub(i) => {
                            sync_history!();
                            if let Some(s) = subs.get_mut(*i) {
                                if let Some(m) = s.mir.take() {
                                    let (err, complete, done) = match m.borrow().await {
                                        Ok(r) => (0, r.is_complete(), r.is_done()),
                                        Err(e) => (err_code(&e), false, false),
                                    };
                                    let cont: $Cont = $cont_of(m.detach().await);
                                    s.rec = Some(MirRec { err, cont, complete, done });
                                    s.states_at_drop = Some(states.len());
                                }
                                if s.hand.take().is_some() {
                                    s.stopped = true;
                                }
                            }
                        }
                        Step::Cut | Step::Stall(_) => return None,
                    }
                    barrier().await;
                    sync_history!();
                    barrier().await;
                    poll_mirrors!();
                }
                barrier().await;
                sync_history!();
                poll_mirrors!();

                // ---- output and oracle
                let mut out: Vec<u128> = vec![77, subs.len() as u128];
                let mut tags: Vec<String> = Vec::new();
                let final_state = states.last().unwrap().clone();
                for (i, mut s) in subs.into_iter().enumerate() {
                    if s.is_mirror {
                        let live = s.rec.is_none();
                        let rec = match s.rec.take() {
                            Some(r) => r,
                            None => {
                                let m = s.mir.take().unwrap();
                                let b = match m.borrow().await {
                                    Ok(r) => Ok(($cont_of((*r).clone()), r.is_complete(), r.is_done())),
                                    Err(e) => Err(err_code(&e)),
                                };
                                match b {
                                    Ok((cont, complete, done)) => MirRec { err: 0, cont, complete, done },
                                    Err(err) => MirRec { err, cont: $cont_of(m.detach().await), complete: false, done: false },
                                }
                            }
                        };
                        out.extend([1, rec.err]);
                        if rec.err == 1 && $hash_order {
                            // which entry of an incremental initial value exceeds max_size depends on the hash order
                            out.push($size(&rec.cont) as u128);
                        } else {
                            $enc_cont(&rec.cont, &mut out);
                        }
                        if rec.err == 0 {
                            out.extend([rec.complete as u128, rec.done as u128]);
                        }
                        tags.push(format!("m-{}", cls_name(rec.err)));
                        // oracle: contents that differ from the history must come with an error
                        let upto = s.states_at_drop.unwrap_or(states.len());
                        if rec.err == 0 {
                            let expect = if live { Some(&final_state) } else { None };
                            let ok = match expect {
                                Some(f) => &rec.cont == f,
                                // detached earlier: some state between subscription and detach, or a part of
                                // the initial value of an incremental subscription
                                None => states[s.start.min(upto - 1)..upto].contains(&rec.cont) || (s.incr && !rec.complete),
                            };
                            if !ok {
                                fail(&mut oracle, format!("mirror {i}: no error but contents {:?} differ from the collection {:?}", rec.cont, final_state));
                            }
                            if live && rec.done != coll_done && !(dropped_before_done) {
                                fail(&mut oracle, format!("mirror {i}: done flag {} but collection done {}", rec.done, coll_done));
                            }
                            // the size limit: an event that is checked against max_size took the mirror beyond it
                            let over = checked_size[s.start..upto - 1].iter().any(|n| *n > s.mx)
                                || (s.incr && $size(&s.snapshot) > s.mx);
                            if over {
                                fail(&mut oracle, format!("mirror {i}: max_size {} exceeded but no error reported (contents {:?})", s.mx, rec.cont));
                            }
                            if live && dropped_before_done {
                                fail(&mut oracle, format!("mirror {i}: collection dropped before done but no error reported"));
                            }
                        } else {
                            let peak = states[s.start..].iter().map(|c| $size(c)).max().unwrap_or(0);
                            let legit = match rec.err {
                                1 => peak > s.mx,
                                3 => dropped_before_done,
                                4 => true,
                                _ => false,
                            };
                            if !legit {
                                fail(&mut oracle, format!("mirror {i}: reports error class {} without cause (max_size {}, peak {peak}, dropped {dropped_before_done})", rec.err, s.mx));
                            }
                            // last consistent contents: a state of the history (or a partial initial value / the
                            // over-size element of MaxSizeExceeded)
                            let consistent = states[s.start..].contains(&rec.cont) || s.incr || rec.err == 1;
                            if !consistent {
                                fail(&mut oracle, format!("mirror {i}: detached contents {:?} are no state of the history", rec.cont));
                            }
                        }
                        if let Some(f) = s.first_err {
                            if f != rec.err && live {
                                fail(&mut oracle, format!("mirror {i}: first reported error class {f}, finally {}", rec.err));
                            }
                        }
                    } else {
                        let mut log = s.log.clone();
                        if s.incr {
                            $canon(&mut log);
                        }
                        out.extend([0, s.err, log.len() as u128]);
                        // hash kinds: which entries of an unfinished initial value have arrived depends on the hash order
                        let partial_init = $hash_order && s.incr && !log.contains(&$ic);
                        if !partial_init {
                            for e in &log {
                                $enc_ev(e, &mut out);
                            }
                        }
                        tags.push(format!("h-{}", cls_name(s.err)));
                        // oracle: what recv returned is a gap-free prefix of what the subscription is entitled to
                        let mut expected: Vec<$Ev> = Vec::new();
                        if s.incr {
                            expected.extend($init_events(&s.snapshot));
                            expected.push($ic);
                        }
                        if s.done_at_sub {
                            expected.push($done);
                        } else {
                            expected.extend(history[s.start..].iter().cloned());
                        }
                        if partial_init {
                            let init: Vec<$Ev> = $init_events(&s.snapshot);
                            let mut seen: Vec<&$Ev> = Vec::new();
                            for e in &log {
                                if !init.contains(e) || seen.contains(&e) {
                                    fail(&mut oracle, format!("subscriber {i}: initial value {:?} but received {:?}", init, log));
                                }
                                seen.push(e);
                            }
                        } else if log.len() > expected.len() || log[..] != expected[..log.len()] {
                            fail(&mut oracle, format!("subscriber {i}: received {:?}, not a prefix of the history {:?}", log, expected));
                        }
                        let legit = match s.err {
                            0 | 4 => true,
                            3 => dropped_before_done,
                            _ => false,
                        };
                        if !legit {
                            fail(&mut oracle, format!("subscriber {i}: recv returned error class {} without cause", s.err));
                        }
                    }
                }
                Some(Outcome { out, oracle, tags })
            });
            drop(rt);
            res.map(|mut o: Outcome| {
                o.tags.insert(0, $kname.to_string());
                o
            })
        }
    };
}

fn vec_hand(c: &mut Vec<u64>, e: &vec::VecEvent<u64>) {
    let (mut a, mut b) = (false, false);
    let _ = robs_vec::hand_apply(c, &mut a, &mut b, e);
}
fn deque_hand(c: &mut VecDeque<u64>, e: &vec_deque::VecDequeEvent<u64>) {
    let (mut a, mut b) = (false, false);
    let _ = robs_deque::hand_apply(c, &mut a, &mut b, e);
}
fn enc_seq<'a>(it: impl Iterator<Item = &'a u64>, n: usize, out: &mut Vec<u128>) {
    out.push(n as u128);
    out.extend(it.map(|x| *x as u128));
}

lag_kind!(exec_vec, "vec", vec::ObservableVec<u64, Cd>, vec::VecSubscription<u64, Cd>, vec::MirroredVec<u64, Cd>,
    vec::VecEvent<u64>, Vec<u64>,
    from_init: |init: &[u128]| { let v: Vec<u64> = init.iter().map(|x| *x as u64).collect(); Some((vec::ObservableVec::from(v.clone()), v)) },
    decode: |xs: &Vec<u128>| robs_vec::decode_ops(xs),
    apply: |o: &mut vec::ObservableVec<u64, Cd>, op: &robs_vec::Op| { robs_vec::apply(o, op); },
    enc_ev: |e: &vec::VecEvent<u64>, out: &mut Vec<u128>| robs_vec::enc_event(e, out),
    enc_cont: |c: &Vec<u64>, out: &mut Vec<u128>| enc_seq(c.iter(), c.len(), out),
    cont_of: |v: Vec<u64>| v,
    hand: vec_hand,
    init_events: |c: &Vec<u64>| c.iter().map(|x| vec::VecEvent::Push(*x)).collect::<Vec<_>>(),
    ic: vec::VecEvent::InitialComplete, done: vec::VecEvent::Done,
    canon: |_l: &mut Vec<vec::VecEvent<u64>>| (),
    size: |c: &Vec<u64>| c.len(), hash_order: false,
    checked: |e: &vec::VecEvent<u64>| matches!(e, vec::VecEvent::Push(_)));

lag_kind!(exec_deque, "deque", vec_deque::ObservableVecDeque<u64, Cd>, vec_deque::VecDequeSubscription<u64, Cd>,
    vec_deque::MirroredVecDeque<u64, Cd>, vec_deque::VecDequeEvent<u64>, VecDeque<u64>,
    from_init: |init: &[u128]| { let v: VecDeque<u64> = init.iter().map(|x| *x as u64).collect(); Some((vec_deque::ObservableVecDeque::from(v.clone()), v)) },
    decode: |xs: &Vec<u128>| robs_deque::decode_ops(xs),
    apply: |o: &mut vec_deque::ObservableVecDeque<u64, Cd>, op: &robs_deque::Op| { robs_deque::apply(o, op); },
    enc_ev: |e: &vec_deque::VecDequeEvent<u64>, out: &mut Vec<u128>| robs_deque::enc_event(e, out),
    enc_cont: |c: &VecDeque<u64>, out: &mut Vec<u128>| enc_seq(c.iter(), c.len(), out),
    cont_of: |v: VecDeque<u64>| v,
    hand: deque_hand,
    init_events: |c: &VecDeque<u64>| c.iter().map(|x| vec_deque::VecDequeEvent::PushBack(*x)).collect::<Vec<_>>(),
    ic: vec_deque::VecDequeEvent::InitialComplete, done: vec_deque::VecDequeEvent::Done,
    canon: |_l: &mut Vec<vec_deque::VecDequeEvent<u64>>| (),
    size: |c: &VecDeque<u64>| c.len(), hash_order: false,
    checked: |e: &vec_deque::VecDequeEvent<u64>| matches!(e, vec_deque::VecDequeEvent::PushBack(_) | vec_deque::VecDequeEvent::PushFront(_)));

// ---- hash map / hash set: own small op encoding (single-event calls)
#[derive(Debug, Clone)]
enum KOp {
    Insert(u64, u64),
    Remove(u64),
    Clear,
    Done,
    Shrink,
}
fn decode_kops(xs: &[u128], with_value: bool) -> Option<Vec<KOp>> {
    let mut pos = 0;
    let mut v = Vec::new();
    while pos < xs.len() {
        let c = xs[pos];
        pos += 1;
        v.push(match c {
            1 => {
                let k = *xs.get(pos)? as u64;
                pos += 1;
                let val = if with_value {
                    pos += 1;
                    *xs.get(pos - 1)? as u64
                } else {
                    0
                };
                KOp::Insert(k, val)
            }
            2 => {
                pos += 1;
                KOp::Remove(*xs.get(pos - 1)? as u64)
            }
            3 => KOp::Clear,
            4 => KOp::Done,
            5 => KOp::Shrink,
            _ => return None,
        });
    }
    Some(v)
}
fn map_apply(o: &mut hash_map::ObservableHashMap<u64, u64, Cd>, op: &KOp) {
    match op {
        KOp::Insert(k, v) => {
            o.insert(*k, *v);
        }
        KOp::Remove(k) => {
            o.remove(k);
        }
        KOp::Clear => o.clear(),
        KOp::Done => o.done(),
        KOp::Shrink => o.shrink_to_fit(),
    }
}
fn set_apply(o: &mut hash_set::ObservableHashSet<u64, Cd>, op: &KOp) {
    match op {
        KOp::Insert(k, _) => {
            o.insert(*k);
        }
        KOp::Remove(k) => {
            o.remove(k);
        }
        KOp::Clear => o.clear(),
        KOp::Done => o.done(),
        KOp::Shrink => o.shrink_to_fit(),
    }
}
fn map_enc_ev(e: &hash_map::HashMapEvent<u64, u64>, out: &mut Vec<u128>) {
    use hash_map::HashMapEvent::*;
    match e {
        Set(k, v) => out.extend([1, *k as u128, *v as u128]),
        Remove(k) => out.extend([2, *k as u128]),
        Clear => out.push(3),
        ShrinkToFit => out.push(4),
        Done => out.push(5),
        InitialComplete => out.push(6),
    }
}
fn set_enc_ev(e: &hash_set::HashSetEvent<u64>, out: &mut Vec<u128>) {
    use hash_set::HashSetEvent::*;
    match e {
        Set(k) => out.extend([1, *k as u128]),
        Remove(k) => out.extend([2, *k as u128]),
        Clear => out.push(3),
        ShrinkToFit => out.push(4),
        Done => out.push(5),
        InitialComplete => out.push(6),
    }
}
fn map_hand(c: &mut BTreeMap<u64, u64>, e: &hash_map::HashMapEvent<u64, u64>) {
    use hash_map::HashMapEvent::*;
    match e {
        Set(k, v) => {
            c.insert(*k, *v);
        }
        Remove(k) => {
            c.remove(k);
        }
        Clear => c.clear(),
        _ => (),
    }
}
fn set_hand(c: &mut BTreeSet<u64>, e: &hash_set::HashSetEvent<u64>) {
    use hash_set::HashSetEvent::*;
    match e {
        Set(k) => {
            c.insert(*k);
        }
        Remove(k) => {
            c.remove(k);
        }
        Clear => c.clear(),
        _ => (),
    }
}
/// the initial value of an incremental subscription arrives in hash order: sort that segment by key
fn map_canon(l: &mut Vec<hash_map::HashMapEvent<u64, u64>>) {
    let n = l.iter().position(|e| matches!(e, hash_map::HashMapEvent::InitialComplete)).unwrap_or(l.len());
    l[..n].sort_by_key(|e| match e {
        hash_map::HashMapEvent::Set(k, _) => *k,
        _ => u64::MAX,
    });
}
fn set_canon(l: &mut Vec<hash_set::HashSetEvent<u64>>) {
    let n = l.iter().position(|e| matches!(e, hash_set::HashSetEvent::InitialComplete)).unwrap_or(l.len());
    l[..n].sort_by_key(|e| match e {
        hash_set::HashSetEvent::Set(k) => *k,
        _ => u64::MAX,
    });
}

lag_kind!(exec_map, "map", hash_map::ObservableHashMap<u64, u64, Cd>, hash_map::HashMapSubscription<u64, u64, Cd>,
    hash_map::MirroredHashMap<u64, u64, Cd>, hash_map::HashMapEvent<u64, u64>, BTreeMap<u64, u64>,
    from_init: |init: &[u128]| {
        let mut m = BTreeMap::new();
        for c in init.chunks(2) { if c.len() == 2 { m.insert(c[0] as u64, c[1] as u64); } }
        let hm: std::collections::HashMap<u64, u64> = m.iter().map(|(k, v)| (*k, *v)).collect();
        Some((hash_map::ObservableHashMap::from(hm), m))
    },
    decode: |xs: &Vec<u128>| decode_kops(xs, true),
    apply: |o: &mut hash_map::ObservableHashMap<u64, u64, Cd>, op: &KOp| map_apply(o, op),
    enc_ev: map_enc_ev,
    enc_cont: |c: &BTreeMap<u64, u64>, out: &mut Vec<u128>| { out.push(c.len() as u128); for (k, v) in c { out.extend([*k as u128, *v as u128]); } },
    cont_of: |m: std::collections::HashMap<u64, u64>| m.into_iter().collect::<BTreeMap<u64, u64>>(),
    hand: map_hand,
    init_events: |c: &BTreeMap<u64, u64>| c.iter().map(|(k, v)| hash_map::HashMapEvent::Set(*k, *v)).collect::<Vec<_>>(),
    ic: hash_map::HashMapEvent::InitialComplete, done: hash_map::HashMapEvent::Done,
    canon: map_canon,
    size: |c: &BTreeMap<u64, u64>| c.len(), hash_order: true,
    checked: |e: &hash_map::HashMapEvent<u64, u64>| matches!(e, hash_map::HashMapEvent::Set(..)));

lag_kind!(exec_set, "set", hash_set::ObservableHashSet<u64, Cd>, hash_set::HashSetSubscription<u64, Cd>,
    hash_set::MirroredHashSet<u64, Cd>, hash_set::HashSetEvent<u64>, BTreeSet<u64>,
    from_init: |init: &[u128]| {
        let s: BTreeSet<u64> = init.iter().map(|x| *x as u64).collect();
        let hs: std::collections::HashSet<u64> = s.iter().copied().collect();
        Some((hash_set::ObservableHashSet::from(hs), s))
    },
    decode: |xs: &Vec<u128>| decode_kops(xs, false),
    apply: |o: &mut hash_set::ObservableHashSet<u64, Cd>, op: &KOp| set_apply(o, op),
    enc_ev: set_enc_ev,
    enc_cont: |c: &BTreeSet<u64>, out: &mut Vec<u128>| { out.push(c.len() as u128); out.extend(c.iter().map(|x| *x as u128)); },
    cont_of: |m: std::collections::HashSet<u64>| m.into_iter().collect::<BTreeSet<u64>>(),
    hand: set_hand,
    init_events: |c: &BTreeSet<u64>| c.iter().map(|k| hash_set::HashSetEvent::Set(*k)).collect::<Vec<_>>(),
    ic: hash_set::HashSetEvent::InitialComplete, done: hash_set::HashSetEvent::Done,
    canon: set_canon,
    size: |c: &BTreeSet<u64>| c.len(), hash_order: true,
    checked: |e: &hash_set::HashSetEvent<u64>| matches!(e, hash_set::HashSetEvent::Set(_)));

// ------------------------------------------------------------------------------------------------
// append-only list
fn exec_list(init: &[u128], steps: &[Step]) -> Option<Outcome> {
    struct S {
        is_mirror: bool,
        mx: usize,
        mir: Option<list::MirroredList<u64>>,
        hand: Option<list::ListSubscription<u64, Cd>>,
        log: Vec<list::ListEvent<u64>>,
        err: u128,
        stopped: bool,
        rec: Option<MirRec<Vec<u64>>>,
    }
    let init: Vec<u64> = init.iter().map(|x| *x as u64).collect();
    let rt = runtime();
    let res = rt.block_on(async move {
        let mut oracle: Result<(), String> = Ok(());
        let fail = |oracle: &mut Result<(), String>, m: String| {
            if oracle.is_ok() {
                *oracle = Err(m)
            }
        };
        let mut obs: Option<list::ObservableList<u64, Cd>> = Some(list::ObservableList::from(init.clone()));
        let mut all: Vec<u64> = init.clone(); // every element pushed so far
        let mut coll_done = false;
        let mut dropped_before_done = false;
        let mut subs: Vec<S> = Vec::new();
        for st in steps {
            match st {
                Step::Burst(xs) => {
                    let mut pos = 0;
                    while pos < xs.len() {
                        let c = xs[pos];
                        pos += 1;
                        match c {
                            1 => {
                                let v = *xs.get(pos)? as u64;
                                pos += 1;
                                if let Some(o) = obs.as_mut() {
                                    if catch_unwind(AssertUnwindSafe(|| o.push(v))).is_ok() {
                                        all.push(v);
                                    }
                                }
                            }
                            2 => {
                                if let Some(o) = obs.as_mut() {
                                    o.done();
                                    coll_done = true;
                                }
                            }
                            _ => return None,
                        }
                    }
                }
                Step::Sub { mirror, mx, .. } => {
                    if let Some(o) = obs.as_ref() {
                        let sub = o.subscribe();
                        let mut s = S { is_mirror: *mirror, mx: *mx, mir: None, hand: None, log: Vec::new(), err: 0, stopped: false, rec: None };
                        if *mirror {
                            s.mir = Some(sub.mirror(*mx));
                        } else {
                            s.hand = Some(sub);
                        }
                        subs.push(s);
                    }
                }
                Step::Recv(i, k) => {
                    if let Some(s) = subs.get_mut(*i) {
                        if let (Some(h), false) = (s.hand.as_mut(), s.stopped) {
                            for _ in 0..*k {
                                match crate::recv_selectlike!(h) {
                                    Err(_) => break,
                                    Ok(Ok(Some(e))) => s.log.push(e),
                                    Ok(Ok(None)) => break,
                                    Ok(Err(e)) => {
                                        s.err = err_code(&e);
                                        s.stopped = true;
                                        break;
                                    }
                                }
                            }
                        }
                    }
                }
                Step::DropColl => {
                    if let Some(o) = obs.take() {
                        if !o.is_done() {
                            dropped_before_done = true;
                        }
                        drop(o);
                    }
                }
                Step::DropSub(i) => {
                    if let Some(s) = subs.get_mut(*i) {
                        if let Some(m) = s.mir.take() {
                            let (err, complete, done) = match m.borrow().await {
                                Ok(r) => (0, r.is_complete(), r.is_done()),
                                Err(e) => (err_code(&e), false, false),
                            };
                            s.rec = Some(MirRec { err, cont: m.detach().await, complete, done });
                        }
                        if s.hand.take().is_some() {
                            s.stopped = true;
                        }
                    }
                }
                Step::Cut | Step::Stall(_) => return None,
            }
            barrier().await;
            barrier().await;
        }
        barrier().await;
        let mut out: Vec<u128> = vec![77, subs.len() as u128];
        let mut tags: Vec<String> = vec!["list".into()];
        for (i, mut s) in subs.into_iter().enumerate() {
            if s.is_mirror {
                let live = s.rec.is_none();
                let rec = match s.rec.take() {
                    Some(r) => r,
                    None => {
                        let m = s.mir.take().unwrap();
                        let b = match m.borrow().await {
                            Ok(r) => Ok(((*r).clone(), r.is_complete(), r.is_done())),
                            Err(e) => Err(err_code(&e)),
                        };
                        match b {
                            Ok((cont, complete, done)) => MirRec { err: 0, cont, complete, done },
                            Err(err) => MirRec { err, cont: m.detach().await, complete: false, done: false },
                        }
                    }
                };
                out.extend([1, rec.err, rec.cont.len() as u128]);
                out.extend(rec.cont.iter().map(|x| *x as u128));
                if rec.err == 0 {
                    out.extend([rec.complete as u128, rec.done as u128]);
                }
                tags.push(format!("m-{}", cls_name(rec.err)));
                // oracle: a list mirror holds a prefix of the list; without error and at rest: all of it
                if rec.cont.len() > all.len() + 1 || rec.cont[..rec.cont.len().min(all.len())] != all[..rec.cont.len().min(all.len())] {
                    fail(&mut oracle, format!("list mirror {i}: contents {:?} are no prefix of the list {:?}", rec.cont, all));
                }
                if rec.err == 0 && live {
                    if rec.cont != all {
                        fail(&mut oracle, format!("list mirror {i}: no error but contents {:?} differ from the list {:?}", rec.cont, all));
                    }
                    if rec.done != coll_done || dropped_before_done {
                        fail(&mut oracle, format!("list mirror {i}: done {} (list done {coll_done}, dropped before done {dropped_before_done}) without error", rec.done));
                    }
                }
                let legit = match rec.err {
                    0 => true,
                    1 => all.len() > s.mx,
                    3 => dropped_before_done,
                    _ => false, // a list subscriber never lags
                };
                if !legit {
                    fail(&mut oracle, format!("list mirror {i}: error class {} without cause", rec.err));
                }
            } else {
                out.extend([0, s.err, s.log.len() as u128]);
                for e in &s.log {
                    match e {
                        list::ListEvent::Push(v) => out.extend([1, *v as u128]),
                        list::ListEvent::Done => out.push(2),
                        list::ListEvent::InitialComplete => out.push(3),
                    }
                }
                tags.push(format!("h-{}", cls_name(s.err)));
                // oracle: every element exactly once, in order; Done only after all elements
                let vals: Vec<u64> = s.log.iter().filter_map(|e| if let list::ListEvent::Push(v) = e { Some(*v) } else { None }).collect();
                if vals.len() > all.len() || vals[..] != all[..vals.len()] {
                    fail(&mut oracle, format!("list subscriber {i}: received {:?}, not a prefix of the list {:?}", vals, all));
                }
                if let Some(p) = s.log.iter().position(|e| matches!(e, list::ListEvent::Done)) {
                    if p + 1 != s.log.len() || vals != all || !coll_done {
                        fail(&mut oracle, format!("list subscriber {i}: Done at position {p} of {:?} but the list is {:?}", s.log, all));
                    }
                }
                if !(s.err == 0 || (s.err == 3 && dropped_before_done)) {
                    fail(&mut oracle, format!("list subscriber {i}: recv returned error class {} without cause", s.err));
                }
            }
        }
        Some(Outcome { out, oracle, tags })
    });
    drop(rt);
    res
}

// ------------------------------------------------------------------------------------------------
// remote: the subscription of a vector is shipped over a real connection and mirrored / consumed on
// the other side; the transport towards the subscriber can be stalled and cut.  Oracle only.
fn exec_remote(init: &[u128], steps: &[Step]) -> Option<Outcome> {
    type Sub = vec::VecSubscription<u64, Cd>;
    struct S {
        is_mirror: bool,
        mx: usize,
        mir: Option<vec::MirroredVec<u64, Cd>>,
        hand: Option<Sub>,
        hand_v: Vec<u64>,
        hand_err: u128,
        start: usize,
    }
    let init: Vec<u64> = init.iter().map(|x| *x as u64).collect();
    let rt = runtime();
    let res = rt.block_on(async move {
        let net = Net::new(true);
        let cfg = || remoc::Cfg { connection_timeout: None, shared_send_queue: 1, transport_send_queue: 1, transport_receive_queue: 1, ..Default::default() };
        let a = remoc::Connect::framed::<_, _, Sub, (), Cd>(cfg(), net.a2b.sink(), net.b2a.stream());
        let b = remoc::Connect::framed::<_, _, (), Sub, Cd>(cfg(), net.b2a.sink(), net.a2b.stream());
        let (ra, rb) = tokio::join!(a, b);
        let (conn_a, mut sub_tx, _): (_, base::Sender<Sub, Cd>, base::Receiver<(), Cd>) = ra.map_err(|e| e.to_string()).expect("connect a");
        let (conn_b, _, mut sub_rx): (_, base::Sender<(), Cd>, base::Receiver<Sub, Cd>) = rb.map_err(|e| e.to_string()).expect("connect b");
        let ha = tokio::spawn(conn_a);
        let hb = tokio::spawn(conn_b);

        let mut oracle: Result<(), String> = Ok(());
        let fail = |oracle: &mut Result<(), String>, m: String| {
            if oracle.is_ok() {
                *oracle = Err(m)
            }
        };
        let mut obs: Option<vec::ObservableVec<u64, Cd>> = Some(vec::ObservableVec::from(init.clone()));
        let mut s0 = obs.as_ref().map(|o| o.subscribe(1 << 16));
        if let Some(s) = s0.as_mut() {
            let _ = s.take_initial();
        }
        let mut states: Vec<Vec<u64>> = vec![init.clone()];
        let mut coll_done = false;
        let mut dropped_before_done = false;
        let mut cut = false;
        let mut stalled = false;
        let mut subs: Vec<S> = Vec::new();
        macro_rules! sync_history {
            () => {
                if let Some(s) = s0.as_mut() {
                    loop {
                        match crate::recv_selectlike!(s) {
                            Ok(Ok(Some(e))) => {
                                let mut c = states.last().unwrap().clone();
                                vec_hand(&mut c, &e);
                                states.push(c);
                                if e == vec::VecEvent::Done {
                                    coll_done = true;
                                }
                            }
                            Ok(Ok(None)) | Ok(Err(_)) => {
                                s0 = None;
                                break;
                            }
                            Err(_) => break,
                        }
                    }
                }
            };
        }
        for st in steps {
            match st {
                Step::Burst(xs) => {
                    let ops = robs_vec::decode_ops(xs)?;
                    if let Some(o) = obs.as_mut() {
                        for op in &ops {
                            let _ = catch_unwind(AssertUnwindSafe(|| robs_vec::apply(o, op)));
                        }
                    }
                }
                Step::Sub { mirror, incr, cap, mx } => {
                    if let (Some(o), true, false) = (obs.as_ref(), *cap > 0, cut) {
                        sync_history!();
                        let sub = if *incr { o.subscribe_incremental(*cap) } else { o.subscribe(*cap) };
                        // the subscription itself travels over an unstalled transport
                        net.a2b.set_sink_ready(true);
                        if sub_tx.send(sub).await.is_ok() {
                            barrier().await;
                            if let Ok(Ok(Some(mut rsub))) = tokio::time::timeout(Duration::from_secs(1), sub_rx.recv()).await {
                                let mut s = S { is_mirror: *mirror, mx: *mx, mir: None, hand: None, hand_v: Vec::new(), hand_err: 0, start: states.len() - 1 };
                                if *mirror {
                                    s.mir = Some(rsub.mirror(*mx));
                                } else {
                                    s.hand_v = rsub.take_initial().unwrap_or_default();
                                    s.hand = Some(rsub);
                                }
                                subs.push(s);
                            }
                        }
                        net.a2b.set_sink_ready(!stalled);
                    }
                }
                Step::Recv(i, k) => {
                    if let Some(s) = subs.get_mut(*i) {
                        if let (Some(h), 0) = (s.hand.as_mut(), s.hand_err) {
                            for _ in 0..*k {
                                match crate::recv_selectlike!(h) {
                                    Err(_) => break,
                                    Ok(Ok(Some(e))) => vec_hand(&mut s.hand_v, &e),
                                    Ok(Ok(None)) => break,
                                    Ok(Err(e)) => {
                                        s.hand_err = err_code(&e);
                                        break;
                                    }
                                }
                            }
                        }
                    }
                }
                Step::DropColl => {
                    if let Some(o) = obs.take() {
                        if !o.is_done() {
                            dropped_before_done = true;
                        }
                    }
                }
                Step::DropSub(_) => (),
                Step::Cut => {
                    cut = true;
                    net.a2b.fail(Fault::StreamErr);
                    net.b2a.fail(Fault::StreamErr);
                    net.a2b.set_sink_ready(true);
                }
                Step::Stall(b) => {
                    stalled = *b;
                    net.a2b.set_sink_ready(!*b || cut);
                }
            }
            barrier().await;
            sync_history!();
        }
        // let everything that can still arrive arrive
        net.a2b.set_sink_ready(true);
        for _ in 0..6 {
            barrier().await;
            sync_history!();
        }
        let final_state = states.last().unwrap().clone();
        let mut tags: Vec<String> = vec!["remote".into()];
        for (i, mut s) in subs.into_iter().enumerate() {
            if s.is_mirror {
                let m = s.mir.take().unwrap();
                let b = match m.borrow().await {
                    Ok(r) => Ok(((*r).clone(), r.is_done())),
                    Err(e) => Err(err_code(&e)),
                };
                match b {
                    Ok((cont, done)) => {
                        tags.push("m-ok".into());
                        if cont != final_state {
                            fail(&mut oracle, format!("remote mirror {i}: no error but contents {:?} differ from the vector {:?} (cut {cut})", cont, final_state));
                        } else if done != coll_done || dropped_before_done {
                            fail(&mut oracle, format!("remote mirror {i}: done {done}, vector done {coll_done}, dropped before done {dropped_before_done}, no error"));
                        }
                    }
                    Err(code) => {
                        tags.push(format!("m-{}", cls_name(code)));
                        let peak = states[s.start..].iter().map(|c| c.len()).max().unwrap_or(0);
                        let legit = match code {
                            1 => peak > s.mx,
                            3 => dropped_before_done || cut,
                            4 => true,
                            5 => cut,
                            _ => false,
                        };
                        if !legit {
                            fail(&mut oracle, format!("remote mirror {i}: error class {code} without cause (cut {cut})"));
                        }
                        let _ = m.detach().await;
                    }
                }
            } else {
                tags.push(format!("h-{}", cls_name(s.hand_err)));
                // a consumer by hand that was given no error has applied a gap-free prefix: its vector is a
                // state of the history
                if !states[s.start..].contains(&s.hand_v) && s.hand_err == 0 {
                    // incremental subscriptions pass through partial initial values
                    let partial = s.hand_v.len() <= states[s.start].len() && s.hand_v[..] == states[s.start][..s.hand_v.len()];
                    if !partial {
                        fail(&mut oracle, format!("remote subscriber {i}: vector {:?} is no state of the history and no error was returned", s.hand_v));
                    }
                }
                let legit = match s.hand_err {
                    0 | 4 => true,
                    3 => dropped_before_done || cut,
                    5 => cut,
                    _ => false,
                };
                if !legit {
                    fail(&mut oracle, format!("remote subscriber {i}: error class {} without cause", s.hand_err));
                }
            }
        }
        ha.abort();
        hb.abort();
        Some(Outcome { out: vec![96], oracle, tags })
    });
    drop(rt);
    res
}

// ------------------------------------------------------------------------------------------------
pub fn exec(inp: &[u128]) -> (Vec<u128>, String, String) {
    let bad = || (vec![98], "lag:malformed".to_string(), "ok".to_string());
    if inp.len() < 2 || inp[1] > 1000 {
        return bad();
    }
    let kind = inp[0];
    let n = inp[1] as usize * if kind == 2 { 2 } else { 1 };
    if inp.len() < 2 + n {
        return bad();
    }
    let init = &inp[2..2 + n];
    let steps = match parse_steps(&inp[2 + n..], kind >= 100) {
        Some(s) => s,
        None => return bad(),
    };
    let o = match kind {
        0 => exec_vec(init, &steps),
        1 => exec_deque(init, &steps),
        2 => exec_map(init, &steps),
        3 => exec_set(init, &steps),
        4 => exec_list(init, &steps),
        k if k >= 100 => exec_remote(init, &steps),
        _ => None,
    };
    match o {
        None => bad(),
        Some(o) => {
            let mut tags = o.tags.clone();
            let kind = tags.remove(0);
            tags.sort();
            tags.dedup();
            let sig = format!("lag:{kind}:{}", if tags.is_empty() { "nosub".to_string() } else { tags.join("+") });
            (o.out, sig, match o.oracle {
                Ok(()) => "ok".to_string(),
                Err(m) => format!("FAIL: {m}"),
            })
        }
    }
}

// ------------------------------------------------------------------------------------------------
fn gen_ops(r: &mut Rng, kind: u128, len: &mut usize, n: usize, allow_done: bool) -> Vec<u128> {
    let mut v = Vec::new();
    for _ in 0..n {
        match kind {
            0 => match r.below(10) {
                0..=3 => {
                    v.extend([1, r.below(50) as u128]);
                    *len += 1;
                }
                4 => {
                    v.push(2);
                    *len = len.saturating_sub(1);
                }
                5 if *len > 0 => v.extend([3, r.below(*len as u64) as u128, 1, r.below(50) as u128]),
                6 if *len > 0 => {
                    // iter_mut: several Set events from one call
                    let n = (*len).min(3);
                    v.extend([4, r.below(2) as u128, n as u128]);
                    for _ in 0..n {
                        v.extend([1, r.below(50) as u128]);
                    }
                }
                7 => {
                    v.extend([5, r.below(*len as u64 + 1) as u128, r.below(50) as u128]);
                    *len += 1;
                }
                8 if *len > 0 => {
                    v.extend([7, r.below(*len as u64) as u128]);
                    *len -= 1;
                }
                9 if allow_done && r.chance(1, 4) => v.push(14),
                _ => v.push(13),
            },
            1 => match r.below(10) {
                0..=2 => {
                    v.extend([1, r.below(50) as u128]);
                    *len += 1;
                }
                3 => {
                    v.extend([2, r.below(50) as u128]);
                    *len += 1;
                }
                4 => {
                    v.push(3);
                    *len = len.saturating_sub(1);
                }
                5 => {
                    v.push(4);
                    *len = len.saturating_sub(1);
                }
                6 if *len > 0 => v.extend([5, r.below(*len as u64) as u128, 1, r.below(50) as u128]),
                7 => {
                    v.extend([7, r.below(*len as u64 + 1) as u128, r.below(50) as u128]);
                    *len += 1;
                }
                8 if *len > 0 => {
                    v.extend([9, r.below(*len as u64) as u128]);
                    *len -= 1;
                }
                9 if allow_done && r.chance(1, 4) => v.push(16),
                _ => v.push(15),
            },
            2 => match r.below(10) {
                0..=4 => v.extend([1, r.below(8) as u128, r.below(50) as u128]),
                5..=6 => v.extend([2, r.below(8) as u128]),
                7 => v.push(3),
                8 if allow_done && r.chance(1, 4) => v.push(4),
                _ => v.push(5),
            },
            3 => match r.below(10) {
                0..=4 => v.extend([1, r.below(8) as u128]),
                5..=6 => v.extend([2, r.below(8) as u128]),
                7 => v.push(3),
                8 if allow_done && r.chance(1, 4) => v.push(4),
                _ => v.push(5),
            },
            _ => {
                if allow_done && r.chance(1, 12) {
                    v.push(2)
                } else {
                    v.extend([1, r.below(50) as u128])
                }
            }
        }
    }
    v
}

pub fn gen(r: &mut Rng, i: usize) -> Vec<Vec<u128>> {
    let remote = i % 6 == 5;
    let kind: u128 = if remote { 0 } else { [0u128, 1, 2, 3, 4, 0, 2][r.below(7) as usize] };
    let n_init = r.below(4) as usize;
    let mut inp: Vec<u128> = vec![if remote { 100 } else { kind }, n_init as u128];
    let mut len = n_init;
    for j in 0..n_init {
        match kind {
            2 => inp.extend([j as u128, r.below(50) as u128]),
            3 => inp.push(j as u128),
            _ => inp.push(r.below(50) as u128),
        }
    }
    let mut nsubs = 0usize;
    let mut dropped = false;
    // a few subscribers up front, so that most steps have someone to lag
    let sub = |r: &mut Rng, inp: &mut Vec<u128>, nsubs: &mut usize| {
        let mirror = r.chance(3, 5);
        let mx = if r.chance(1, 6) { r.range(1, 5) } else { 1000 };
        inp.extend([2, mirror as u128, r.below(2) as u128, r.range(1, 4) as u128, mx as u128]);
        *nsubs += 1;
    };
    for _ in 0..r.range(1, 3) {
        sub(r, &mut inp, &mut nsubs);
    }
    let n_steps = r.range(3, 14);
    for _ in 0..n_steps {
        match r.below(if remote { 14 } else { 12 }) {
            0..=4 => {
                let n = *r.pick(&[1usize, 1, 2, 3, 5, 8]);
                let ops = gen_ops(r, kind, &mut len, n, !dropped);
                inp.extend([1, ops.len() as u128]);
                inp.extend(ops);
            }
            5..=7 if nsubs > 0 => inp.extend([3, r.below(nsubs as u64) as u128, *r.pick(&[1u128, 1, 2, 3, 10])]),
            8 => sub(r, &mut inp, &mut nsubs),
            9 if r.chance(1, 3) => {
                inp.push(4);
                dropped = true;
            }
            10 if nsubs > 0 && r.chance(1, 2) && !remote => inp.extend([5, r.below(nsubs as u64) as u128]),
            12 => inp.push(6),
            13 => inp.extend([7, r.below(2) as u128]),
            _ => {
                let ops = gen_ops(r, kind, &mut len, 1, !dropped);
                inp.extend([1, ops.len() as u128]);
                inp.extend(ops);
            }
        }
    }
    // let the slow consumers catch up at the end in most cases
    if r.chance(2, 3) {
        for s in 0..nsubs {
            inp.extend([3, s as u128, 40]);
        }
    }
    vec![inp]
}

pub fn run(seed: u64, count: usize, extra: &[String], out: &mut impl Write) {
    crate::drive(COMP, seed ^ 0xC14, count, extra, out, gen, exec);
}
