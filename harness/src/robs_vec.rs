//! C13 (vector): random mutator sequences on the real `ObservableVec`, a hand-held subscription from the
//! start (events per op), a real local `mirror()` and a hand-consumed subscription taken after `k` ops.
//! Input/output format: see coq/theories/Run/RunRobsVec.v.
use crate::rng::Rng;
use remoc::robs::{
    vec::{ObservableVec, VecEvent, VecSubscription},
    RecvError,
};
use std::{
    io::Write,
    panic::{catch_unwind, AssertUnwindSafe},
    time::Duration,
};

const COMP: u128 = 131;
pub const BUF: usize = 4096;
type Codec = remoc::codec::Default;

// ------------------------------------------------------------------------------------------------
// helpers shared with robs_deque / robs_list

/// Quiescence barrier: with the paused clock this returns only when every other task is idle.
pub async fn barrier() {
    tokio::time::sleep(Duration::from_nanos(1)).await;
}

pub fn runtime() -> tokio::runtime::Runtime {
    tokio::runtime::Builder::new_current_thread().enable_time().start_paused(true).build().unwrap()
}

pub fn err_code(e: &RecvError) -> u128 {
    match e {
        RecvError::MaxSizeExceeded(_) => 1,
        RecvError::InvalidIndex(_) => 2,
        RecvError::Closed => 3,
        RecvError::Lagged => 4,
        _ => 5,
    }
}

/// Reads `n` numbers from `inp` at `*pos`.
pub fn take<'a>(inp: &'a [u128], pos: &mut usize, n: usize) -> Option<&'a [u128]> {
    if *pos + n > inp.len() {
        return None;
    }
    let s = &inp[*pos..*pos + n];
    *pos += n;
    Some(s)
}

/// Picks the signature branch of a case: one of the branches it exercised, chosen by a hash of the
/// input, so that the signature distribution shows how often each branch is reached.
pub fn pick_branch(inp: &[u128], branches: &[&'static str]) -> &'static str {
    if branches.is_empty() {
        return "none";
    }
    let mut h: u64 = 0xcbf29ce484222325;
    for x in inp {
        h = (h ^ (*x as u64)).wrapping_mul(0x100000001b3);
    }
    branches[(h >> 16) as usize % branches.len()]
}

/// An index around the boundaries of a sequence of length `len`.
pub fn idx_in(r: &mut Rng, len: usize) -> u128 {
    if len == 0 {
        return 0;
    }
    (match r.below(5) {
        0 => 0,
        1 => len - 1,
        2 => len / 2,
        _ => r.below(len as u64) as usize,
    }) as u128
}

/// An index that is out of range for element access (>= len).
pub fn idx_out(r: &mut Rng, len: usize) -> u128 {
    (len + *r.pick(&[0usize, 0, 1, 5])) as u128
}

pub fn val(r: &mut Rng) -> u128 {
    if r.chance(1, 8) {
        r.next() as u128
    } else {
        r.below(50) as u128
    }
}

// ------------------------------------------------------------------------------------------------
#[derive(Debug, Clone)]
pub enum Op {
    Push(u64),
    Pop,
    GetMut(usize, Option<u64>),
    IterMut(bool, Vec<Option<u64>>),
    Insert(usize, u64),
    Remove(usize),
    SwapRemove(usize),
    Fill(u64),
    Resize(usize, u64),
    Truncate(usize),
    Clear,
    Retain(Vec<bool>),
    ShrinkToFit,
    Done,
    Extend(Vec<u64>),
}

fn us(x: u128) -> Option<usize> {
    if x < 1_000_000 {
        Some(x as usize)
    } else {
        None
    }
}

pub fn decode_ops(inp: &[u128]) -> Option<Vec<Op>> {
    let mut pos = 0;
    let mut ops = Vec::new();
    while pos < inp.len() {
        let code = inp[pos];
        pos += 1;
        let op = match code {
            1 => Op::Push(take(inp, &mut pos, 1)?[0] as u64),
            2 => Op::Pop,
            3 => {
                let a = take(inp, &mut pos, 3)?;
                Op::GetMut(us(a[0])?, if a[1] != 0 { Some(a[2] as u64) } else { None })
            }
            4 => {
                let a = take(inp, &mut pos, 2)?;
                let n = us(a[1])?;
                let ws = take(inp, &mut pos, 2 * n)?;
                Op::IterMut(
                    a[0] != 0,
                    ws.chunks(2).map(|c| if c[0] != 0 { Some(c[1] as u64) } else { None }).collect(),
                )
            }
            5 => {
                let a = take(inp, &mut pos, 2)?;
                Op::Insert(us(a[0])?, a[1] as u64)
            }
            6 => Op::Remove(us(take(inp, &mut pos, 1)?[0])?),
            7 => Op::SwapRemove(us(take(inp, &mut pos, 1)?[0])?),
            8 => Op::Fill(take(inp, &mut pos, 1)?[0] as u64),
            9 => {
                let a = take(inp, &mut pos, 2)?;
                Op::Resize(us(a[0])?, a[1] as u64)
            }
            10 => Op::Truncate(us(take(inp, &mut pos, 1)?[0])?),
            11 => Op::Clear,
            12 => {
                let n = us(take(inp, &mut pos, 1)?[0])?;
                Op::Retain(take(inp, &mut pos, n)?.iter().map(|x| *x != 0).collect())
            }
            13 => Op::ShrinkToFit,
            14 => Op::Done,
            15 => {
                let n = us(take(inp, &mut pos, 1)?[0])?;
                Op::Extend(take(inp, &mut pos, n)?.iter().map(|x| *x as u64).collect())
            }
            _ => return None,
        };
        ops.push(op);
    }
    Some(ops)
}

pub fn enc_event(e: &VecEvent<u64>, out: &mut Vec<u128>) {
    match e {
        VecEvent::Push(v) => out.extend([1, *v as u128]),
        VecEvent::Pop => out.push(2),
        VecEvent::Insert(i, v) => out.extend([3, *i as u128, *v as u128]),
        VecEvent::Set(i, v) => out.extend([4, *i as u128, *v as u128]),
        VecEvent::Remove(i) => out.extend([5, *i as u128]),
        VecEvent::SwapRemove(i) => out.extend([6, *i as u128]),
        VecEvent::Fill(v) => out.extend([7, *v as u128]),
        VecEvent::Resize(n, v) => out.extend([8, *n as u128, *v as u128]),
        VecEvent::Truncate(n) => out.extend([9, *n as u128]),
        VecEvent::Retain(s) | VecEvent::RetainNot(s) => {
            out.push(if matches!(e, VecEvent::Retain(_)) { 10 } else { 11 });
            let mut v: Vec<usize> = s.iter().copied().collect();
            v.sort();
            out.push(v.len() as u128);
            out.extend(v.iter().map(|x| *x as u128));
        }
        VecEvent::Clear => out.push(12),
        VecEvent::ShrinkToFit => out.push(13),
        VecEvent::Done => out.push(14),
        VecEvent::InitialComplete => out.push(15),
    }
}

fn enc_events(es: &[VecEvent<u64>], out: &mut Vec<u128>) {
    out.push(es.len() as u128);
    for e in es {
        enc_event(e, out);
    }
}

/// Applies one mutator; returns the branch label.  May panic (caught by the caller).
pub fn apply(obs: &mut ObservableVec<u64, Codec>, op: &Op) -> &'static str {
    let len = obs.len();
    match op {
        Op::Push(v) => {
            obs.push(*v);
            "push"
        }
        Op::Pop => {
            if obs.pop().is_some() {
                "pop"
            } else {
                "pop_empty"
            }
        }
        Op::GetMut(i, w) => match obs.get_mut(*i) {
            Some(mut r) => match w {
                Some(v) => {
                    *r = *v;
                    "get_mut_write"
                }
                None => {
                    let _x: u64 = *r;
                    "get_mut_readonly"
                }
            },
            None => "get_mut_none",
        },
        Op::IterMut(rev, ws) => {
            let mut wrote = false;
            if *rev {
                for (j, mut r) in obs.iter_mut().rev().enumerate() {
                    if let Some(Some(v)) = ws.get(j) {
                        *r = *v;
                        wrote = true;
                    }
                }
            } else {
                for (j, mut r) in obs.iter_mut().enumerate() {
                    if let Some(Some(v)) = ws.get(j) {
                        *r = *v;
                        wrote = true;
                    }
                }
            }
            match (wrote, *rev) {
                (false, _) => "iter_mut_nowrite",
                (true, false) => "iter_mut_fwd",
                (true, true) => "iter_mut_rev",
            }
        }
        Op::Insert(i, v) => {
            obs.insert(*i, *v);
            if *i == len {
                "insert_end"
            } else {
                "insert"
            }
        }
        Op::Remove(i) => {
            obs.remove(*i);
            "remove"
        }
        Op::SwapRemove(i) => {
            obs.swap_remove(*i);
            if *i + 1 == len {
                "swap_remove_last"
            } else {
                "swap_remove"
            }
        }
        Op::Fill(v) => {
            obs.fill(*v);
            if len == 0 {
                "fill_empty"
            } else {
                "fill"
            }
        }
        Op::Resize(n, v) => {
            obs.resize(*n, *v);
            if *n > len {
                "resize_grow"
            } else if *n < len {
                "resize_shrink"
            } else {
                "resize_same"
            }
        }
        Op::Truncate(n) => {
            obs.truncate(*n);
            if *n < len {
                "truncate"
            } else {
                "truncate_noop"
            }
        }
        Op::Clear => {
            obs.clear();
            if len == 0 {
                "clear_empty"
            } else {
                "clear"
            }
        }
        Op::Retain(ks) => {
            let mut j = 0;
            obs.retain(|_| {
                let k = ks.get(j).copied().unwrap_or(true);
                j += 1;
                k
            });
            let removed = len - obs.len();
            if removed == 0 {
                "retain_all"
            } else if obs.len() < removed {
                "retain_keepset"
            } else {
                "retain_notset"
            }
        }
        Op::ShrinkToFit => {
            obs.shrink_to_fit();
            "shrink_to_fit"
        }
        Op::Done => {
            let was = obs.is_done();
            obs.done();
            if was {
                "done_again"
            } else {
                "done"
            }
        }
        Op::Extend(vs) => {
            obs.extend(vs.iter().copied());
            if vs.is_empty() && obs.is_done() {
                "extend_empty_after_done"
            } else if vs.is_empty() {
                "extend_empty"
            } else {
                "extend"
            }
        }
    }
}

fn panic_label(op: &Op, done: bool) -> &'static str {
    if done {
        return "panic_after_done";
    }
    match op {
        Op::Insert(..) => "panic_insert",
        Op::Remove(..) => "panic_remove",
        Op::SwapRemove(..) => "panic_swap_remove",
        _ => "panic_other",
    }
}

/// Applies an event to a plain vector the way a consumer by hand would (independent of remoc's mirror).
pub fn hand_apply(v: &mut Vec<u64>, complete: &mut bool, done: &mut bool, e: &VecEvent<u64>) -> Result<(), u128> {
    match e {
        VecEvent::Push(x) => v.push(*x),
        VecEvent::Pop => {
            v.pop();
        }
        VecEvent::Insert(i, x) => {
            if *i > v.len() {
                return Err(2);
            }
            v.insert(*i, *x)
        }
        VecEvent::Set(i, x) => {
            if *i >= v.len() {
                return Err(2);
            }
            v[*i] = *x
        }
        VecEvent::Remove(i) => {
            if *i >= v.len() {
                return Err(2);
            }
            v.remove(*i);
        }
        VecEvent::SwapRemove(i) => {
            if *i >= v.len() {
                return Err(2);
            }
            let last = v.pop().unwrap();
            if *i < v.len() {
                v[*i] = last;
            }
        }
        VecEvent::Fill(x) => v.iter_mut().for_each(|y| *y = *x),
        VecEvent::Resize(n, x) => {
            while v.len() > *n {
                v.pop();
            }
            while v.len() < *n {
                v.push(*x);
            }
        }
        VecEvent::Truncate(n) => {
            while v.len() > *n {
                v.pop();
            }
        }
        VecEvent::Retain(s) => {
            *v = v.iter().enumerate().filter(|(i, _)| s.contains(i)).map(|(_, x)| *x).collect();
        }
        VecEvent::RetainNot(s) => {
            *v = v.iter().enumerate().filter(|(i, _)| !s.contains(i)).map(|(_, x)| *x).collect();
        }
        VecEvent::Clear => v.clear(),
        VecEvent::ShrinkToFit => (),
        VecEvent::Done => *done = true,
        VecEvent::InitialComplete => *complete = true,
    }
    Ok(())
}

/// Drains what a subscription can deliver now (the timeout fires only when every task is idle).
async fn drain(sub: &mut VecSubscription<u64, Codec>, ended: &mut bool, into: &mut Vec<VecEvent<u64>>) -> Result<(), u128> {
    if *ended {
        return Ok(());
    }
    loop {
        match crate::recv_selectlike!(sub) {
            Err(_) => return Ok(()),
            Ok(Ok(Some(e))) => into.push(e),
            Ok(Ok(None)) => {
                *ended = true;
                return Ok(());
            }
            Ok(Err(e)) => {
                *ended = true;
                return Err(err_code(&e));
            }
        }
    }
}

struct Subs {
    mirror: remoc::robs::vec::MirroredVec<u64, Codec>,
    hand: VecSubscription<u64, Codec>,
    hand_ended: bool,
    hand_v: Vec<u64>,
    hand_complete: bool,
    hand_events: Vec<VecEvent<u64>>,
    hand_err: u128,
    len_at: usize,
    done_at: bool,
}

fn subscribe(obs: &ObservableVec<u64, Codec>, incremental: bool, mx: usize) -> Subs {
    let (msub, mut hand) = if incremental {
        (obs.subscribe_incremental(BUF), obs.subscribe_incremental(BUF))
    } else {
        (obs.subscribe(BUF), obs.subscribe(BUF))
    };
    let hand_v = hand.take_initial().unwrap_or_default();
    let hand_complete = hand.is_complete();
    Subs {
        mirror: msub.mirror(mx),
        hand,
        hand_ended: false,
        hand_v,
        hand_complete,
        hand_events: Vec::new(),
        hand_err: 0,
        len_at: obs.len(),
        done_at: obs.is_done(),
    }
}

async fn exec_async(inp: &[u128]) -> (Vec<u128>, String, String) {
    let bad = || (vec![98], "vec:malformed".to_string(), "ok".to_string());
    if inp.len() < 4 {
        return bad();
    }
    let (mx, incremental, k) = (inp[0].min(1 << 40) as usize, inp[1] != 0, inp[2].min(1 << 40) as usize);
    let mut pos = 4;
    let init: Vec<u64> = match us(inp[3]).and_then(|n| take(inp, &mut pos, n)) {
        Some(s) => s.iter().map(|x| *x as u64).collect(),
        None => return bad(),
    };
    let ops = match decode_ops(&inp[pos..]) {
        Some(o) => o,
        None => return bad(),
    };

    let mut out = Vec::new();
    let mut branches: Vec<&'static str> = Vec::new();
    let mut obs: ObservableVec<u64, Codec> = ObservableVec::from(init);
    let mut s0 = obs.subscribe(BUF);
    let _ = s0.take_initial();
    let mut s0_ended = false;
    let mut subs: Option<Subs> = None;
    let mut peak = 0usize;
    let mut harness_err = String::new();

    for (j, op) in ops.iter().enumerate() {
        if j == k {
            subs = Some(subscribe(&obs, incremental, mx));
            // a select!-style consumer polls at once and drops the future while it is pending
            if crate::SELECTLIKE.load(std::sync::atomic::Ordering::SeqCst) {
                if let Some(s) = subs.as_mut() {
                    for _ in 0..2 {
                        if s.hand_ended {
                            break;
                        }
                        match futures::FutureExt::now_or_never(s.hand.recv()) {
                            Some(Ok(Some(e))) => s.hand_events.push(e),
                            Some(Ok(None)) => s.hand_ended = true,
                            Some(Err(e)) => {
                                s.hand_ended = true;
                                s.hand_err = err_code(&e);
                            }
                            None => {}
                        }
                    }
                }
            }
            peak = obs.len();
        }
        let was_done = obs.is_done();
        match catch_unwind(AssertUnwindSafe(|| apply(&mut obs, op))) {
            Ok(label) => {
                branches.push(label);
                let mut evs = Vec::new();
                if let Err(c) = drain(&mut s0, &mut s0_ended, &mut evs).await {
                    harness_err = format!("start subscription failed with error class {c}");
                }
                enc_events(&evs, &mut out);
            }
            Err(_) => {
                branches.push(panic_label(op, was_done));
                out.push(99);
            }
        }
        peak = peak.max(obs.len());
        barrier().await;
        if let Some(s) = subs.as_mut() {
            let mut evs = Vec::new();
            if let Err(c) = drain(&mut s.hand, &mut s.hand_ended, &mut evs).await {
                s.hand_err = c;
            }
            s.hand_events.extend(evs);
        }
    }
    if subs.is_none() {
        subs = Some(subscribe(&obs, incremental, mx));
            // a select!-style consumer polls at once and drops the future while it is pending
            if crate::SELECTLIKE.load(std::sync::atomic::Ordering::SeqCst) {
                if let Some(s) = subs.as_mut() {
                    for _ in 0..2 {
                        if s.hand_ended {
                            break;
                        }
                        match futures::FutureExt::now_or_never(s.hand.recv()) {
                            Some(Ok(Some(e))) => s.hand_events.push(e),
                            Some(Ok(None)) => s.hand_ended = true,
                            Some(Err(e)) => {
                                s.hand_ended = true;
                                s.hand_err = err_code(&e);
                            }
                            None => {}
                        }
                    }
                }
            }
        peak = obs.len();
    }
    let mut s = subs.unwrap();
    barrier().await;
    {
        let mut evs = Vec::new();
        if let Err(c) = drain(&mut s.hand, &mut s.hand_ended, &mut evs).await {
            s.hand_err = c;
        }
        s.hand_events.extend(evs);
    }
    barrier().await;

    // observed collection
    let coll: Vec<u64> = obs.iter().copied().collect();
    let coll_done = obs.is_done();
    out.push(coll.len() as u128);
    out.extend(coll.iter().map(|x| *x as u128));
    out.push(coll_done as u128);

    // mirror
    let mut oracle = String::new();
    let mirror_outcome;
    let borrowed = match s.mirror.borrow().await {
        Ok(r) => Ok((r.iter().copied().collect::<Vec<u64>>(), r.is_complete(), r.is_done())),
        Err(e) => Err(err_code(&e)),
    };
    match borrowed {
        Ok((v, complete, done)) => {
            mirror_outcome = "ok";
            out.push(0);
            out.push(v.len() as u128);
            out.extend(v.iter().map(|x| *x as u128));
            out.push(complete as u128);
            out.push(done as u128);
            if v != coll {
                oracle = format!("FAIL: mirror contents {:?} differ from observed vector {:?}", v, coll);
            } else if done != coll_done {
                oracle = format!("FAIL: mirror done flag {} but observed vector done {}", done, coll_done);
            }
            // A second-level subscription taken from the mirror while a reader holds a view of it and an event is on its way
            // (the mirror task is queued for the write lock behind the reader): the subscriber's snapshot and its event stream
            // must fit together -- nothing lost, nothing twice.
            if oracle.is_empty() {
                if let Ok(guard) = s.mirror.borrow().await {
                    // (the extra element must not push the first-level mirror over its size limit)
                if !obs.is_done() && obs.len() < mx {
                        obs.push(424_242);
                    }
                    barrier().await;
                    let mut fut = Box::pin(s.mirror.subscribe(BUF));
                    let early = std::future::poll_fn(|cx| std::task::Poll::Ready(std::future::Future::poll(fut.as_mut(), cx))).await;
                    drop(guard);
                    barrier().await;
                    let sub2 = match early {
                        std::task::Poll::Ready(r) => r,
                        std::task::Poll::Pending => fut.await,
                    };
                    match sub2 {
                        Ok(sub2) => {
                            let m2 = sub2.mirror(1_000_000);
                            barrier().await;
                            barrier().await;
                            let expect: Vec<u64> = obs.iter().copied().collect();
                            match m2.borrow().await {
                                Ok(r) => {
                                    let v: Vec<u64> = r.iter().copied().collect();
                                    if v != expect {
                                        oracle = format!("FAIL: second-level mirror (subscribed from the mirror while it was read and updated) holds {:?} but the collection is {:?}", v, expect);
                                    }
                                }
                                Err(e) => oracle = format!("FAIL: second-level mirror failed with error class {}", err_code(&e)),
                            };
                        }
                        Err(e) => oracle = format!("FAIL: subscribing from a healthy mirror failed with error class {}", err_code(&e)),
                    }
                }
            }
        }
        Err(code) => {
            let v = s.mirror.detach().await;
            out.push(code);
            out.push(v.len() as u128);
            out.extend(v.iter().map(|x| *x as u128));
            if code == 1 && peak > mx {
                mirror_outcome = "maxsize"; // outside the hypothesis of C13 (belongs to C14)
            } else {
                mirror_outcome = "error";
                oracle = format!("FAIL: mirror reports error class {code} (max_size {mx}, largest length {peak})");
            }
        }
    }

    // hand-held subscription
    enc_events(&s.hand_events, &mut out);
    let mut hv = s.hand_v.clone();
    let mut hcomplete = s.hand_complete;
    let mut hdone = false;
    let mut herr = 0u128;
    for e in &s.hand_events {
        if let Err(c) = hand_apply(&mut hv, &mut hcomplete, &mut hdone, e) {
            herr = c;
            break;
        }
        // a consumer that enforces the same size limit as a mirror
        if matches!(e, VecEvent::Push(_)) && hv.len() > mx {
            herr = 1;
            break;
        }
    }
    out.push(herr);
    out.push(hv.len() as u128);
    out.extend(hv.iter().map(|x| *x as u128));
    if herr == 0 {
        out.push(hcomplete as u128);
        out.push(hdone as u128);
    }
    if oracle.is_empty() {
        if s.hand_err != 0 {
            oracle = format!("FAIL: hand-held subscription failed with error class {}", s.hand_err);
        } else if herr == 0 && (hv != coll || hdone != coll_done) {
            oracle = format!("FAIL: hand-consumed events give {:?} done={} but observed vector is {:?} done={}", hv, hdone, coll, coll_done);
        } else if herr != 0 && !(herr == 1 && peak > mx) {
            oracle = format!("FAIL: hand-consumed event does not apply (class {herr})");
        }
    }
    if oracle.is_empty() && !harness_err.is_empty() {
        oracle = format!("FAIL: {harness_err}");
    }


    let subkind = if s.done_at {
        "afterdone"
    } else if k == 0 {
        "start"
    } else if k >= ops.len() {
        "end"
    } else {
        "mid"
    };
    let mode = if incremental { "incr" } else { "snap" };
    let subkind = if s.done_at && s.len_at == 0 { "afterdone_empty" } else { subkind };
    let sig = format!("vec:{mode}:{subkind}:{mirror_outcome}:{}", pick_branch(inp, &branches));
    (out, sig, if oracle.is_empty() { "ok".to_string() } else { oracle })
}

pub fn exec(inp: &[u128]) -> (Vec<u128>, String, String) {
    let rt = runtime();
    let r = rt.block_on(exec_async(inp));
    drop(rt);
    r
}

// ------------------------------------------------------------------------------------------------
/// Generator: simulates length and done state so that indices sit at the boundaries that matter and
/// panicking calls stay rare.
pub fn gen(r: &mut Rng, i: usize) -> Vec<Vec<u128>> {
    let n_init = r.below(7) as usize;
    let init: Vec<u128> = (0..n_init).map(|_| val(r)).collect();
    let n_ops = r.range(5, 60) as usize;
    let with_done = r.chance(2, 5);
    let done_at = if with_done {
        if r.chance(1, 2) {
            n_ops - 1 - r.below(4.min(n_ops as u64)) as usize
        } else {
            r.below(n_ops as u64) as usize
        }
    } else {
        usize::MAX
    };
    let mut len = n_init;
    let mut ops: Vec<u128> = Vec::new();
    for j in 0..n_ops {
        if j == done_at {
            ops.push(14);
            continue;
        }
        if j > done_at {
            // after done: mostly done() again (no-op), rarely a mutator (panics)
            if r.chance(5, 6) {
                ops.push(14);
            } else {
                match r.below(5) {
                    0 => ops.extend([1, val(r)]),
                    1 => ops.push(2),
                    2 => ops.push(11),
                    3 => ops.extend([15, 0]), // extend with nothing: no panic
                    _ => ops.push(13),
                }
            }
            continue;
        }
        let rare_panic = r.chance(1, 12);
        match r.below(24) {
            0..=3 => {
                ops.extend([1, val(r)]);
                len += 1;
            }
            4..=5 => {
                ops.push(2);
                len = len.saturating_sub(1);
            }
            6..=7 => {
                let (i, has) = if r.chance(1, 6) { (idx_out(r, len), 1) } else { (idx_in(r, len), r.chance(4, 5) as u128) };
                ops.extend([3, i, has, val(r)]);
            }
            8..=9 => {
                let n = match r.below(4) {
                    0 => 0,
                    1 => len,
                    2 => len + 2,
                    _ => r.below(len as u64 + 1) as usize,
                };
                ops.extend([4, r.chance(1, 3) as u128, n as u128]);
                for _ in 0..n {
                    ops.extend([r.chance(1, 2) as u128, val(r)]);
                }
            }
            10..=11 => {
                let i = if rare_panic {
                    (len + 1 + r.below(3) as usize) as u128
                } else if r.chance(1, 3) {
                    len as u128
                } else {
                    idx_in(r, len)
                };
                ops.extend([5, i, val(r)]);
                if (i as usize) <= len {
                    len += 1;
                }
            }
            12..=13 => {
                let i = if rare_panic || len == 0 { idx_out(r, len) } else { idx_in(r, len) };
                if len == 0 && !rare_panic {
                    ops.extend([1, val(r)]);
                    len += 1;
                } else {
                    ops.extend([6, i]);
                    if (i as usize) < len {
                        len -= 1;
                    }
                }
            }
            14..=15 => {
                let i = if rare_panic || len == 0 { idx_out(r, len) } else { idx_in(r, len) };
                if len == 0 && !rare_panic {
                    ops.extend([15, 2, val(r), val(r)]);
                    len += 2;
                } else {
                    ops.extend([7, i]);
                    if (i as usize) < len {
                        len -= 1;
                    }
                }
            }
            16 => ops.extend([8, val(r)]),
            17..=18 => {
                let n = match r.below(5) {
                    0 => len,
                    1 => len + 1,
                    2 => len.saturating_sub(1),
                    3 => 0,
                    _ => r.below(10) as usize,
                };
                ops.extend([9, n as u128, val(r)]);
                len = n;
            }
            19 => {
                let n = match r.below(4) {
                    0 => len,
                    1 => len + 1,
                    2 => len.saturating_sub(1),
                    _ => r.below(len as u64 + 1) as usize,
                };
                ops.extend([10, n as u128]);
                len = len.min(n);
            }
            20 => {
                if r.chance(2, 3) {
                    ops.push(11);
                    len = 0;
                } else {
                    ops.push(13);
                }
            }
            21..=22 => {
                let n = match r.below(4) {
                    0 => len.saturating_sub(1),
                    1 => len + 1,
                    _ => len,
                };
                let style = r.below(4);
                let ks: Vec<bool> = (0..n)
                    .map(|_| match style {
                        0 => true,
                        1 => r.chance(1, 5),
                        2 => r.chance(4, 5),
                        _ => r.chance(1, 2),
                    })
                    .collect();
                ops.extend([12, n as u128]);
                ops.extend(ks.iter().map(|b| *b as u128));
                len = (0..len).filter(|p| ks.get(*p).copied().unwrap_or(true)).count();
            }
            _ => {
                let n = r.below(4) as usize;
                ops.extend([15, n as u128]);
                for _ in 0..n {
                    ops.push(val(r));
                }
                len += n;
            }
        }
    }
    // subscription point and mode
    // subscription point and mode; subscribing after done() (both modes, empty and non-empty) is a
    // regression case (former finding F11) and is drawn often
    let k = match r.below(7) {
        0 => 0,
        1 => n_ops,
        2 | 3 if with_done && done_at < n_ops => (done_at + 1 + r.below((n_ops - done_at) as u64) as usize).min(n_ops),
        _ => r.below(n_ops as u64 + 1) as usize,
    };
    let mode = r.below(2) as u128;
    let mx: u128 = if r.chance(1, 12) { r.below(9) as u128 } else { 1000 };
    let _ = i;
    let mut inp = vec![mx, mode, k as u128, n_init as u128];
    inp.extend(init);
    inp.extend(ops);
    vec![inp]
}

pub fn run(seed: u64, count: usize, extra: &[String], out: &mut impl Write) {
    // Rng::new of adjacent seeds yields shifted copies of one stream (the driver's shards use seeds s, s+1, ...):
    // scramble the seed first so that shards are independent
    let seed = Rng::new(seed ^ 0xC131).next();
    crate::drive(COMP, seed, count, extra, out, gen, exec);
}
