//! C15, item size limits: the real `remoc::rch::watch` channel with receivers whose `MAX_ITEM_SIZE`
//! differs between clones and between the sending and the receiving side of a transfer, fed either
//! by a `watch::Sender` or by `watch::forward` from a local Tokio watch channel, and values whose
//! serialized size lies around those limits followed by small ones.
//!
//! Two endpoints A and B joined by one connection (harness transport, paused clock).  The source
//! lives on A.  A receiver clone is moved to the other endpoint as variant v = 4*i + j: it is
//! serialized as `Receiver<_, _, LIM[i]>` (limit of the forwarding task `send_impl`) and
//! deserialized as `Receiver<_, _, LIM[j]>` (limit of the receiving task `recv_impl`); moved
//! receivers can be moved again (either direction), which gives chains of links.
//!
//! Input (after the component number): mode src op*
//!   mode 2: a quiescence barrier follows every operation; mode 3: only where the program says so
//!   src  0: `watch::channel`, 1: Tokio watch channel + `watch::forward`
//!   30 q v   move a clone of receiver q to the other endpoint as variant v (always at quiescence)
//!   31 q     clone receiver q          32 q   drop receiver q
//!   33 s     publish a value whose serialized size is s bytes (at least the minimum size)
//!   34 q     receiver q: borrow_and_update()      35 q   poll changed(), then borrow_and_update()
//!   36       barrier                   37 n   n harness yields       38   drop the source
//! Mode 2 is deterministic and is compared number by number with `Run/RunWatchSize.v` (observations
//! of 34/35, 99 for a receiver that does not exist, final dump 77 n {0 | 1 h p ended unseen}); the
//! emitted input carries the sizes actually used.  Mode 3 prints [96]: the oracle judges alone.
//!
//! Oracle (the property restricted by the documented effect of the limits: a value larger than the
//! sender-side limit of a link ends the stream behind that link only; a value larger than the
//! receiver-side limit only is shown as an error value and skipped):
//!  * a value shown to a receiver was stored under that index, indices never decrease; an error
//!    value needs a stored value exceeding a receiver-side limit on the receiver's path;
//!  * at quiescence a receiver whose stream has ended while the source is alive needs a value,
//!    stored after the link was made, that exceeds a sender-side limit on ITS path; a receiver
//!    whose stream has not ended holds the value stored last (or the error value if that value
//!    exceeds a receiver-side limit on its path), and the value stored last fits the sender-side
//!    limits on its path; with every operation at quiescence (mode 2) a value exceeding a
//!    sender-side limit must have ended the stream;
//!  * once the source is dropped no receiver stays open at quiescence, and `Forwarding` resolves,
//!    with an error only if some value exceeded a sender-side limit.
use crate::{rng::Rng, transport::Net};
use remoc::{
    codec,
    rch::{base, watch, DEFAULT_MAX_ITEM_SIZE as DEF},
};
use serde::{Deserialize, Serialize};
use std::time::Duration;

const PBITS: u32 = 24;
pub const L0: usize = 96;
pub const L1: usize = 400;
pub const L2: usize = 3000;
pub const LIM: [usize; 4] = [L0, L1, L2, DEF];

#[derive(Clone, Serialize, Deserialize)]
struct Val {
    tag: u64,
    pad: Vec<u8>,
}

type SRx<const N: usize> = watch::Receiver<Val, codec::Default, N>;
type Rx = SRx<DEF>;

macro_rules! item_enum {
    ($name:ident: $($v:ident => $l:expr),* $(,)?) => {
        #[derive(Serialize, Deserialize)]
        enum $name { $($v(SRx<{ $l }>)),* }
    };
}
// what is sent: the limit of variant 4*i+j is LIM[i]
item_enum!(ItemS:
    V00 => L0, V01 => L0, V02 => L0, V03 => L0, V10 => L1, V11 => L1, V12 => L1, V13 => L1,
    V20 => L2, V21 => L2, V22 => L2, V23 => L2, V30 => DEF, V31 => DEF, V32 => DEF, V33 => DEF);
// what is received: the limit of variant 4*i+j is LIM[j]
item_enum!(ItemR:
    V00 => L0, V01 => L1, V02 => L2, V03 => DEF, V10 => L0, V11 => L1, V12 => L2, V13 => DEF,
    V20 => L0, V21 => L1, V22 => L2, V23 => DEF, V30 => L0, V31 => L1, V32 => L2, V33 => DEF);

macro_rules! variants {
    ($m:ident, $($a:tt)*) => {
        $m!($($a)*; 0 => V00, 1 => V01, 2 => V02, 3 => V03, 4 => V10, 5 => V11, 6 => V12, 7 => V13,
            8 => V20, 9 => V21, 10 => V22, 11 => V23, 12 => V30, 13 => V31, 14 => V32, 15 => V33)
    };
}
macro_rules! wrap_m {
    ($v:expr, $rx:expr; $($n:expr => $var:ident),*) => {
        match $v { $($n => ItemS::$var($rx.set_max_item_size()),)* _ => unreachable!() }
    };
}
macro_rules! unwrap_m {
    ($it:expr; $($n:expr => $var:ident),*) => {
        match $it { $(ItemR::$var(rx) => rx.set_max_item_size::<DEF>(),)* }
    };
}
fn wrap(v: usize, rx: Rx) -> ItemS {
    variants!(wrap_m, v, rx)
}
fn unwrap(it: ItemR) -> Rx {
    variants!(unwrap_m, it)
}

/// tag of a value: a constant high bit keeps the encoded width of the tag (hence the minimum size) constant
fn tag_of(idx: u64, p: u64) -> u64 {
    (1 << 40) | (idx << PBITS) | p
}
fn untag(tag: u64) -> Seen {
    Seen::Val((tag >> PBITS) & 0xFFFF, tag & ((1 << PBITS) - 1))
}

fn ser_size(v: &Val) -> usize {
    let mut buf = Vec::new();
    let item: Result<Val, watch::RecvError> = Ok(v.clone());
    <codec::Default as codec::Codec>::serialize(&mut buf, &item).expect("serializable");
    buf.len()
}

/// a value with this tag whose serialized size is `want` (or the nearest possible size above)
fn make_val(tag: u64, want: usize) -> (Val, usize) {
    let mut v = Val { tag, pad: Vec::new() };
    let min = ser_size(&v);
    if want <= min {
        return (v, min);
    }
    v.pad = vec![0; want - min];
    loop {
        let s = ser_size(&v);
        if s > want && !v.pad.is_empty() {
            let d = (s - want).min(v.pad.len());
            v.pad.truncate(v.pad.len() - d);
            if ser_size(&v) < want {
                v.pad.push(0);
                return (v.clone(), ser_size(&v));
            }
        } else if s < want {
            v.pad.extend(std::iter::repeat(0).take(want - s));
        } else {
            return (v, s);
        }
    }
}

async fn barrier() {
    for _ in 0..2 {
        tokio::time::sleep(Duration::from_nanos(1)).await;
    }
}

#[derive(Clone, Copy, Debug, PartialEq)]
enum Fate {
    Pass,
    Err,
    Kill,
}

#[derive(Clone, Copy, Debug, PartialEq)]
enum Seen {
    Val(u64, u64),
    ErrVal,
}

struct Link {
    parent: usize,
    /// sender-side and receiver-side limit
    s: usize,
    r: usize,
    /// number of values stored when the link was made (later ones travel over it)
    born: usize,
}

struct RxInfo {
    rx: Option<Rx>,
    cell: usize,
    last: Option<u64>,
}

enum Source {
    Remoc(watch::Sender<Val, codec::Default>),
    Tokio(tokio::sync::watch::Sender<Val>),
}

pub struct World {
    /// endpoint of every cell; cell 0 is the source's
    cells: Vec<usize>,
    links: Vec<Option<Link>>,
    rxs: Vec<RxInfo>,
    src: Option<Source>,
    fwd: Option<watch::Forwarding>,
    /// (payload, serialized size) of every stored value
    sent: Vec<(u64, usize)>,
    exact: bool,
    dirty: bool,
    oracle: Result<(), String>,
    pub malformed: bool,
    /// observations (compared with the model in mode 2)
    pub out: Vec<u128>,
    /// the input as emitted: requested sizes replaced by the sizes used
    pub ann: Vec<u128>,
    // signature material
    pub n_links: usize,
    pub depth: usize,
    pub ended_by_limit: usize,
    pub err_shown: usize,
    pub burst: usize,
}

impl World {
    fn fail(&mut self, msg: String) {
        if self.oracle.is_ok() {
            self.oracle = Err(msg);
        }
    }

    /// links from the source's cell down to `cell`
    fn path(&self, cell: usize) -> Vec<usize> {
        let mut p = Vec::new();
        let mut c = cell;
        while let Some(l) = &self.links[c] {
            p.push(c);
            c = l.parent;
        }
        p.reverse();
        p
    }

    /// what becomes of stored value m on its way down `path`: a value exceeding the sender-side limit
    /// of a link it travels over ends the stream there; one exceeding only the receiver-side limit
    /// continues as an error value (which is small); a link made after m was stored carries the
    /// snapshot of its parent cell instead
    fn fate(&self, path: &[usize], m: usize) -> Fate {
        let size = self.sent[m].1;
        for c in path {
            let l = self.links[*c].as_ref().unwrap();
            if m < l.born {
                return Fate::Pass;
            }
            if size > l.s {
                return Fate::Kill;
            }
            if size > l.r {
                return Fate::Err;
            }
        }
        Fate::Pass
    }

    /// highest index of a stored value that ends the stream somewhere on `path`
    fn killer(&self, path: &[usize]) -> Option<usize> {
        (0..self.sent.len()).rev().find(|m| self.fate(path, *m) == Fate::Kill)
    }

    fn recv_excuse(&self, cell: usize) -> bool {
        let path = self.path(cell);
        (0..self.sent.len()).any(|m| self.fate(&path, m) == Fate::Err)
    }

    fn look(rx: &Rx) -> Seen {
        match rx.borrow() {
            Ok(v) => untag(v.tag),
            Err(_) => Seen::ErrVal,
        }
    }

    /// oracle: a value shown to receiver q
    fn check_seen(&mut self, q: usize, s: Seen, what: &str) {
        let cell = self.rxs[q].cell;
        match s {
            Seen::ErrVal => {
                self.err_shown += 1;
                if !self.recv_excuse(cell) {
                    self.fail(format!(
                        "receiver {q} ({what}) holds an error value although no value exceeded a receiver-side limit on its path"
                    ));
                }
            }
            Seen::Val(i, p) => {
                match self.sent.get(i as usize) {
                    Some((sp, _)) if *sp == p => (),
                    _ => self.fail(format!("receiver {q} ({what}) was shown ({i},{p}) which was never stored")),
                }
                if let Some(l) = self.rxs[q].last {
                    if i < l {
                        self.fail(format!("receiver {q} ({what}) went backwards: index {i} after {l}"));
                    }
                }
                self.rxs[q].last = Some(self.rxs[q].last.map_or(i, |l| l.max(i)));
            }
        }
    }

    /// oracle at quiescence
    fn check_quiet(&mut self, at: &str) {
        let latest = self.sent.len() - 1;
        let (lp, lsize) = self.sent[latest];
        let alive = self.src.is_some();
        let mut ended_by_limit = 0;
        for q in 0..self.rxs.len() {
            let Some(rx) = &self.rxs[q].rx else { continue };
            let cell = self.rxs[q].cell;
            let held = Self::look(rx);
            let ended = rx.has_changed().is_err();
            let path = self.path(cell);
            let killer = self.killer(&path);
            let desc = format!(
                "after {at}: receiver {q} on cell {cell} (limits sender-side/receiver-side along its path: {})",
                if path.is_empty() {
                    "none, local".to_string()
                } else {
                    path.iter()
                        .map(|c| {
                            let l = self.links[*c].as_ref().unwrap();
                            format!("{}/{}", l.s, l.r)
                        })
                        .collect::<Vec<_>>()
                        .join(" ")
                }
            );
            if !alive && !ended {
                self.fail(format!("{desc} is still open although the source was dropped"));
                return;
            }
            if ended && alive {
                if killer.is_none() {
                    self.fail(format!(
                        "{desc} holds {held:?} and its stream has ended although the source is alive and no value exceeded a \
                         sender-side limit on its path; the value stored last is ({latest},{lp}) of {lsize} bytes"
                    ));
                    return;
                }
                ended_by_limit += 1;
            }
            if killer.is_some() && !ended && self.exact {
                self.fail(format!(
                    "{desc}: value {} exceeds a sender-side limit on its path but the stream has not ended",
                    killer.unwrap()
                ));
                return;
            }
            // the value shown now: stored, not older than what was shown before
            match held {
                Seen::ErrVal => {
                    self.err_shown += 1;
                    if !self.recv_excuse(cell) {
                        self.fail(format!("{desc} holds an error value without a value exceeding a receiver-side limit"));
                        return;
                    }
                }
                Seen::Val(i, p) => {
                    if self.sent.get(i as usize).map(|x| x.0) != Some(p) {
                        self.fail(format!("{desc} holds ({i},{p}) which was never stored"));
                        return;
                    }
                    if self.rxs[q].last.map_or(false, |l| i < l) {
                        self.fail(format!("{desc} went backwards to index {i}"));
                        return;
                    }
                }
            }
            if killer.is_none() || !ended {
                // nothing has cut this receiver off: it must hold the value stored last
                let want = match self.fate(&path, latest) {
                    Fate::Pass => Seen::Val(latest as u64, lp),
                    Fate::Err => Seen::ErrVal,
                    Fate::Kill => {
                        self.fail(format!(
                            "{desc}: the value stored last ({latest},{lp}) of {lsize} bytes exceeds a sender-side limit \
                             but the stream has not ended"
                        ));
                        return;
                    }
                };
                if held != want {
                    self.fail(format!(
                        "{desc} holds {held:?}, expected {want:?}: the value stored last is ({latest},{lp}) of {lsize} bytes{}",
                        if ended { "; its stream has ended" } else { "" }
                    ));
                    return;
                }
            } else if let (Seen::Val(i, _), Some(k)) = (held, killer) {
                // cut off by a value exceeding a limit: nothing stored after the last such value can have arrived
                if i as usize >= k && (alive || self.exact) {
                    self.fail(format!(
                        "{desc} has ended but holds index {i}, not older than the last value ({k}) that exceeds a sender-side limit"
                    ));
                    return;
                }
            }
        }
        self.ended_by_limit = self.ended_by_limit.max(ended_by_limit);
    }

    async fn quiesce(&mut self, at: &str) {
        barrier().await;
        self.dirty = false;
        self.check_quiet(at);
    }
}

struct Conn {
    _net: Net,
    tx: [base::Sender<ItemS, codec::Default>; 2],
    rx: [base::Receiver<ItemR, codec::Default>; 2],
    tasks: Vec<tokio::task::JoinHandle<()>>,
}

async fn connect() -> Result<Conn, String> {
    let net = Net::new(true);
    let cfg = || remoc::Cfg { connection_timeout: None, ..Default::default() };
    let a = remoc::Connect::framed::<_, _, ItemS, ItemR, codec::Default>(cfg(), net.a2b.sink(), net.b2a.stream());
    let b = remoc::Connect::framed::<_, _, ItemS, ItemR, codec::Default>(cfg(), net.b2a.sink(), net.a2b.stream());
    let (ra, rb) = tokio::join!(a, b);
    let (ca, txa, rxa) = ra.map_err(|e| e.to_string())?;
    let (cb, txb, rxb) = rb.map_err(|e| e.to_string())?;
    let ta = tokio::spawn(async move {
        let _ = ca.await;
    });
    let tb = tokio::spawn(async move {
        let _ = cb.await;
    });
    Ok(Conn { _net: net, tx: [txa, txb], rx: [rxa, rxb], tasks: vec![ta, tb] })
}

fn seen_out(s: Seen) -> [u128; 2] {
    match s {
        Seen::Val(i, p) => [i as u128 + 1, p as u128],
        Seen::ErrVal => [0, 0],
    }
}

pub fn arity(op: u128) -> Option<usize> {
    match op {
        30 => Some(2),
        31 | 32 | 33 | 34 | 35 | 37 => Some(1),
        36 | 38 => Some(0),
        _ => None,
    }
}

pub async fn run_case(mode: u128, src_kind: u128, ops: &[u128]) -> World {
    let (init, isize) = make_val(tag_of(0, 0), 0);
    let (src, fwd, rx0): (Source, Option<watch::Forwarding>, Rx) = if src_kind == 0 {
        let (tx, rx) = watch::channel::<Val, codec::Default>(init);
        (Source::Remoc(tx), None, rx)
    } else {
        let (ltx, lrx) = tokio::sync::watch::channel(init);
        let (fwd, rx) = watch::forward::<Val, codec::Default>(lrx);
        (Source::Tokio(ltx), Some(fwd), rx)
    };
    let mut w = World {
        cells: vec![0],
        links: vec![None],
        rxs: vec![RxInfo { rx: Some(rx0), cell: 0, last: None }],
        src: Some(src),
        fwd,
        sent: vec![(0, isize)],
        exact: mode == 2,
        dirty: false,
        oracle: Ok(()),
        malformed: false,
        out: Vec::new(),
        ann: vec![mode, src_kind],
        n_links: 0,
        depth: 0,
        ended_by_limit: 0,
        err_shown: 0,
        burst: 0,
    };
    let mut conn = match connect().await {
        Ok(c) => c,
        Err(e) => {
            w.fail(format!("connection setup failed: {e}"));
            return w;
        }
    };
    barrier().await;
    let mut cur_burst = 0usize;
    let mut l = ops;
    while let Some((&op, rest)) = l.split_first() {
        let Some(need) = arity(op).filter(|n| rest.len() >= *n) else {
            w.malformed = true;
            w.ann.extend_from_slice(l);
            w.out.push(98);
            break;
        };
        let args = &rest[..need];
        l = &rest[need..];
        let ann_at = w.ann.len();
        w.ann.push(op);
        w.ann.extend_from_slice(args);
        if op != 33 && op != 37 {
            cur_burst = 0;
        }
        match op {
            30 => {
                let (q, v) = (args[0] as usize, (args[1] % 16) as usize);
                let Some((rx, cell, last)) = w.rxs.get(q).and_then(|i| i.rx.as_ref().map(|rx| (rx.clone(), i.cell, i.last))) else {
                    w.out.push(99);
                    continue;
                };
                if w.dirty {
                    w.quiesce("the barrier before a transfer").await;
                }
                // what the receiver holds when it is cloned for the transfer is what arrives with it
                let last = match World::look(&rx) {
                    Seen::Val(i, _) => Some(last.map_or(i, |l| l.max(i))),
                    Seen::ErrVal => last,
                };
                let from = w.cells[cell];
                let to = 1 - from;
                let new_cell = w.cells.len();
                w.cells.push(to);
                w.links.push(Some(Link { parent: cell, s: LIM[v / 4], r: LIM[v % 4], born: w.sent.len() }));
                w.n_links += 1;
                w.depth = w.depth.max(w.path(new_cell).len());
                let res = match conn.tx[from].send(wrap(v, rx)).await {
                    Err(e) => Err(format!("sending the receiver failed: {e}")),
                    Ok(()) => match tokio::time::timeout(Duration::from_secs(5), conn.rx[to].recv()).await {
                        Ok(Ok(Some(it))) => Ok(unwrap(it)),
                        Ok(Ok(None)) => Err("base channel closed".into()),
                        Ok(Err(e)) => Err(format!("receiving the receiver failed: {e}")),
                        Err(_) => Err("the receiver did not arrive".into()),
                    },
                };
                match res {
                    Ok(rrx) => w.rxs.push(RxInfo { rx: Some(rrx), cell: new_cell, last }),
                    Err(e) => {
                        w.fail(format!("transfer of receiver {q}: {e}"));
                        w.rxs.push(RxInfo { rx: None, cell: new_cell, last });
                    }
                }
                w.quiesce("the barrier after a transfer").await;
            }
            31 => {
                let q = args[0] as usize;
                if let Some((rx, cell, last)) = w.rxs.get(q).and_then(|i| i.rx.as_ref().map(|rx| (rx.clone(), i.cell, i.last))) {
                    w.rxs.push(RxInfo { rx: Some(rx), cell, last });
                } else {
                    w.out.push(99);
                }
            }
            32 => {
                let q = args[0] as usize;
                if let Some(rx) = w.rxs.get_mut(q).and_then(|i| i.rx.take()) {
                    drop(rx);
                    w.dirty = true;
                } else {
                    w.out.push(99);
                }
            }
            33 => {
                let idx = w.sent.len() as u64;
                let (mut val, size) = make_val(tag_of(idx, 0), (args[0] as usize).min(1 << 20));
                // the payload is the size actually used, which is also what the emitted input asks for
                let p = (size as u64) & ((1 << PBITS) - 1);
                val.tag = tag_of(idx, p);
                w.ann[ann_at + 1] = size as u128;
                match &w.src {
                    None => continue,
                    Some(Source::Remoc(tx)) => {
                        tx.send_replace(val);
                    }
                    Some(Source::Tokio(tx)) => {
                        tx.send_replace(val);
                    }
                }
                w.sent.push((p, size));
                cur_burst += if w.exact { 0 } else { 1 };
                w.burst = w.burst.max(cur_burst);
                w.dirty = true;
            }
            34 | 35 => {
                let q = args[0] as usize;
                let Some(rx) = w.rxs.get_mut(q).and_then(|i| i.rx.as_mut()) else {
                    w.out.push(99);
                    continue;
                };
                if op == 35 {
                    use futures::FutureExt;
                    match rx.changed().now_or_never() {
                        Some(Ok(())) => (),
                        Some(Err(_)) => {
                            w.out.extend([2, 2, 0, 0]);
                            continue;
                        }
                        None => {
                            w.out.extend([2, 3, 0, 0]);
                            continue;
                        }
                    }
                }
                let s = match rx.borrow_and_update() {
                    Ok(v) => untag(v.tag),
                    Err(_) => Seen::ErrVal,
                };
                w.out.push(2);
                if op == 35 {
                    w.out.push(1);
                }
                w.out.extend(seen_out(s));
                w.check_seen(q, s, if op == 34 { "borrow_and_update" } else { "changed + borrow_and_update" });
            }
            36 => w.quiesce("a barrier").await,
            37 => {
                for _ in 0..(args[0] as usize).min(64) {
                    tokio::task::yield_now().await;
                }
            }
            38 => {
                if w.src.take().is_some() {
                    w.dirty = true;
                }
            }
            _ => unreachable!(),
        }
        if w.exact && w.dirty {
            w.quiesce("the barrier after an operation").await;
        }
    }
    w.quiesce("the final barrier").await;
    if !w.malformed {
        use futures::FutureExt;
        w.out.push(77);
        w.out.push(w.rxs.len() as u128);
        for i in 0..w.rxs.len() {
            match &w.rxs[i].rx {
                None => w.out.push(0),
                Some(rx) => {
                    let ended = rx.has_changed().is_err();
                    let unseen = matches!(rx.clone().changed().now_or_never(), Some(Ok(())));
                    w.out.push(1);
                    w.out.extend(seen_out(World::look(rx)));
                    w.out.extend([ended as u128, unseen as u128]);
                }
            }
        }
    }
    // error values are assumed to pass every limit
    {
        let e: Result<Val, watch::RecvError> = Err(watch::RecvError::RemoteReceive(base::RecvError::MaxItemSizeExceeded));
        let mut buf = Vec::new();
        <codec::Default as codec::Codec>::serialize(&mut buf, &e).expect("serializable");
        if buf.len() > L0 {
            w.fail(format!("harness assumption: an error value takes {} bytes, more than the smallest limit", buf.len()));
        }
    }
    // the source goes away: every stream ends, forwarding resolves
    let had_src = w.src.take().is_some();
    w.quiesce(if had_src { "the drop of the source" } else { "the final barrier" }).await;
    if let Some(fwd) = w.fwd.take() {
        use futures::FutureExt;
        let any_killer = (0..w.links.len()).any(|c| w.links[c].is_some() && w.killer(&w.path(c)).is_some());
        match fwd.now_or_never() {
            None => w.fail("Forwarding has not resolved at quiescence after the local sender was dropped".into()),
            Some(Ok(())) => (),
            Some(Err(e)) => {
                if !any_killer {
                    w.fail(format!("Forwarding resolved with '{e}' although no value exceeded a sender-side limit"));
                }
            }
        }
    }
    for t in &conn.tasks {
        t.abort();
    }
    conn.tasks.clear();
    w
}

/// returns (emitted input, output, signature, oracle verdict)
pub fn exec(inp: &[u128]) -> (Vec<u128>, Vec<u128>, String, String) {
    let inp = inp.to_vec();
    if inp.len() < 2 || inp[1] > 1 {
        return (inp, vec![98], "malformed".into(), "ok".into());
    }
    #[cfg(remoc_verif)]
    {
        let h = inp.iter().fold(0x9E3779B97F4A7C15u64, |a, x| (a ^ *x as u64).wrapping_mul(0x100000001B3));
        remoc::exec::verif::set_defer_seed(if h % 4 == 0 { 0 } else { h | 1 });
    }
    let res = std::panic::catch_unwind(std::panic::AssertUnwindSafe(|| {
        let rt = tokio::runtime::Builder::new_current_thread().enable_time().start_paused(true).build().unwrap();
        rt.block_on(run_case(inp[0], inp[1], &inp[2..]))
    }));
    #[cfg(remoc_verif)]
    remoc::exec::verif::set_defer_seed(0);
    let w = match res {
        Ok(w) => w,
        Err(_) => return (inp, vec![95], "panic".into(), "FAIL: panic in the implementation or the harness".into()),
    };
    let out = if inp[0] == 2 { w.out.clone() } else { vec![96] };
    if w.malformed {
        return (w.ann.clone(), out, "malformed".into(), w.verdict());
    }
    let sig = format!(
        "size:{}:{}:links{}:depth{}:cut{}:err{}:burst{}",
        if inp[0] == 2 { "quiet" } else { "racy" },
        if inp[1] == 0 { "sender" } else { "forward" },
        w.n_links.min(3),
        w.depth.min(3),
        w.ended_by_limit.min(2),
        w.err_shown.min(2),
        w.burst.min(3),
    );
    (w.ann.clone(), out, sig, w.verdict())
}

impl World {
    pub fn verdict(&self) -> String {
        match &self.oracle {
            Ok(()) => "ok".into(),
            Err(e) => format!("FAIL: {e}"),
        }
    }
}

/// a size around one of the limits, a small one, or one above every restricted limit
fn gen_size(r: &mut Rng) -> u128 {
    let x = r.below(100);
    if x < 45 {
        r.range(0, 60) as u128
    } else if x < 90 {
        let l = *r.pick(&[L0, L0, L1, L1, L2]) as i64;
        (l + *r.pick(&[-1i64, 0, 0, 1, 1, 7])) as u128
    } else {
        r.range(3500, 9000) as u128
    }
}

pub fn gen_case(r: &mut Rng) -> Vec<u128> {
    let mode = if r.chance(3, 5) { 2 } else { 3 };
    let mut v: Vec<u128> = vec![mode, r.below(2) as u128];
    // (alive, depth)
    let mut rxs: Vec<(bool, usize)> = vec![(true, 0)];
    let live = |rxs: &Vec<(bool, usize)>| -> Vec<usize> { (0..rxs.len()).filter(|i| rxs[*i].0).collect() };
    let variant = |r: &mut Rng| -> u128 {
        // mostly a restricted side somewhere; the sending side at least as large as the receiving side half the time
        let (i, j) = (r.below(4), r.below(4));
        if r.chance(1, 2) {
            (4 * i.max(j) + i.min(j)) as u128
        } else {
            (4 * i + j) as u128
        }
    };
    let setup = r.range(1, 3);
    for _ in 0..setup {
        let l = live(&rxs);
        let q = *r.pick(&l);
        if r.chance(1, 4) {
            v.extend([31, q as u128]);
            rxs.push((true, rxs[q].1));
        } else if rxs[q].1 < 3 {
            v.extend([30, q as u128, variant(r)]);
            rxs.push((true, rxs[q].1 + 1));
        }
    }
    let mut src = true;
    for _ in 0..r.range(4, 14) {
        let x = r.below(100);
        let l = live(&rxs);
        if x < 55 {
            if src {
                for _ in 0..*r.pick(&[1u64, 1, 1, 2, 3]) {
                    v.extend([33, gen_size(r)]);
                }
            }
        } else if x < 70 {
            if !l.is_empty() {
                v.extend([*r.pick(&[34u128, 35]), *r.pick(&l) as u128]);
            }
        } else if x < 80 {
            if !l.is_empty() && rxs.len() < 8 {
                let q = *r.pick(&l);
                if rxs[q].1 < 3 {
                    v.extend([30, q as u128, variant(r)]);
                    rxs.push((true, rxs[q].1 + 1));
                }
            }
        } else if x < 85 {
            if !l.is_empty() && rxs.len() < 8 {
                let q = *r.pick(&l);
                v.extend([31, q as u128]);
                rxs.push((true, rxs[q].1));
            }
        } else if x < 89 {
            if l.len() > 1 {
                let q = *r.pick(&l);
                v.extend([32, q as u128]);
                rxs[q].0 = false;
            }
        } else if x < 94 {
            v.extend([37, r.range(1, 12) as u128]);
        } else if x < 96 {
            if src && r.chance(1, 2) {
                v.push(38);
                src = false;
            }
        }
        if mode == 3 && r.chance(1, 2) {
            v.push(36);
        }
    }
    v
}
