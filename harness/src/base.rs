//! C04: typed channels.  Drives REAL `remoc::rch::{base, mpsc, lr, oneshot}` channels over a real
//! two-endpoint connection (`Connect::framed` over the harness transport) and compares with the model
//! (`Rch/Base.v`, `Rch/Mpsc.v` through `Run/RunBase.v`, component 4).
//!
//! Input (after the component number):
//!   kind smd rmd cs rb smax rmax  op*
//!   kind  0 base channel, nothing blocks (large receive buffer), sends and receives interleaved
//!         1 base channel, receive buffer `rb`: first all sends while the receiver is idle (a send that
//!           runs out of flow-control credit stays pending and is cancelled), then the receives
//!         2 mpsc channel with remote senders   3 lr channel   4 oneshot channels
//!         5 mpsc, oracle only (small local buffer, concurrent senders); output is the single number 1
//!         6 as 1 with channel halves inside values (their encoded size varies with the random port
//!           number, so the credit arithmetic is not predictable): oracle only, output 1
//!   smd / rmd  max_data_size of the sending / receiving endpoint;  cs chunk size of the receiving endpoint
//!   smax / rmax  max_item_size of the sender / receiver
//!   send op:  0 sender tag plen fail nports poison L W
//!       payload of `plen` bytes; `fail` = 0 or k+1: `Serialize` fails after k payload bytes;
//!       nports channel halves in the value; poison: `Deserialize` fails at the end;
//!       L / W: encoded length / encoded bytes written before the failure (derived, re-checked by exec)
//!   recv op:  1        burst end (mpsc): 2        drop remote sender i (mpsc): 3 i
//!   stalled recv op:  4 k at    (kinds 0, 1, 3, 6; elsewhere a plain recv)
//!       a `recv` whose deserializer thread -- if the value at the head is a streamed one -- is held after
//!       `at` payload bytes (a deserializer slower than the transport: the bounded chunk queue to it runs
//!       full when the value has more chunks than the queue holds); the pending `recv` future is dropped
//!       and `recv` called again up to `k` times, then the deserializer is released and the call awaited.
//!       `recv` is cancel safe and the speed of the helper thread is no part of the meaning of a receive,
//!       so the result is that of a plain recv op (the model decodes it as one).
//!   kinds 2 and 5: the 5th number (rb) is the number of remote senders (1..3)
//! Output, kinds 0/1/3, per send: class (0 Ok, 1 Serialize, 2 MaxItemSizeExceeded, 3 Send,
//!   4 pending->cancelled, 5 other, 6 rejected at once because the channel has failed), mode (0 buffered,
//!   1 streamed, 2 no complete message), data bytes put on the wire;  kind 2: the classes of a burst at
//!   its end;  kind 4: per send its class and the receiver's result;
//!   per recv: 0 tag plen | 1 errclass | 2 (end) | 3 (pending).
use crate::{conn::group, rng::Rng, settle::Settle, transport::Net};
use remoc::{
    chmux::verif::MultiplexMsg,
    codec,
    rch::{base, lr, mpsc, oneshot},
    Cfg, Connect,
};
use serde::{
    de::{Error as _, SeqAccess, Visitor},
    ser::Error as _,
    ser::SerializeSeq,
    Deserialize, Deserializer, Serialize, Serializer,
};
use futures::FutureExt;
use std::{
    marker::PhantomData,
    sync::{
        atomic::{AtomicBool, AtomicU64, Ordering},
        Arc, Condvar, Mutex,
    },
    time::Duration,
};
use tokio::sync::mpsc as tmpsc;

pub const COMP: u128 = 4;
const POISON: u8 = 0xEE;
/// rch::base::BIG_DATA_CHUNK_QUEUE (private): only used to draw chunk counts around it and for the signature
const CHUNK_QUEUE: usize = 32;

fn debug() -> bool {
    std::env::var("VH_DEBUG").is_ok()
}

// ------------------------------------------------------------------------------------------------
// the deserializer gate: a deserializer that is slower than the transport, deterministically

/// While closed, `Payload::deserialize` running on a helper thread (a streamed value) stops before it
/// reads payload byte number `at` (or the end of the payload) until the gate opens.  Deserialization
/// on the runtime thread itself (buffered values) never waits: it would stop the world.
struct Gate {
    closed: bool,
    at: usize,
}
static GATE: Mutex<Gate> = Mutex::new(Gate { closed: false, at: 0 });
static GATE_CV: Condvar = Condvar::new();
static GATE_CLOSED: AtomicBool = AtomicBool::new(false);
/// number of times a deserializer was actually held
static GATE_HELD: AtomicU64 = AtomicU64::new(0);
thread_local! {
    static ON_RUNTIME_THREAD: std::cell::Cell<bool> = const { std::cell::Cell::new(false) };
}

fn gate_set(closed: bool, at: usize) {
    let mut g = GATE.lock().unwrap_or_else(|e| e.into_inner());
    g.closed = closed;
    g.at = at;
    GATE_CLOSED.store(closed, Ordering::SeqCst);
    GATE_CV.notify_all();
}

fn gate_wait(pos: usize) {
    if !GATE_CLOSED.load(Ordering::SeqCst) || ON_RUNTIME_THREAD.with(|c| c.get()) {
        return;
    }
    let mut g = GATE.lock().unwrap_or_else(|e| e.into_inner());
    let started = std::time::Instant::now();
    let mut counted = false;
    // (the time limit only keeps an orphaned helper thread of an abandoned case from staying forever)
    while g.closed && pos >= g.at && started.elapsed() < Duration::from_secs(60) {
        if !counted {
            GATE_HELD.fetch_add(1, Ordering::SeqCst);
            counted = true;
        }
        g = GATE_CV.wait_timeout(g, Duration::from_secs(5)).unwrap_or_else(|e| e.into_inner()).0;
    }
}

/// opens the gate when the case is over, whatever way it ends
struct GateGuard;
impl Drop for GateGuard {
    fn drop(&mut self) {
        gate_set(false, 0);
    }
}

// ------------------------------------------------------------------------------------------------
// the test value

#[derive(Debug, Clone)]
pub struct Payload {
    bytes: Vec<u8>,
    /// `Serialize` fails after this many payload bytes
    fail_at: Option<usize>,
}

impl Serialize for Payload {
    fn serialize<S: Serializer>(&self, s: S) -> Result<S::Ok, S::Error> {
        let mut seq = s.serialize_seq(Some(self.bytes.len()))?;
        for (i, b) in self.bytes.iter().enumerate() {
            if Some(i) == self.fail_at {
                return Err(S::Error::custom("scripted serialization failure"));
            }
            seq.serialize_element(b)?;
        }
        if Some(self.bytes.len()) == self.fail_at {
            return Err(S::Error::custom("scripted serialization failure"));
        }
        seq.end()
    }
}

impl<'de> Deserialize<'de> for Payload {
    fn deserialize<D: Deserializer<'de>>(d: D) -> Result<Self, D::Error> {
        // as `Vec::<u8>::deserialize`, passing the deserializer gate before every element and before the end
        struct Bytes;
        impl<'de> Visitor<'de> for Bytes {
            type Value = Vec<u8>;
            fn expecting(&self, f: &mut std::fmt::Formatter) -> std::fmt::Result {
                f.write_str("a sequence of bytes")
            }
            fn visit_seq<A: SeqAccess<'de>>(self, mut seq: A) -> Result<Vec<u8>, A::Error> {
                let mut v = Vec::with_capacity(seq.size_hint().unwrap_or(0).min(4096));
                loop {
                    gate_wait(v.len());
                    match seq.next_element::<u8>()? {
                        Some(b) => v.push(b),
                        None => return Ok(v),
                    }
                }
            }
        }
        let bytes = d.deserialize_seq(Bytes)?;
        if bytes.first() == Some(&POISON) {
            return Err(D::Error::custom("scripted deserialization failure"));
        }
        Ok(Payload { bytes, fail_at: None })
    }
}

/// Serialized as a tuple (tag, channel half, payload): with the postbag codec tuple elements and
/// sequence elements of known length are written straight through (struct fields would be buffered in
/// skippable blocks), so a scripted failure leaves exactly the bytes written so far.
#[derive(Debug, Clone)]
pub struct Item {
    tag: u8,
    ch: Option<mpsc::Sender<u8>>,
    data: Payload,
}

impl Serialize for Item {
    fn serialize<S: Serializer>(&self, s: S) -> Result<S::Ok, S::Error> {
        (self.tag, &self.ch, &self.data).serialize(s)
    }
}

impl<'de> Deserialize<'de> for Item {
    fn deserialize<D: Deserializer<'de>>(d: D) -> Result<Self, D::Error> {
        let (tag, ch, data) = <(u8, Option<mpsc::Sender<u8>>, Payload)>::deserialize(d)?;
        Ok(Item { tag, ch, data })
    }
}

/// Same serde shape as `Item` with the channel half in its transported form (for measuring lengths
/// without an active port serializer).
#[derive(Serialize)]
struct TransportedSender {
    port: Option<u32>,
    data: PhantomData<u8>,
    codec: PhantomData<codec::Default>,
    max_item_size: u64,
}
struct ItemM<'a> {
    tag: u8,
    ch: Option<TransportedSender>,
    data: &'a Payload,
}
impl<'a> Serialize for ItemM<'a> {
    fn serialize<S: Serializer>(&self, s: S) -> Result<S::Ok, S::Error> {
        (self.tag, &self.ch, self.data).serialize(s)
    }
}

struct Counting(usize);
impl std::io::Write for Counting {
    fn write(&mut self, buf: &[u8]) -> std::io::Result<usize> {
        self.0 += buf.len();
        Ok(buf.len())
    }
    fn flush(&mut self) -> std::io::Result<()> {
        Ok(())
    }
}

#[derive(Debug, Clone, Copy, PartialEq)]
struct Spec {
    sender: usize,
    tag: u8,
    plen: usize,
    fail: usize,
    nports: usize,
    poison: bool,
    l: usize,
    w: usize,
}

fn payload_bytes(tag: u8, plen: usize, poison: bool) -> Vec<u8> {
    let mut v: Vec<u8> = (0..plen).map(|i| ((tag as usize * 31 + i * 7) % 200) as u8).collect();
    if poison && plen > 0 {
        v[0] = POISON;
    }
    v
}

/// (encoded length, encoded bytes written before the scripted failure) with a 5-byte port number
fn measure(tag: u8, plen: usize, fail: usize, nports: usize, poison: bool, wrap: bool) -> (usize, usize) {
    let one = |fail_at: Option<usize>| {
        let p = Payload { bytes: payload_bytes(tag, plen, poison), fail_at };
        let m = ItemM {
            tag,
            ch: if nports > 0 {
                Some(TransportedSender {
                    port: Some(u32::MAX),
                    data: PhantomData,
                    codec: PhantomData,
                    max_item_size: remoc::rch::DEFAULT_MAX_ITEM_SIZE as u64,
                })
            } else {
                None
            },
            data: &p,
        };
        let mut c = Counting(0);
        if wrap {
            // mpsc / oneshot transport `Result<T, RecvError>`
            let v: Result<ItemM, mpsc::RecvError> = Ok(m);
            let _ = <codec::Default as codec::Codec>::serialize(&mut c, &v);
        } else {
            let _ = <codec::Default as codec::Codec>::serialize(&mut c, &m);
        }
        c.0
    };
    let l = one(None);
    let w = if fail > 0 { one(Some(fail - 1)) } else { l };
    (l, w)
}

fn make_item(s: &Spec, ch: Option<mpsc::Sender<u8>>) -> Item {
    Item {
        tag: s.tag,
        ch,
        data: Payload { bytes: payload_bytes(s.tag, s.plen, s.poison), fail_at: if s.fail > 0 { Some(s.fail - 1) } else { None } },
    }
}

// ------------------------------------------------------------------------------------------------
// case

#[derive(Debug, Clone, PartialEq)]
enum Op {
    Send(Spec),
    Recv,
    Burst,
    Drop(usize),
    /// recv with the deserializer held after `at` payload bytes, dropped and repeated up to `k` times
    StallRecv { k: usize, at: usize },
}

#[derive(Debug)]
struct Case {
    kind: u128,
    smd: usize,
    rmd: usize,
    cs: u32,
    rb: u32,
    smax: usize,
    rmax: usize,
    ops: Vec<Op>,
}

fn parse(inp: &[u128]) -> Option<Case> {
    if inp.len() < 7 {
        return None;
    }
    let mut ops = Vec::new();
    let mut i = 7;
    while i < inp.len() {
        match inp[i] {
            0 => {
                if i + 8 >= inp.len() {
                    return None;
                }
                let f = &inp[i + 1..i + 9];
                if f[1] > 127 || f[2] > 100_000 || f[3] > f[2] + 1 || f[4] > 1 || f[5] > 1 || f[0] > 3 {
                    return None;
                }
                if f[5] == 1 && f[2] == 0 {
                    return None;
                }
                ops.push(Op::Send(Spec {
                    sender: f[0] as usize,
                    tag: f[1] as u8,
                    plen: f[2] as usize,
                    fail: f[3] as usize,
                    nports: f[4] as usize,
                    poison: f[5] == 1,
                    l: f[6] as usize,
                    w: f[7] as usize,
                }));
                i += 9;
            }
            1 => {
                ops.push(Op::Recv);
                i += 1;
            }
            2 => {
                ops.push(Op::Burst);
                i += 1;
            }
            3 => {
                if i + 1 >= inp.len() || inp[i + 1] > 2 {
                    return None;
                }
                ops.push(Op::Drop(inp[i + 1] as usize));
                i += 2;
            }
            4 => {
                if i + 2 >= inp.len() || inp[i + 1] > 8 || inp[i + 2] > 100_000 {
                    return None;
                }
                ops.push(Op::StallRecv { k: inp[i + 1] as usize, at: inp[i + 2] as usize });
                i += 3;
            }
            _ => return None,
        }
    }
    let c = Case {
        kind: inp[0],
        smd: inp[1] as usize,
        rmd: inp[2] as usize,
        cs: inp[3] as u32,
        rb: inp[4] as u32,
        smax: inp[5] as usize,
        rmax: inp[6] as usize,
        ops,
    };
    if c.kind > 6 || c.cs < 4 || c.cs > 100_000 || c.smd < 1 || c.rmd < 1 {
        return None;
    }
    // kind 1: receive buffer; kinds 2 and 5: number of remote senders
    match c.kind {
        1 | 6 if c.rb < 64 => return None,
        2 | 5 if !(1..=3).contains(&c.rb) => return None,
        _ => {}
    }
    let nsend = if matches!(c.kind, 2 | 5) { c.rb as usize } else { 1 };
    let mut tags = std::collections::HashSet::new();
    for op in &c.ops {
        match op {
            Op::Send(s) => {
                if s.sender >= nsend || !tags.insert(s.tag) {
                    return None;
                }
            }
            Op::Drop(i) if *i >= nsend => return None,
            _ => {}
        }
    }
    // derived numbers must be what the codec really produces
    let wrap = matches!(c.kind, 2 | 4 | 5);
    for op in &c.ops {
        if let Op::Send(s) = op {
            if measure(s.tag, s.plen, s.fail, s.nports, s.poison, wrap) != (s.l, s.w) {
                return None;
            }
        }
    }
    Some(c)
}

#[derive(Debug, Clone, PartialEq)]
enum SRes {
    Ok,
    Serialize,
    MaxItem,
    Send,
    Cancelled,
    Other,
    Rejected,
}

#[derive(Debug, Clone, PartialEq)]
enum RRes {
    Item(u8, usize, bool),
    ErrMaxItem,
    ErrDeser,
    ErrMissingPorts,
    ErrReceive,
    ErrOther,
    End,
    Pending,
}

fn sres_num(r: &SRes) -> u128 {
    match r {
        SRes::Ok => 0,
        SRes::Serialize => 1,
        SRes::MaxItem => 2,
        SRes::Send => 3,
        SRes::Cancelled => 4,
        SRes::Other => 5,
        SRes::Rejected => 6,
    }
}

fn rres_nums(r: &RRes, out: &mut Vec<u128>) {
    match r {
        RRes::Item(tag, plen, _) => out.extend([0, *tag as u128, *plen as u128]),
        RRes::ErrMaxItem => out.extend([1, 1]),
        RRes::ErrDeser => out.extend([1, 2]),
        RRes::ErrMissingPorts => out.extend([1, 3]),
        RRes::ErrReceive => out.extend([1, 4]),
        RRes::ErrOther => out.extend([1, 9]),
        RRes::End => out.push(2),
        RRes::Pending => out.push(3),
    }
}

fn item_res(it: Item) -> RRes {
    let intact = it.data.bytes == payload_bytes(it.tag, it.data.bytes.len(), false);
    RRes::Item(it.tag, it.data.bytes.len(), intact)
}

fn base_recv_res(r: Result<Option<Item>, base::RecvError>) -> RRes {
    match r {
        Ok(Some(it)) => item_res(it),
        Ok(None) => RRes::End,
        Err(base::RecvError::MaxItemSizeExceeded) => RRes::ErrMaxItem,
        Err(base::RecvError::Deserialize(_)) => RRes::ErrDeser,
        Err(base::RecvError::MissingPorts(_)) => RRes::ErrMissingPorts,
        Err(base::RecvError::Receive(_)) => RRes::ErrReceive,
    }
}

fn base_send_res<T>(r: Result<(), base::SendError<T>>) -> SRes {
    match r {
        Ok(()) => SRes::Ok,
        Err(e) => match e.kind {
            base::SendErrorKind::Serialize(_) => SRes::Serialize,
            base::SendErrorKind::MaxItemSizeExceeded => SRes::MaxItem,
            base::SendErrorKind::Send(_) => SRes::Send,
        },
    }
}

/// what one send put on the wire for the base port
#[derive(Debug, Default, Clone, PartialEq)]
struct WireObs {
    /// 0 buffered, 1 streamed (complete message whose last frame is empty), 2 no complete message
    mode: u128,
    bytes: usize,
    port_msgs: usize,
}

struct Wire {
    net: Net,
    seen: usize,
    base_port: Option<u32>,
}

impl Wire {
    fn observe(&mut self) -> WireObs {
        let frames = self.net.a2b.log_from(self.seen);
        let msgs = group(&frames);
        let mut used = 0;
        let mut o = WireObs { mode: 2, ..Default::default() };
        for m in &msgs {
            used += m.frames;
            match &m.msg {
                MultiplexMsg::Data { port, last, .. } => {
                    if self.base_port.is_none() {
                        self.base_port = Some(*port);
                    }
                    if self.base_port == Some(*port) {
                        let n = m.payload.as_ref().map(|p| p.len()).unwrap_or(0);
                        o.bytes += n;
                        if *last {
                            o.mode = if n == 0 { 1 } else { 0 };
                        }
                    }
                }
                MultiplexMsg::PortData { port, .. } if self.base_port == Some(*port) => o.port_msgs += 1,
                _ => {}
            }
        }
        self.seen += used;
        o
    }
}


type Shared<T> = Arc<Mutex<T>>;

fn send_kind_res(k: &base::SendErrorKind) -> SRes {
    match k {
        base::SendErrorKind::Serialize(_) => SRes::Serialize,
        base::SendErrorKind::MaxItemSizeExceeded => SRes::MaxItem,
        base::SendErrorKind::Send(_) => SRes::Send,
    }
}

enum AnyTx {
    Base(base::Sender<Item>),
    Lr(lr::Sender<Item>),
}
impl AnyTx {
    async fn send(&mut self, item: Item) -> SRes {
        match self {
            AnyTx::Base(tx) => base_send_res(tx.send(item).await),
            AnyTx::Lr(tx) => match tx.send(item).await {
                Ok(()) => SRes::Ok,
                Err(e) => match e.kind {
                    lr::SendErrorKind::Serialize(_) => SRes::Serialize,
                    lr::SendErrorKind::MaxItemSizeExceeded => SRes::MaxItem,
                    lr::SendErrorKind::Send(_) => SRes::Send,
                    lr::SendErrorKind::Connect(_) => SRes::Other,
                },
            },
        }
    }
}
enum AnyRx {
    Base(base::Receiver<Item>),
    Lr(lr::Receiver<Item>),
}
impl AnyRx {
    async fn recv(&mut self) -> RRes {
        match self {
            AnyRx::Base(rx) => base_recv_res(rx.recv().await),
            AnyRx::Lr(rx) => match rx.recv().await {
                Ok(Some(it)) => item_res(it),
                Ok(None) => RRes::End,
                Err(lr::RecvError::MaxItemSizeExceeded) => RRes::ErrMaxItem,
                Err(lr::RecvError::Deserialize(_)) => RRes::ErrDeser,
                Err(lr::RecvError::MissingPorts(_)) => RRes::ErrMissingPorts,
                Err(lr::RecvError::Receive(_)) => RRes::ErrReceive,
                Err(lr::RecvError::Connect(_)) => RRes::ErrOther,
            },
        }
    }
}

/// Owns the sender; one command at a time; the cancel signal drops the pending future.
async fn sender_actor(
    mut tx: AnyTx, mut cmds: tmpsc::UnboundedReceiver<Item>, mut cancel: tmpsc::UnboundedReceiver<()>,
    done: Shared<Vec<SRes>>, ev: Arc<AtomicU64>,
) {
    while let Some(item) = cmds.recv().await {
        while cancel.try_recv().is_ok() {}
        let r = tokio::select! {
            biased;
            _ = cancel.recv() => None,
            r = tx.send(item) => Some(r),
        };
        done.lock().unwrap().push(r.unwrap_or(SRes::Cancelled));
        ev.fetch_add(1, Ordering::SeqCst);
    }
}

/// Owns the receiver; a cancelled `recv` leaves the receiver as it is, the next one polls it again.
async fn receiver_actor(
    mut rx: AnyRx, mut cmds: tmpsc::UnboundedReceiver<()>, mut cancel: tmpsc::UnboundedReceiver<()>,
    done: Shared<Vec<RRes>>, ev: Arc<AtomicU64>,
) {
    while let Some(()) = cmds.recv().await {
        while cancel.try_recv().is_ok() {}
        let r = tokio::select! {
            biased;
            _ = cancel.recv() => None,
            r = rx.recv() => Some(r),
        };
        done.lock().unwrap().push(r.unwrap_or(RRes::Pending));
        ev.fetch_add(1, Ordering::SeqCst);
    }
}

#[derive(Default)]
struct Trace {
    /// per send: spec, result, wire observation (kinds 0/1/3 only)
    sends: Vec<(Spec, SRes, WireObs)>,
    recvs: Vec<RRes>,
    /// output numbers in op order
    out: Vec<u128>,
    /// oracle-only drain after the script
    drain: Vec<RRes>,
    livelock: bool,
    ticks: u64,
    /// everything in flight was delivered and drained at the end
    complete: bool,
    /// per stalled recv op: how often its pending future was dropped, whether a deserializer was held
    stalls: Vec<(usize, bool)>,
}

#[derive(Serialize, Deserialize)]
enum Ctl {
    MpscTx(mpsc::Sender<Item, codec::Default, 16>),
    LrRx(lr::Receiver<Item>),
    OneTx(oneshot::Sender<Item>),
}

struct World {
    net: Net,
    settle: Settle,
    ev: Arc<AtomicU64>,
    livelock: bool,
}

impl World {
    fn new(net: Net) -> Self {
        World { net, settle: Settle::new(), ev: Arc::new(AtomicU64::new(0)), livelock: false }
    }
    async fn barrier(&mut self) {
        let (net, ev) = (self.net.clone(), self.ev.clone());
        let snap = move || -> Vec<u64> {
            let a = net.a2b.0.lock().unwrap();
            let b = net.b2a.0.lock().unwrap();
            vec![a.log.len() as u64, a.consumed as u64, b.log.len() as u64, b.consumed as u64, ev.load(Ordering::SeqCst)]
        };
        if !self.settle.barrier(&snap).await {
            self.livelock = true;
        }
    }
}

fn cfgs(c: &Case) -> (Cfg, Cfg) {
    let big = Cfg::default().receive_buffer;
    let rb = if matches!(c.kind, 1 | 6) { c.rb } else { big };
    (
        Cfg { connection_timeout: None, max_data_size: c.smd, chunk_size: 16, ..Default::default() },
        Cfg { connection_timeout: None, max_data_size: c.rmd, chunk_size: c.cs, receive_buffer: rb, ..Default::default() },
    )
}

/// kinds 0, 1 (base channel of the connection) and 3 (lr channel whose receiver is moved to B)
async fn run_stream(c: &Case) -> Option<Trace> {
    let net = Net::new(true);
    let (cfg_a, cfg_b) = cfgs(c);
    let mut w = World::new(net.clone());
    gate_set(false, 0);
    let _gate_guard = GateGuard;
    let (tx, rx, _keep_conn): (AnyTx, AnyRx, Box<dyn std::any::Any + Send>);
    let (ja, jb);
    if c.kind == 3 {
        let (a, b) = tokio::join!(
            Connect::framed::<_, _, Ctl, Ctl, codec::Default>(cfg_a, net.a2b.sink(), net.b2a.stream()),
            Connect::framed::<_, _, Ctl, Ctl, codec::Default>(cfg_b, net.b2a.sink(), net.a2b.stream()),
        );
        let (conn_a, mut ctl_tx_a, ctl_rx_a) = a.ok()?;
        let (conn_b, ctl_tx_b, mut ctl_rx_b) = b.ok()?;
        ja = tokio::spawn(conn_a);
        jb = tokio::spawn(conn_b);
        let (mut ltx, lrx) = lr::channel::<Item, codec::Default>();
        ltx.set_max_item_size(c.smax);
        let (s, r) = tokio::join!(ctl_tx_a.send(Ctl::LrRx(lrx)), ctl_rx_b.recv());
        s.ok()?;
        let mut lrx = match r.ok()?? {
            Ctl::LrRx(rx) => rx,
            _ => return None,
        };
        lrx.set_max_item_size(c.rmax);
        tx = AnyTx::Lr(ltx);
        rx = AnyRx::Lr(lrx);
        _keep_conn = Box::new((ctl_tx_a, ctl_rx_a, ctl_tx_b, ctl_rx_b));
    } else {
        let (a, b) = tokio::join!(
            Connect::framed::<_, _, Item, Item, codec::Default>(cfg_a, net.a2b.sink(), net.b2a.stream()),
            Connect::framed::<_, _, Item, Item, codec::Default>(cfg_b, net.b2a.sink(), net.a2b.stream()),
        );
        let (conn_a, mut tx_a, rx_a) = a.ok()?;
        let (conn_b, tx_b, mut rx_b) = b.ok()?;
        ja = tokio::spawn(conn_a);
        jb = tokio::spawn(conn_b);
        tx_a.set_max_item_size(c.smax);
        rx_b.set_max_item_size(c.rmax);
        tx = AnyTx::Base(tx_a);
        rx = AnyRx::Base(rx_b);
        _keep_conn = Box::new((rx_a, tx_b));
    }

    let (scmd_tx, scmd_rx) = tmpsc::unbounded_channel();
    let (scancel_tx, scancel_rx) = tmpsc::unbounded_channel();
    let (rcmd_tx, rcmd_rx) = tmpsc::unbounded_channel();
    let (rcancel_tx, rcancel_rx) = tmpsc::unbounded_channel();
    let sdone: Shared<Vec<SRes>> = Default::default();
    let rdone: Shared<Vec<RRes>> = Default::default();
    tokio::spawn(sender_actor(tx, scmd_rx, scancel_rx, sdone.clone(), w.ev.clone()));
    tokio::spawn(receiver_actor(rx, rcmd_rx, rcancel_rx, rdone.clone(), w.ev.clone()));
    w.barrier().await;
    let mut wire = Wire { net: net.clone(), seen: net.a2b.log_len(), base_port: None };
    // local receivers of the channel halves that travel inside items stay alive until the end
    let mut keep: Vec<mpsc::Receiver<u8>> = Vec::new();
    let mut t = Trace::default();

    macro_rules! do_recv {
        () => {{
            let n0 = rdone.lock().unwrap().len();
            let _ = rcmd_tx.send(());
            w.barrier().await;
            if rdone.lock().unwrap().len() == n0 {
                let _ = rcancel_tx.send(());
                w.barrier().await;
            }
            let r = rdone.lock().unwrap().get(n0).cloned().unwrap_or(RRes::ErrOther);
            r
        }};
    }

    for op in &c.ops {
        if w.livelock {
            break;
        }
        match op {
            Op::Send(s) => {
                let ch = if s.nports > 0 {
                    let (tx, rx) = mpsc::channel::<u8, codec::Default>(1);
                    keep.push(rx);
                    Some(tx)
                } else {
                    None
                };
                let n0 = sdone.lock().unwrap().len();
                let _ = scmd_tx.send(make_item(s, ch));
                w.barrier().await;
                if sdone.lock().unwrap().len() == n0 {
                    let _ = scancel_tx.send(());
                    w.barrier().await;
                }
                let res = sdone.lock().unwrap().get(n0).cloned().unwrap_or(SRes::Other);
                let obs = wire.observe();
                // the encoded size of a channel half varies with its random port number: not compared
                let bytes = if s.nports > 0 { 0 } else { obs.bytes };
                t.out.extend([sres_num(&res), obs.mode, bytes as u128]);
                t.sends.push((*s, res, obs));
            }
            Op::Recv => {
                let res = do_recv!();
                rres_nums(&res, &mut t.out);
                t.recvs.push(res);
            }
            Op::StallRecv { k, at } => {
                let held0 = GATE_HELD.load(Ordering::SeqCst);
                gate_set(true, *at);
                let n0 = rdone.lock().unwrap().len();
                let _ = rcmd_tx.send(());
                w.barrier().await;
                // every dropped attempt leaves one `Pending` entry; the attempt under way will fill
                // entry n0 + drops
                let mut drops = 0;
                while drops < *k && rdone.lock().unwrap().len() == n0 + drops && !w.livelock {
                    let _ = rcancel_tx.send(());
                    w.barrier().await;
                    if rdone.lock().unwrap().len() != n0 + drops + 1 {
                        break;
                    }
                    drops += 1;
                    let _ = rcmd_tx.send(());
                    w.barrier().await;
                }
                let held = GATE_HELD.load(Ordering::SeqCst) > held0;
                gate_set(false, 0);
                w.barrier().await;
                if rdone.lock().unwrap().len() == n0 + drops {
                    let _ = rcancel_tx.send(());
                    w.barrier().await;
                }
                let res = rdone.lock().unwrap().get(n0 + drops).cloned().unwrap_or(RRes::ErrOther);
                rres_nums(&res, &mut t.out);
                t.recvs.push(res);
                t.stalls.push((drops, held));
            }
            _ => {}
        }
    }
    gate_set(false, 0);
    // drain for the oracle: receive until nothing more comes
    for _ in 0..(c.ops.len() + 4) {
        if w.livelock {
            break;
        }
        let res = do_recv!();
        let stop = matches!(res, RRes::Pending | RRes::End | RRes::ErrReceive | RRes::ErrOther);
        t.drain.push(res);
        if stop {
            break;
        }
    }
    t.livelock = w.livelock;
    t.ticks = w.settle.ticks;
    t.complete = true;
    drop(keep);
    ja.abort();
    jb.abort();
    Some(t)
}

fn mpsc_recv_res(r: Result<Option<Item>, mpsc::RecvError>) -> RRes {
    match r {
        Ok(Some(it)) => item_res(it),
        Ok(None) => RRes::End,
        Err(mpsc::RecvError::RemoteReceive(e)) => base_recv_res(Err(e)),
        Err(_) => RRes::ErrOther,
    }
}

fn sending_res(s: &mut remoc::rch::Sending<Item>) -> SRes {
    match s.try_result() {
        None => SRes::Cancelled,
        Some(Ok(())) => SRes::Ok,
        Some(Err(remoc::rch::SendingError::Send(e))) => send_kind_res(&e.kind),
        Some(Err(_)) => SRes::Other,
    }
}

type MTx = mpsc::Sender<Item, codec::Default, 16>;

/// Endpoint B creates the mpsc channel and moves `n` clones of the sender to endpoint A.
async fn mpsc_setup(
    c: &Case, net: &Net, local_buffer: usize,
) -> Option<(Vec<Option<MTx>>, mpsc::Receiver<Item>, Box<dyn std::any::Any + Send>, tokio::task::JoinHandle<()>, tokio::task::JoinHandle<()>)> {
    let (cfg_a, cfg_b) = cfgs(c);
    let (a, b) = tokio::join!(
        Connect::framed::<_, _, Ctl, Ctl, codec::Default>(cfg_a, net.a2b.sink(), net.b2a.stream()),
        Connect::framed::<_, _, Ctl, Ctl, codec::Default>(cfg_b, net.b2a.sink(), net.a2b.stream()),
    );
    let (conn_a, ctl_tx_a, mut ctl_rx_a) = a.ok()?;
    let (conn_b, mut ctl_tx_b, ctl_rx_b) = b.ok()?;
    let ja = tokio::spawn(async move {
        let _ = conn_a.await;
    });
    let jb = tokio::spawn(async move {
        let _ = conn_b.await;
    });
    let (tx, rx) = mpsc::channel::<Item, codec::Default>(local_buffer);
    let tx = tx.set_buffer::<16>();
    let mut txs = Vec::new();
    for _ in 0..c.rb {
        let mut t = tx.clone();
        t.set_max_item_size(c.smax);
        let (s, r) = tokio::join!(ctl_tx_b.send(Ctl::MpscTx(t)), ctl_rx_a.recv());
        s.ok()?;
        match r.ok()?? {
            Ctl::MpscTx(t) => txs.push(Some(t)),
            _ => return None,
        }
    }
    drop(tx);
    Some((txs, rx, Box::new((ctl_tx_a, ctl_rx_a, ctl_tx_b, ctl_rx_b)), ja, jb))
}

/// kind 2: bursts of one op sequence, everything forwarded at every barrier (large local buffer)
async fn run_mpsc(c: &Case) -> Option<Trace> {
    let net = Net::new(true);
    let mut w = World::new(net.clone());
    let (mut txs, mut rx, _keep_conn, ja, jb) = mpsc_setup(c, &net, 64).await?;
    w.barrier().await;
    let mut keep: Vec<mpsc::Receiver<u8>> = Vec::new();
    let mut t = Trace::default();
    let mut burst: Vec<(Spec, Result<remoc::rch::Sending<Item>, SRes>)> = Vec::new();
    let mut ops: Vec<Op> = c.ops.clone();
    ops.push(Op::Burst);
    for op in &ops {
        if w.livelock {
            break;
        }
        match op {
            Op::Send(s) => {
                let ch = if s.nports > 0 {
                    let (tx, rx) = mpsc::channel::<u8, codec::Default>(1);
                    keep.push(rx);
                    Some(tx)
                } else {
                    None
                };
                let r = match &txs[s.sender] {
                    // with room in the queue `send` completes at once
                    Some(tx) => match tx.send(make_item(s, ch)).now_or_never() {
                        Some(Ok(sending)) => Ok(sending),
                        Some(Err(_)) => Err(SRes::Rejected),
                        None => Err(SRes::Other),
                    },
                    None => Err(SRes::Rejected),
                };
                burst.push((*s, r));
            }
            Op::Burst => {
                w.barrier().await;
                for (s, r) in burst.drain(..) {
                    let res = match r {
                        Ok(mut sending) => sending_res(&mut sending),
                        Err(e) => e,
                    };
                    t.out.push(sres_num(&res));
                    t.sends.push((s, res, WireObs::default()));
                }
            }
            Op::Recv | Op::StallRecv { .. } => {
                let res = match rx.recv().now_or_never() {
                    Some(r) => mpsc_recv_res(r),
                    None => RRes::Pending,
                };
                w.barrier().await;
                rres_nums(&res, &mut t.out);
                t.recvs.push(res);
            }
            Op::Drop(i) => {
                txs[*i] = None;
                w.barrier().await;
            }
        }
    }
    for _ in 0..(c.ops.len() + 4) {
        let res = match rx.recv().now_or_never() {
            Some(r) => mpsc_recv_res(r),
            None => RRes::Pending,
        };
        w.barrier().await;
        let stop = matches!(res, RRes::Pending | RRes::End | RRes::ErrReceive | RRes::ErrOther);
        t.drain.push(res);
        if stop || w.livelock {
            break;
        }
    }
    t.livelock = w.livelock;
    t.ticks = w.settle.ticks;
    t.complete = true;
    drop(keep);
    ja.abort();
    jb.abort();
    Some(t)
}

/// kind 5: concurrent senders, small local buffer; only the oracle judges
async fn run_mpsc_conc(c: &Case) -> Option<Trace> {
    let net = Net::new(true);
    let mut w = World::new(net.clone());
    let local_buffer = 1 + (c.smax % 2);
    let (txs, mut rx, _keep_conn, ja, jb) = mpsc_setup(c, &net, local_buffer).await?;
    w.barrier().await;
    let mut t = Trace::default();
    // one task per sender working off its items in order; the handles report the outcome
    let results: Shared<Vec<(Spec, SRes)>> = Default::default();
    let mut tasks = Vec::new();
    for (i, tx) in txs.into_iter().enumerate() {
        let items: Vec<Spec> = c.ops.iter().filter_map(|o| if let Op::Send(s) = o { if s.sender == i { Some(*s) } else { None } } else { None }).collect();
        let (results, ev) = (results.clone(), w.ev.clone());
        tasks.push(tokio::spawn(async move {
            let tx = tx.unwrap();
            let mut handles = Vec::new();
            for s in items {
                match tx.send(make_item(&s, None)).await {
                    Ok(h) => handles.push((s, h)),
                    Err(_) => results.lock().unwrap().push((s, SRes::Rejected)),
                }
                ev.fetch_add(1, Ordering::SeqCst);
            }
            for (s, h) in handles {
                let r = match h.await {
                    Ok(()) => SRes::Ok,
                    Err(remoc::rch::SendingError::Send(e)) => send_kind_res(&e.kind),
                    Err(_) => SRes::Other,
                };
                results.lock().unwrap().push((s, r));
                ev.fetch_add(1, Ordering::SeqCst);
            }
        }));
    }
    // receives are spread over the run: one per recv op, then drain
    let nrecv = c.ops.iter().filter(|o| matches!(o, Op::Recv)).count();
    for k in 0..(nrecv + c.ops.len() + 6) {
        w.barrier().await;
        if w.livelock {
            break;
        }
        let res = match rx.recv().now_or_never() {
            Some(r) => mpsc_recv_res(r),
            None => RRes::Pending,
        };
        let stop = matches!(res, RRes::End | RRes::ErrReceive | RRes::ErrOther) || (k >= nrecv && res == RRes::Pending);
        t.drain.push(res);
        if stop {
            break;
        }
    }
    w.barrier().await;
    for (s, r) in results.lock().unwrap().iter() {
        t.sends.push((*s, r.clone(), WireObs::default()));
    }
    t.complete = tasks.iter().all(|h| h.is_finished());
    for h in tasks {
        h.abort();
    }
    t.out.push(1);
    t.livelock = w.livelock;
    t.ticks = w.settle.ticks;
    ja.abort();
    jb.abort();
    Some(t)
}

/// kind 4: every send op is a fresh oneshot channel created at B whose sender is moved to A
async fn run_oneshot(c: &Case) -> Option<Trace> {
    let net = Net::new(true);
    let (cfg_a, cfg_b) = cfgs(c);
    let mut w = World::new(net.clone());
    let (a, b) = tokio::join!(
        Connect::framed::<_, _, Ctl, Ctl, codec::Default>(cfg_a, net.a2b.sink(), net.b2a.stream()),
        Connect::framed::<_, _, Ctl, Ctl, codec::Default>(cfg_b, net.b2a.sink(), net.a2b.stream()),
    );
    let (conn_a, _ctl_tx_a, mut ctl_rx_a) = a.ok()?;
    let (conn_b, mut ctl_tx_b, _ctl_rx_b) = b.ok()?;
    let ja = tokio::spawn(conn_a);
    let jb = tokio::spawn(conn_b);
    let mut keep: Vec<mpsc::Receiver<u8>> = Vec::new();
    let mut t = Trace::default();
    for op in &c.ops {
        let Op::Send(s) = op else { continue };
        if w.livelock {
            break;
        }
        let (mut otx, mut orx) = oneshot::channel::<Item, codec::Default>();
        otx.set_max_item_size(c.smax);
        let (sr, rr) = tokio::join!(ctl_tx_b.send(Ctl::OneTx(otx)), ctl_rx_a.recv());
        sr.ok()?;
        let otx = match rr.ok()?? {
            Ctl::OneTx(tx) => tx,
            _ => return None,
        };
        w.barrier().await;
        let ch = if s.nports > 0 {
            let (tx, rx) = mpsc::channel::<u8, codec::Default>(1);
            keep.push(rx);
            Some(tx)
        } else {
            None
        };
        let sending = otx.send(make_item(s, ch));
        w.barrier().await;
        let sres = match sending {
            Ok(mut h) => sending_res(&mut h),
            Err(_) => SRes::Rejected,
        };
        let rres = match (&mut orx).now_or_never() {
            None => RRes::Pending,
            Some(Ok(it)) => item_res(it),
            Some(Err(oneshot::RecvError::Closed)) => RRes::End,
            Some(Err(oneshot::RecvError::RemoteReceive(e))) => base_recv_res(Err(e)),
            Some(Err(_)) => RRes::ErrOther,
        };
        w.barrier().await;
        t.out.push(sres_num(&sres));
        rres_nums(&rres, &mut t.out);
        t.sends.push((*s, sres, WireObs::default()));
        t.recvs.push(rres);
    }
    t.livelock = w.livelock;
    t.ticks = w.settle.ticks;
    t.complete = true;
    drop(keep);
    ja.abort();
    jb.abort();
    Some(t)
}

// ------------------------------------------------------------------------------------------------
// oracle (independent of the model): the property stated on the implementation trace

/// can the receiver accept the value?  Some(true) yes, Some(false) no, None: too close to the limit
/// to tell (the encoded size of a channel half varies with its random port number)
fn acceptable(s: &Spec, rmax: usize) -> Option<bool> {
    if s.poison {
        return Some(false);
    }
    // `l` is measured with a 5-byte port number; the real one may be up to 4 bytes shorter
    let lo = if s.nports > 0 { s.l.saturating_sub(4) } else { s.l };
    if s.l <= rmax {
        Some(true)
    } else if lo > rmax {
        Some(false)
    } else {
        None
    }
}

/// R1 every received value was sent, arrives intact, at most once;
/// R2 per sender the received values keep the send order;
/// R3 a received value's send returned Ok (a failed or cancelled send delivers nothing);
/// R4 no gaps: before a received value every earlier value of the same sender whose send returned Ok
///    and which the receiver can accept has been received (loss only as a suffix);
/// R5 receive errors are non-final size/deserialize errors, and there are at most as many of them as
///    there are items that failed, were cut or cannot be accepted; with one sender also by position:
///    between two received values (and before the first / after the last) at most as many errors as
///    such items in between;
/// R6 a value whose send returned Ok and which the receiver cannot accept yields an error, not a value;
/// R7 when everything was delivered and drained: every Ok-sent acceptable value has been received.
fn oracle(c: &Case, t: &Trace, rmax: usize, nsend: usize) -> String {
    if t.livelock {
        return "FAIL: no quiescence (livelock)".into();
    }
    let got: Vec<&RRes> = t.recvs.iter().chain(t.drain.iter()).collect();
    let find = |tag: u8| t.sends.iter().position(|(s, _, _)| s.tag == tag);
    let mut seen = std::collections::HashSet::new();
    let mut last_pos: Vec<Option<usize>> = vec![None; nsend.max(1)];
    let mut errs_total = 0usize;
    let mut errs_run = 0usize; // single sender: errors since the last value
    let bad_item = |s: &Spec, r: &SRes| !(*r == SRes::Ok && acceptable(s, rmax) == Some(true));
    let mut final_seen = false;
    for (k, r) in got.iter().enumerate() {
        if final_seen && !matches!(r, RRes::Pending | RRes::End) {
            return format!("FAIL: result {k}: {r:?} after the end of the channel");
        }
        match r {
            RRes::Item(tag, plen, intact) => {
                let Some(j) = find(*tag) else { return format!("FAIL: R1 result {k}: value {tag} was never sent") };
                let (s, sr, _) = &t.sends[j];
                if !seen.insert(*tag) {
                    return format!("FAIL: R1 result {k}: value {tag} received twice");
                }
                if !*intact || *plen != s.plen {
                    return format!("FAIL: R1 result {k}: value {tag} altered ({plen} payload bytes, sent {})", s.plen);
                }
                if let Some(p) = last_pos[s.sender] {
                    if j < p {
                        return format!("FAIL: R2 result {k}: value {tag} overtaken (sender {})", s.sender);
                    }
                }
                if *sr != SRes::Ok {
                    return format!("FAIL: R3 result {k}: value {tag} received although its send ended with {sr:?}");
                }
                if acceptable(s, rmax) == Some(false) {
                    return format!("FAIL: R6 result {k}: value {tag} of {} encoded bytes accepted above max_item_size {rmax}", s.l);
                }
                let from = last_pos[s.sender].map(|p| p + 1).unwrap_or(0);
                let mut bad_between = 0;
                for (s2, r2, _) in &t.sends[from..j] {
                    if s2.sender != s.sender {
                        continue;
                    }
                    if *r2 == SRes::Ok && acceptable(s2, rmax) == Some(true) {
                        return format!("FAIL: R4 result {k}: value {} (send Ok) lost before value {tag}", s2.tag);
                    }
                    bad_between += 1;
                }
                if nsend <= 1 && errs_run > bad_between {
                    return format!("FAIL: R5 result {k}: {errs_run} receive errors for {bad_between} failed items before value {tag}");
                }
                errs_run = 0;
                last_pos[s.sender] = Some(j);
            }
            RRes::ErrMaxItem | RRes::ErrDeser => {
                errs_total += 1;
                errs_run += 1;
            }
            RRes::ErrMissingPorts => return format!("FAIL: R5 result {k}: MissingPorts"),
            RRes::ErrReceive | RRes::ErrOther => return format!("FAIL: R5 result {k}: final error on a healthy connection"),
            RRes::End => final_seen = true,
            RRes::Pending => {}
        }
    }
    let bad_total = t.sends.iter().filter(|(s, r, _)| bad_item(s, r)).count();
    if errs_total > bad_total {
        return format!("FAIL: R5 {errs_total} receive errors for {bad_total} failed items");
    }
    if nsend <= 1 {
        let from = last_pos[0].map(|p| p + 1).unwrap_or(0);
        let bad_after = t.sends[from.min(t.sends.len())..].iter().filter(|(s, r, _)| bad_item(s, r)).count();
        if errs_run > bad_after {
            return format!("FAIL: R5 {errs_run} trailing receive errors for {bad_after} failed items");
        }
    }
    if t.complete && !final_seen_early(c, t) {
        let mut must_err = 0;
        for (s, r, _) in &t.sends {
            if *r == SRes::Ok && acceptable(s, rmax) == Some(true) && !seen.contains(&s.tag) {
                return format!("FAIL: R7 value {} (send Ok, acceptable) never received although everything was delivered", s.tag);
            }
            if *r == SRes::Ok && acceptable(s, rmax) == Some(false) {
                must_err += 1;
            }
        }
        if errs_total < must_err {
            return format!("FAIL: R6 {must_err} Ok-sent values cannot be accepted but only {errs_total} receive errors were reported");
        }
    }
    "ok".into()
}

/// oneshot: the channel ends with its only item; nothing to complete
fn final_seen_early(c: &Case, _t: &Trace) -> bool {
    c.kind == 4
}

fn oracle_oneshot(c: &Case, t: &Trace) -> String {
    if t.livelock {
        return "FAIL: no quiescence (livelock)".into();
    }
    for ((s, sr, _), rr) in t.sends.iter().zip(t.recvs.iter()) {
        let acc = acceptable(s, c.smax);
        match rr {
            RRes::Item(tag, plen, intact) => {
                if *tag != s.tag || *plen != s.plen || !*intact {
                    return format!("FAIL: oneshot {}: received a different value", s.tag);
                }
                if *sr != SRes::Ok {
                    return format!("FAIL: oneshot {}: value received although its send ended with {sr:?}", s.tag);
                }
                if acc == Some(false) {
                    return format!("FAIL: oneshot {}: value accepted above max_item_size", s.tag);
                }
            }
            RRes::ErrMaxItem | RRes::ErrDeser => {
                if *sr == SRes::Ok && acc == Some(true) {
                    return format!("FAIL: oneshot {}: receive error {rr:?} for an acceptable value whose send returned Ok", s.tag);
                }
            }
            RRes::End | RRes::Pending => {
                if *sr == SRes::Ok && acc == Some(true) {
                    return format!("FAIL: oneshot {}: send returned Ok but the receiver got {rr:?}", s.tag);
                }
            }
            other => return format!("FAIL: oneshot {}: {other:?}", s.tag),
        }
    }
    "ok".into()
}

fn signature(c: &Case, t: &Trace) -> String {
    let mut s = String::from(match c.kind {
        0 => "base",
        1 => "baseblk",
        2 => "mpsc",
        3 => "lr",
        4 => "oneshot",
        6 => "baseblkp",
        _ => "mpscconc",
    });
    if matches!(c.kind, 2 | 5) {
        s.push_str(&format!("{}", c.rb));
    }
    let mut feats: Vec<&str> = Vec::new();
    let add = |f: &'static str, feats: &mut Vec<&str>| {
        if !feats.contains(&f) {
            feats.push(f)
        }
    };
    let mut cutfull = false;
    for (sp, r, o) in &t.sends {
        match (r, o.mode) {
            (SRes::Ok, 0) => add("buf", &mut feats),
            (SRes::Ok, 1) => add("str", &mut feats),
            (SRes::Ok, _) => add("ok", &mut feats),
            (SRes::Serialize, _) if o.bytes > 0 => add("serS", &mut feats),
            (SRes::Serialize, _) => add("ser", &mut feats),
            (SRes::MaxItem, _) if o.bytes > 0 => add("maxS", &mut feats),
            (SRes::MaxItem, _) => add("max", &mut feats),
            (SRes::Cancelled, _) => add("cancel", &mut feats),
            (SRes::Send, _) => add("senderr", &mut feats),
            (SRes::Rejected, _) => add("rejected", &mut feats),
            _ => add("other", &mut feats),
        }
        if sp.nports > 0 {
            add("ports", &mut feats);
            // the data message went out complete, the port batch did not
            if *r == SRes::Cancelled && o.mode != 2 {
                add("portcut", &mut feats);
            }
        }
        // an unfinished message that nevertheless carries a complete encoding (the former finding F15:
        // such a value must not be delivered)
        if *r != SRes::Ok && sp.fail == sp.plen + 1 {
            cutfull = true;
        }
        if *r == SRes::Cancelled && o.mode == 2 && o.bytes == sp.l {
            cutfull = true;
        }
    }
    for r in t.recvs.iter().chain(t.drain.iter()) {
        match r {
            RRes::ErrMaxItem => add("rmax", &mut feats),
            RRes::ErrDeser => add("rdeser", &mut feats),
            RRes::ErrMissingPorts => add("rmissing", &mut feats),
            RRes::ErrReceive | RRes::ErrOther => add("rfinal", &mut feats),
            RRes::End => add("end", &mut feats),
            _ => {}
        }
    }
    if t.recvs.iter().any(|r| matches!(r, RRes::Pending)) {
        add("rpend", &mut feats);
    }
    // a pending recv was dropped and repeated while a deserializer thread was held / while nothing was
    if t.stalls.iter().any(|(d, h)| *d > 0 && *h) {
        add("stall", &mut feats);
    } else if t.stalls.iter().any(|(d, _)| *d > 0) {
        add("redrop", &mut feats);
    }
    // a completely streamed value of more chunks than the queue to the deserializer thread holds
    if t.sends.iter().any(|(_, r, o)| *r == SRes::Ok && o.mode == 1 && o.bytes.div_ceil(c.cs as usize) > CHUNK_QUEUE) {
        add("long", &mut feats);
    }
    feats.sort();
    for f in feats {
        s.push(':');
        s.push_str(f);
    }
    if cutfull {
        s.push_str(":cutfull");
    }
    s
}

/// One run of the case on its own runtime.  Err: setup failure / wall-clock limit.
fn run_once(c: &Arc<Case>) -> Result<Trace, (Vec<u128>, String, String)> {
    let (txr, rxr) = std::sync::mpsc::channel();
    let c2 = c.clone();
    std::thread::spawn(move || {
        let rt = tokio::runtime::Builder::new_current_thread().enable_time().start_paused(true).build().unwrap();
        ON_RUNTIME_THREAD.with(|c| c.set(true));
        let t = rt.block_on(async {
            // remoc's one-time thread test (a plain thread that the paused clock does not wait for)
            let _ = remoc::exec::are_threads_available().await;
            match c2.kind {
                0 | 1 | 3 | 6 => run_stream(&c2).await,
                2 => run_mpsc(&c2).await,
                4 => run_oneshot(&c2).await,
                _ => run_mpsc_conc(&c2).await,
            }
        });
        let _ = txr.send(t);
        rt.shutdown_timeout(Duration::from_millis(200));
    });
    match rxr.recv_timeout(Duration::from_secs(50)) {
        Ok(Some(t)) => Ok(t),
        Ok(None) => Err((vec![96], "setup-failed".into(), "FAIL: could not establish the connection or move a channel half".into())),
        Err(_) => Err((vec![95], "livelock".into(), "FAIL: case did not finish within 50 s of wall time".into())),
    }
}

pub fn exec(inp: &[u128]) -> (Vec<u128>, String, String) {
    let Some(c) = parse(inp) else { return (vec![98], "unparsable".into(), "ok".into()) };
    let c = Arc::new(c);
    // "no quiescence" is an observation only if it repeats: on a heavily loaded machine the barrier's
    // wall-clock limit can strike without any livelock
    let mut t = match run_once(&c) {
        Ok(t) => t,
        Err(e) => return e,
    };
    for _ in 0..2 {
        if !t.livelock {
            break;
        }
        t = match run_once(&c) {
            Ok(t) => t,
            Err(e) => return e,
        };
    }
    if debug() {
        eprintln!("case {c:?}\nsends {:?}\nrecvs {:?}\ndrain {:?}\nticks {} complete {}", t.sends, t.recvs, t.drain, t.ticks, t.complete);
    }
    let verdict = match c.kind {
        0 | 1 | 3 | 6 => oracle(&c, &t, c.rmax, 1),
        2 | 5 => oracle(&c, &t, c.smax, c.rb as usize),
        _ => oracle_oneshot(&c, &t),
    };
    let out = if c.kind == 6 { vec![1] } else { t.out.clone() };
    (out, signature(&c, &t), verdict)
}

// ------------------------------------------------------------------------------------------------
// generator

struct ItemGen {
    next_tag: u8,
    wrap: bool,
    thresholds: Vec<u64>,
    cs: u64,
    smax: u64,
}

impl ItemGen {
    /// a payload length whose encoded size sits around one of the limits that matter
    fn plen(&mut self, r: &mut Rng) -> u64 {
        let overhead = if self.wrap { 6 } else { 3 };
        let l = match r.below(10) {
            0..=4 => {
                let t = *r.pick(&self.thresholds);
                (t + r.below(3)).saturating_sub(1)
            }
            5 => self.cs * r.range(1, 4) + r.below(3) - 1,
            6 => r.range(0, 12),
            _ => r.range(0, 260),
        };
        l.saturating_sub(overhead).min(400)
    }

    fn item(&mut self, r: &mut Rng, sender: u64, allow_ports: bool, allow_fail: bool) -> Vec<u128> {
        let tag = self.next_tag;
        self.next_tag += 1;
        for _ in 0..20 {
            let mut plen = self.plen(r);
            let poison = plen > 0 && r.chance(1, 10);
            // (fail = plen + 1: Serialize fails after the last byte, the unfinished message carries a complete encoding)
            let fail = if allow_fail && plen > 0 && r.chance(1, 4) { r.range(0, plen) + 1 } else { 0 };
            let nports = if allow_ports && r.chance(1, 6) { 1 } else { 0 };
            if nports > 0 {
                plen = plen.min(60);
            }
            let fail = fail.min(plen);
            let (l, w) = measure(tag, plen as usize, fail as usize, nports as usize, poison, self.wrap);
            if nports > 0 {
                // the real encoded size may be up to 4 bytes below the measured one: stay clear of every limit
                let clear = |x: usize| self.thresholds.iter().all(|t| !((x as u64).saturating_sub(4) <= *t && *t < x as u64));
                // (a streamed value with a channel half is written in irregular pieces, so where the
                // sender's size check strikes is not predictable: such values stay below the limit)
                if !clear(l) || !clear(w) || l as u64 > self.smax {
                    continue;
                }
            }
            return vec![0, sender as u128, tag as u128, plen as u128, fail as u128, nports as u128, poison as u128, l as u128, w as u128];
        }
        let (l, w) = measure(tag, 1, 0, 0, false, self.wrap);
        vec![0, sender as u128, tag as u128, 1, 0, 0, 0, l as u128, w as u128]
    }
}

pub fn gen(r: &mut Rng, i: usize) -> Vec<Vec<u128>> {
    let slot = i % 20;
    let kind: u64 = match slot {
        0..=5 => 0,
        6 => 101, // long streamed values and a stalled deserializer
        7..=10 => 1,
        11..=14 => 2,
        15 => 3,
        16 => 4,
        17 => 5,
        18 => if i % 40 == 18 { 6 } else { 3 },
        _ => 100, // unfinished messages that carry a complete encoding
    };
    let mds = [8u64, 13, 16, 24, 32, 50, 64, 100, 200, 1000];
    let smd = *r.pick(&mds);
    let rmd = if r.chance(1, 2) { smd } else { *r.pick(&mds) };
    let cs = *r.pick(&[4u64, 5, 7, 8, 16, 17, 32, 64]);
    let small = [10u64, 16, 24, 40, 64, 100, 150];
    let smax = if r.chance(3, 5) { 100_000 } else { *r.pick(&small) };
    let rmax = if r.chance(3, 5) { 100_000 } else { *r.pick(&small) };
    let rb = *r.pick(&[64u64, 80, 100, 128, 200]);
    let mut thresholds = vec![smd, rmd];
    if smax < 1000 {
        thresholds.push(smax);
    }
    if rmax < 1000 && !matches!(kind, 2 | 4 | 5) {
        thresholds.push(rmax);
    }
    if kind == 1 {
        thresholds.push(rb);
        thresholds.push(rb / 2);
    }
    let mut g = ItemGen { next_tag: 1, wrap: matches!(kind, 2 | 4 | 5), thresholds, cs, smax };
    let mut v: Vec<u128> = Vec::new();
    match kind {
        0 | 3 => {
            v.extend([kind as u128, smd as u128, rmd as u128, cs as u128, 64, smax as u128, rmax as u128]);
            for _ in 0..r.range(3, 10) {
                v.extend(g.item(r, 0, true, true));
                if r.chance(1, 2) {
                    if r.chance(1, 6) {
                        v.extend([4, r.range(1, 2) as u128, r.below(20) as u128]);
                    } else {
                        v.push(1);
                    }
                    if r.chance(1, 5) {
                        v.push(1);
                    }
                }
            }
            v.extend([1, 1]);
        }
        101 => {
            // Values streamed in many chunks -- around and above the capacity of the queue to the
            // deserializer thread -- met by receives whose deserializer is held at some payload byte
            // while the pending recv future is dropped and recv called again.
            let kind = if r.chance(1, 4) { 3 } else { 0 };
            let cs = *r.pick(&[4u64, 5, 7, 8]);
            let smd = *r.pick(&[8u64, 16, 32, 64]);
            let rmd = if r.chance(1, 2) { smd } else { *r.pick(&mds) };
            let rmax = if r.chance(3, 4) { 100_000 } else { *r.pick(&[64u64, 100, 150, 300]) };
            g.thresholds = vec![smd, rmd];
            g.cs = cs;
            g.smax = 100_000;
            v.extend([kind as u128, smd as u128, rmd as u128, cs as u128, 64, 100_000, rmax as u128]);
            let q = CHUNK_QUEUE as u64;
            let mut last_plen = 0;
            let stalled = |r: &mut Rng, last_plen: u64| -> Vec<u128> {
                let at = match r.below(3) {
                    0 => 0,
                    1 => r.below(12),
                    _ => r.range(0, last_plen.max(1)),
                };
                vec![4, r.range(1, 3) as u128, at as u128]
            };
            for _ in 0..r.range(2, 5) {
                if r.chance(2, 3) {
                    let chunks = match r.below(4) {
                        0 | 1 => r.range(q - 3, q + 6),
                        2 => r.range(q + 7, 2 * q),
                        _ => r.range(2 * q, 3 * q),
                    };
                    let plen = (chunks * cs + r.below(cs)).saturating_sub(3);
                    let poison = r.chance(1, 10);
                    let fail = if r.chance(1, 6) { r.range(0, plen) + 1 } else { 0 };
                    let (l, w) = measure(g.next_tag, plen as usize, fail as usize, 0, poison, false);
                    v.extend([0, 0, g.next_tag as u128, plen as u128, fail as u128, 0, poison as u128, l as u128, w as u128]);
                    g.next_tag += 1;
                    last_plen = plen;
                } else {
                    let it = g.item(r, 0, true, true);
                    last_plen = it[3] as u64;
                    v.extend(it);
                }
                if r.chance(2, 3) {
                    if r.chance(3, 4) {
                        v.extend(stalled(r, last_plen));
                    } else {
                        v.push(1);
                    }
                }
            }
            v.extend(stalled(r, last_plen));
            v.extend([1, 1]);
        }
        1 => {
            v.extend([1, smd as u128, rmd as u128, cs as u128, rb as u128, smax as u128, rmax as u128]);
            let n = r.range(2, 7);
            for _ in 0..n {
                v.extend(g.item(r, 0, false, true));
            }
            for _ in 0..n + 2 {
                v.push(1);
            }
        }
        2 => {
            let ns = r.range(1, 3);
            v.extend([2, smd as u128, rmd as u128, cs as u128, ns as u128, smax as u128, smax as u128]);
            let mut dropped = vec![false; ns as usize];
            for _ in 0..r.range(2, 6) {
                let s = r.below(ns);
                if dropped[s as usize] && r.chance(3, 4) {
                    continue;
                }
                for _ in 0..r.range(1, 4) {
                    v.extend(g.item(r, s, true, true));
                }
                v.push(2);
                for _ in 0..r.below(4) {
                    v.push(1);
                }
                if r.chance(1, 6) {
                    let d = r.below(ns);
                    dropped[d as usize] = true;
                    v.extend([3, d as u128]);
                }
            }
            if r.chance(1, 2) {
                for d in 0..ns {
                    v.extend([3, d as u128]);
                }
            }
            v.extend([1, 1, 1]);
        }
        6 => {
            // the credit runs out in the port batch: value of `pool - r` encoded bytes (r < 4) with one half
            let rb = *r.pick(&[80u64, 100, 128]);
            v.extend([6, 1000, rmd as u128, cs as u128, rb as u128, 100_000, rmax as u128]);
            let mut pool = rb;
            if r.chance(1, 2) {
                let plen = r.range(0, 10);
                let (l, w) = measure(g.next_tag, plen as usize, 0, 0, false, false);
                v.extend([0, 0, g.next_tag as u128, plen as u128, 0, 0, 0, l as u128, w as u128]);
                g.next_tag += 1;
                pool -= l as u64;
            }
            let (l0, _) = measure(g.next_tag, 0, 0, 1, false, false);
            let want = pool.saturating_sub(r.below(5));
            let plen = want.saturating_sub(l0 as u64);
            let (l, w) = measure(g.next_tag, plen as usize, 0, 1, false, false);
            v.extend([0, 0, g.next_tag as u128, plen as u128, 0, 1, 0, l as u128, w as u128]);
            g.next_tag += 1;
            // the receiver takes what has arrived (credit comes back), then further values follow: the
            // first of them meets a receiver that still waits for the ports of the cut value
            v.extend([1, 1]);
            for _ in 0..r.range(1, 3) {
                let plen = r.range(0, 30);
                let (l, w) = measure(g.next_tag, plen as usize, 0, 0, false, false);
                v.extend([0, 0, g.next_tag as u128, plen as u128, 0, 0, 0, l as u128, w as u128]);
                g.next_tag += 1;
                if r.chance(1, 2) {
                    v.push(1);
                }
            }
            v.extend([1, 1, 1]);
        }
        4 => {
            v.extend([4, smd as u128, rmd as u128, cs as u128, 64, smax as u128, smax as u128]);
            for _ in 0..r.range(2, 6) {
                v.extend(g.item(r, 0, true, true));
            }
        }
        5 => {
            let ns = r.range(2, 3);
            v.extend([5, smd as u128, rmd as u128, cs as u128, ns as u128, smax as u128, smax as u128]);
            for _ in 0..r.range(4, 14) {
                let who = r.below(ns);
                v.extend(g.item(r, who, false, true));
                if r.chance(1, 3) {
                    v.push(1);
                }
            }
        }
        _ => {
            // an unfinished streamed message that carries a complete encoding, and a receiver whose
            // pending `recv` is dropped and polled again
            let smd = *r.pick(&[8u64, 16, 24, 32]);
            let plen = smd + r.range(0, 40);
            if r.chance(1, 2) {
                // Serialize fails after the last byte
                v.extend([0, smd as u128, smd as u128, cs as u128, 64, 100_000, 100_000]);
                let (l, w) = measure(1, plen as usize, plen as usize + 1, 0, false, false);
                v.extend([0, 0, 1, plen as u128, plen as u128 + 1, 0, 0, l as u128, w as u128]);
                v.extend([1, 1]);
                g.next_tag = 2;
                v.extend(g.item(r, 0, false, false));
                v.extend([1, 1]);
            } else {
                // the credit runs out exactly before `finish`
                let (l, w) = measure(1, plen as usize, 0, 0, false, false);
                let l = l.max(64);
                let plen = if l == 64 { 61 } else { plen };
                let (l, w) = if l == 64 { measure(1, 61, 0, 0, false, false) } else { (l, w) };
                v.extend([1, smd as u128, smd as u128, cs as u128, l as u128, 100_000, 100_000]);
                v.extend([0, 0, 1, plen as u128, 0, 0, 0, l as u128, w as u128]);
                v.extend([1, 1, 1]);
            }
        }
    }
    vec![v]
}

pub fn run(seed: u64, count: usize, extra: &[String], out: &mut impl std::io::Write) {
    if let Some(pos) = extra.iter().position(|a| a == "--measure") {
        let v: Vec<usize> = extra[pos + 1..].iter().filter_map(|x| x.parse().ok()).collect();
        let (l, w) = measure(v[0] as u8, v[1], v[2], v[3], v[4] != 0, v[5] != 0);
        writeln!(out, "L={l} W={w}").unwrap();
        return;
    }
    let seed = Rng::new(seed ^ 0xC04).next();
    crate::drive(COMP, seed, count, extra, out, gen, exec);
}
