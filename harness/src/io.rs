//! C18: rch::io channels.  Drives the REAL `remoc::rch::io::{channel, sized}` halves through
//! `tokio::io::{AsyncWriteExt, AsyncReadExt}` with scripted sizes.
//!
//! An io channel does not work with both halves on one endpoint (`rch::bin` needs a remote half), so
//! every case builds a real two-endpoint connection (`Connect::framed` over the harness transport),
//! sends one half to the other endpoint over the base channel and then runs the script.
//!
//! Input (after the component number):
//!   kind mode fixed csA csB loc rbuf seed plen  (op arg)*
//!   kind  0 = compared with the model: link frozen between ops, `deliver` moves everything in flight,
//!             default (large) receive buffer;
//!         1 = "remote:" oracle-only stream: link in auto mode, receive buffer `rbuf` (small), output
//!             is the single number 1
//!   mode  0 = unsized (`io::channel`), 1 = sized (`io::sized(fixed)`)
//!   csA/csB chunk sizes configured at endpoints A and B; loc 0: receiver moves to B, 1: sender moves to B
//!   payload byte i = (seed + 37 i) mod 256, i < plen; a write of n takes the next n unaccepted bytes
//!   ops   0 write n | 1 flush | 2 shutdown | 3 drop sender | 4 read n | 5 deliver | 6 cut connection
//!         7 (kind 1 only) flush, then move the sender to the other endpoint and continue there
//! Output per op: tag then data.  tag 0 = Ok (write: accepted count; read: count then the bytes;
//!   others: 0), 1 = Err (io::ErrorKind class), 2 = pending at quiescence (future dropped),
//!   3 = panic, 4 = half no longer exists.
use crate::{
    rng::Rng,
    transport::{Fault, Net},
};
use remoc::{
    codec,
    rch::{base, io},
    Cfg, Connect,
};
use serde::{Deserialize, Serialize};
use std::{future::Future, io::ErrorKind, sync::Arc, time::Duration};
use tokio::io::{AsyncReadExt, AsyncWriteExt};

pub const COMP: u128 = 18;

#[derive(Serialize, Deserialize)]
enum Item {
    Rx(io::Receiver),
    Tx(io::Sender),
}

#[derive(Debug, Clone, PartialEq)]
enum Res {
    Ok(Vec<u8>, usize),
    Err(u128),
    Pending,
    Panic,
    Gone,
}

fn kind_class(k: ErrorKind) -> u128 {
    match k {
        ErrorKind::WriteZero => 1,
        ErrorKind::BrokenPipe => 2,
        ErrorKind::UnexpectedEof => 3,
        ErrorKind::ConnectionRefused => 4,
        ErrorKind::ConnectionReset => 5,
        ErrorKind::ConnectionAborted => 6,
        ErrorKind::InvalidData => 7,
        _ => 9,
    }
}

async fn barrier() {
    for _ in 0..2 {
        tokio::time::sleep(Duration::from_nanos(1)).await;
    }
}

/// Runs an operation as its own task up to quiescence; a still pending operation is cancelled.
async fn big_step<T: Send + 'static>(fut: impl Future<Output = Option<std::io::Result<T>>> + Send + 'static) -> Result<T, Res> {
    let h = tokio::spawn(fut);
    barrier().await;
    if h.is_finished() {
        match h.await {
            Ok(Some(Ok(v))) => Ok(v),
            Ok(Some(Err(e))) => Err(Res::Err(kind_class(e.kind()))),
            Ok(None) => Err(Res::Gone),
            Err(e) if e.is_panic() => Err(Res::Panic),
            Err(_) => Err(Res::Pending),
        }
    } else {
        h.abort();
        let r = h.await;
        barrier().await;
        match r {
            Err(e) if e.is_panic() => Err(Res::Panic),
            _ => Err(Res::Pending),
        }
    }
}

struct Case {
    kind: u128,
    sized: bool,
    fixed: u64,
    cs_a: u32,
    cs_b: u32,
    loc: u128,
    rbuf: u32,
    payload: Vec<u8>,
    ops: Vec<(u128, usize)>,
}

fn parse(inp: &[u128]) -> Option<Case> {
    if inp.len() < 9 || (inp.len() - 9) % 2 != 0 {
        return None;
    }
    let seed = inp[7];
    let plen = inp[8] as usize;
    if plen > 100_000 {
        return None;
    }
    Some(Case {
        kind: inp[0],
        sized: inp[1] != 0,
        fixed: inp[2] as u64,
        cs_a: inp[3] as u32,
        cs_b: inp[4] as u32,
        loc: inp[5],
        rbuf: inp[6] as u32,
        payload: (0..plen).map(|i| ((seed + 37 * i as u128) % 256) as u8).collect(),
        ops: inp[9..].chunks(2).map(|c| (c[0], c[1] as usize)).collect(),
    })
}

struct Trace {
    results: Vec<Res>,
    drain: Vec<Res>,
}

type Slot<T> = Arc<tokio::sync::Mutex<Option<T>>>;

async fn do_read(rx: &Slot<io::Receiver>, want: usize) -> Res {
    let rx = rx.clone();
    let r = big_step(async move {
        let mut g = rx.lock().await;
        let h = g.as_mut()?;
        let mut buf = vec![0u8; want];
        Some(h.read(&mut buf).await.map(|k| {
            buf.truncate(k);
            buf
        }))
    })
    .await;
    match r {
        Ok(b) => {
            let k = b.len();
            Res::Ok(b, k)
        }
        Err(e) => e,
    }
}

async fn run_case(c: &Case) -> Option<Trace> {
    let net = Net::new(true);
    let big = Cfg::default().receive_buffer;
    let rb = if c.kind == 0 { big } else { c.rbuf };
    let cfg_a = Cfg { chunk_size: c.cs_a, receive_buffer: rb, ..Default::default() };
    let cfg_b = Cfg { chunk_size: c.cs_b, receive_buffer: rb, ..Default::default() };
    let (a, b) = tokio::join!(
        Connect::framed::<_, _, Item, Item, codec::Default>(cfg_a, net.a2b.sink(), net.b2a.stream()),
        Connect::framed::<_, _, Item, Item, codec::Default>(cfg_b, net.b2a.sink(), net.a2b.stream()),
    );
    let (conn_a, mut tx_a, mut rx_a): (_, base::Sender<Item>, base::Receiver<Item>) = a.ok()?;
    let (conn_b, mut tx_b, mut rx_b): (_, base::Sender<Item>, base::Receiver<Item>) = b.ok()?;
    let ja = tokio::spawn(conn_a);
    let jb = tokio::spawn(conn_b);

    let (tx, rx) = if c.sized { io::sized(c.fixed) } else { io::channel() };
    let (tx, rx) = if c.loc == 0 {
        let (s, r) = tokio::join!(tx_a.send(Item::Rx(rx)), rx_b.recv());
        s.ok()?;
        match r.ok()?? {
            Item::Rx(rx) => (tx, rx),
            _ => return None,
        }
    } else {
        let (s, r) = tokio::join!(tx_a.send(Item::Tx(tx)), rx_b.recv());
        s.ok()?;
        match r.ok()?? {
            Item::Tx(tx) => (tx, rx),
            _ => return None,
        }
    };
    barrier().await;
    if c.kind == 0 {
        net.set_auto(false);
    }
    let tx: Slot<io::Sender> = Arc::new(tokio::sync::Mutex::new(Some(tx)));
    let rx: Slot<io::Receiver> = Arc::new(tokio::sync::Mutex::new(Some(rx)));
    let mut off = 0usize;
    let mut results = Vec::new();
    // where the sender currently lives
    let mut at_a = c.loc == 0;
    for &(op, arg) in &c.ops {
        if std::env::var_os("VH_DEBUG").is_some() { eprintln!("op {op} {arg}"); }
        let res = match op {
            0 => {
                let end = (off + arg).min(c.payload.len());
                let buf = c.payload[off.min(end)..end].to_vec();
                let tx = tx.clone();
                let r = big_step(async move {
                    let mut g = tx.lock().await;
                    let h = g.as_mut()?;
                    Some(h.write(&buf).await)
                })
                .await;
                match r {
                    Ok(k) => {
                        off += k;
                        Res::Ok(vec![], k)
                    }
                    Err(e) => e,
                }
            }
            1 | 2 => {
                let tx = tx.clone();
                let r = big_step(async move {
                    let mut g = tx.lock().await;
                    let h = g.as_mut()?;
                    Some(if op == 1 { h.flush().await } else { h.shutdown().await })
                })
                .await;
                match r {
                    Ok(()) => Res::Ok(vec![], 0),
                    Err(e) => e,
                }
            }
            3 => {
                let gone = tx.lock().await.take().is_none();
                barrier().await;
                if gone {
                    Res::Gone
                } else {
                    Res::Ok(vec![], 0)
                }
            }
            4 => do_read(&rx, arg).await,
            5 => {
                net.set_auto(true);
                barrier().await;
                if c.kind == 0 {
                    net.set_auto(false);
                }
                Res::Ok(vec![], 0)
            }
            6 => {
                net.a2b.fail(Fault::StreamErr);
                net.b2a.fail(Fault::StreamErr);
                barrier().await;
                Res::Ok(vec![], 0)
            }
            7 if c.kind != 0 => {
                // flush, then move the (already used) sender to the other endpoint and go on there
                let txc = tx.clone();
                let r = big_step(async move {
                    let mut g = txc.lock().await;
                    let h = g.as_mut()?;
                    Some(h.flush().await)
                })
                .await;
                if std::env::var_os("VH_DEBUG").is_some() { eprintln!("op7 flush done at_a={at_a}"); }
                match r {
                    Ok(()) => {
                      let taken = { tx.lock().await.take() };
                      match taken {
                        Some(s) => {
                            let moved = tokio::time::timeout(std::time::Duration::from_secs(5), async {
                                if at_a {
                                    let (x, y) = tokio::join!(tx_a.send(Item::Tx(s)), rx_b.recv());
                                    x.ok()?;
                                    y.ok()?
                                } else {
                                    let (x, y) = tokio::join!(tx_b.send(Item::Tx(s)), rx_a.recv());
                                    x.ok()?;
                                    y.ok()?
                                }
                            })
                            .await;
                            if std::env::var_os("VH_DEBUG").is_some() { eprintln!("op7 moved {:?}", moved.as_ref().map(|m| m.is_some())); }
                            match moved {
                                Ok(Some(Item::Tx(s2))) => {
                                    *tx.lock().await = Some(s2);
                                    at_a = !at_a;
                                    barrier().await;
                                    Res::Ok(vec![], 0)
                                }
                                _ => Res::Err(9),
                            }
                        }
                        None => Res::Gone,
                      }
                    }
                    Err(e) => e,
                }
            }
            _ => return None,
        };
        results.push(res);
    }
    // post-script drain for the oracle only: deliver everything, read until something other than data
    net.set_auto(true);
    barrier().await;
    let mut drain = Vec::new();
    for _ in 0..(c.payload.len() + 8) {
        let r = do_read(&rx, 64).await;
        let stop = !matches!(&r, Res::Ok(_, k) if *k > 0);
        drain.push(r);
        if stop {
            break;
        }
    }
    ja.abort();
    jb.abort();
    Some(Trace { results, drain })
}

/// The property, stated directly on the implementation trace (independent of the model):
/// R1 bytes read are a prefix of the bytes accepted by writes;
/// R2 a successful end-of-file (`Ok(0)` for a non-empty buffer) only when the total read equals the
///    fixed size (sized) or the total of a successful shutdown (unsized), and equals what was accepted;
/// R3 a write never accepts beyond the fixed size; on a healthy sender that has reached it a non-empty
///    write is refused with `WriteZero`; `WriteZero` occurs only there; no non-empty `Ok(0)`;
/// R4 the first shutdown of a sized sender succeeds iff exactly the fixed size was written;
/// R5 once the stream has an end (sender dropped or shut down, connection cut) and everything in
///    flight has been delivered, the reader is not left pending: it gets EOF (complete stream, R2) or
///    an error; a complete, healthy stream ends with EOF.
fn oracle(c: &Case, t: &Trace) -> String {
    let fixed = c.fixed as usize;
    let mut accepted: Vec<u8> = Vec::new();
    let mut read: Vec<u8> = Vec::new();
    let mut off = 0usize;
    let mut shutdown_total: Option<usize> = None;
    let mut shutdown_attempted = false;
    let mut dropped = false;
    let mut cut = false;
    let mut sender_failed = false;
    let mut flushed = true;
    let mut eof_seen = false;
    let all = c
        .ops
        .iter()
        .map(|&(op, arg)| (op, arg))
        .zip(t.results.iter())
        .chain(t.drain.iter().map(|r| ((4u128, 64usize), r)));
    for (i, ((op, arg), r)) in all.enumerate() {
        match op {
            0 => {
                let end = (off + arg).min(c.payload.len());
                let buf = &c.payload[off.min(end)..end];
                let healthy = !dropped && !shutdown_attempted && !cut && !sender_failed;
                match r {
                    Res::Ok(_, k) => {
                        if *k > buf.len() {
                            return format!("FAIL: R3 op {i}: write accepted {k} of {} bytes", buf.len());
                        }
                        if c.sized && accepted.len() + k > fixed {
                            return format!("FAIL: R3 op {i}: write accepted beyond the fixed size {fixed}");
                        }
                        if *k == 0 && !buf.is_empty() {
                            return format!("FAIL: R3 op {i}: non-empty write returned Ok(0)");
                        }
                        accepted.extend_from_slice(&buf[..*k]);
                        off += k;
                        flushed = *k == 0;
                    }
                    Res::Err(1) => {
                        if !(c.sized && accepted.len() >= fixed) || buf.is_empty() {
                            return format!("FAIL: R3 op {i}: WriteZero although the size limit is not reached");
                        }
                        flushed = true;
                    }
                    Res::Err(2) => flushed = true,
                    Res::Err(_) | Res::Panic => sender_failed = true,
                    Res::Pending | Res::Gone => {}
                }
                if c.sized && healthy && !buf.is_empty() && accepted.len() >= fixed && !matches!(r, Res::Ok(..)) {
                    if !matches!(r, Res::Err(1) | Res::Pending) {
                        return format!("FAIL: R3 op {i}: over-long write not refused with WriteZero but {r:?}");
                    }
                }
            }
            1 | 7 => match r {
                Res::Ok(..) => flushed = true,
                Res::Err(_) | Res::Panic => sender_failed = true,
                _ => {}
            },
            2 => {
                let first = !shutdown_attempted && !dropped;
                match r {
                    Res::Ok(..) => {
                        if first {
                            if c.sized && accepted.len() != fixed {
                                return format!(
                                    "FAIL: R4 op {i}: shutdown succeeded with {} of {fixed} bytes written",
                                    accepted.len()
                                );
                            }
                            shutdown_total = Some(accepted.len());
                        }
                        flushed = true;
                        shutdown_attempted = true;
                    }
                    Res::Err(3) => {
                        if first && !(c.sized && accepted.len() != fixed) {
                            return format!("FAIL: R4 op {i}: shutdown reported UnexpectedEof on a complete stream");
                        }
                        flushed = true;
                        shutdown_attempted = true;
                    }
                    Res::Err(_) | Res::Panic => sender_failed = true,
                    _ => {}
                }
            }
            3 => dropped = true,
            4 => {
                if let Res::Ok(b, k) = r {
                    if *k > arg || b.len() != *k {
                        return format!("FAIL: op {i}: read returned {k} bytes for a buffer of {arg}");
                    }
                    read.extend_from_slice(b);
                    if !accepted.starts_with(&read) {
                        return format!("FAIL: R1 op {i}: bytes read are not a prefix of the bytes written");
                    }
                    if eof_seen && *k > 0 {
                        return format!("FAIL: R2 op {i}: data after end-of-file");
                    }
                    if *k == 0 && arg > 0 {
                        eof_seen = true;
                        let complete =
                            if c.sized { read.len() == fixed } else { shutdown_total == Some(read.len()) };
                        if !complete || read != accepted {
                            return format!(
                                "FAIL: R2 op {i}: successful EOF after {} bytes (sized {}, fixed {fixed}, shutdown total {:?}, accepted {})",
                                read.len(),
                                c.sized,
                                shutdown_total,
                                accepted.len()
                            );
                        }
                    }
                }
            }
            6 => cut = true,
            _ => {}
        }
    }
    let ended = dropped || shutdown_attempted || cut;
    let complete = !cut
        && !sender_failed
        && if c.sized { accepted.len() == fixed && flushed } else { shutdown_total == Some(accepted.len()) };
    match t.drain.last() {
        Some(Res::Pending) if ended => {
            return format!(
                "FAIL: R5: reader left pending after the stream ended ({} read, {} accepted)",
                read.len(),
                accepted.len()
            )
        }
        Some(Res::Pending) | Some(Res::Err(_)) | Some(Res::Panic) if complete => {
            return format!("FAIL: R5: complete stream did not end with EOF but {:?}", t.drain.last())
        }
        Some(Res::Ok(_, k)) if *k > 0 => return "FAIL: drain did not terminate".into(),
        _ => {}
    }
    "ok".into()
}

fn res_nums(op: u128, r: &Res, out: &mut Vec<u128>) {
    match r {
        Res::Ok(b, k) => {
            out.push(0);
            out.push(*k as u128);
            if op == 4 {
                out.extend(b.iter().map(|x| *x as u128));
            }
        }
        Res::Err(k) => {
            out.push(1);
            out.push(*k);
        }
        Res::Pending => {
            out.push(2);
            out.push(0);
        }
        Res::Panic => {
            out.push(3);
            out.push(0);
        }
        Res::Gone => {
            out.push(4);
            out.push(0);
        }
    }
}

fn signature(c: &Case, t: &Trace) -> String {
    let mut s = String::new();
    if c.kind != 0 {
        s.push_str("remote:");
    }
    s.push_str(if c.sized { "sized" } else { "unsized" });
    s.push_str(if c.loc == 0 { ":rxB" } else { ":txB" });
    let has = |f: &dyn Fn(&(u128, usize), &Res) -> bool| c.ops.iter().zip(t.results.iter()).any(|(o, r)| f(o, r));
    let all = || t.results.iter().chain(t.drain.iter());
    if has(&|o, r| o.0 == 0 && matches!(r, Res::Err(1))) {
        s.push_str(":writezero");
    }
    if has(&|o, r| (o.0 == 0 || o.0 == 4) && o.1 == 0 && matches!(r, Res::Ok(..))) {
        s.push_str(":zero");
    }
    if has(&|o, r| o.0 == 2 && matches!(r, Res::Ok(..))) {
        s.push_str(":shut");
    }
    if has(&|o, r| o.0 == 2 && matches!(r, Res::Err(3))) {
        s.push_str(":shutshort");
    }
    if has(&|o, r| o.0 == 3 && matches!(r, Res::Ok(..))) {
        s.push_str(":drop");
    }
    if c.ops.iter().any(|o| o.0 == 6) {
        s.push_str(":cut");
    }
    if has(&|o, r| o.0 <= 2 && matches!(r, Res::Pending)) {
        s.push_str(":wpend");
    }
    if all().any(|r| matches!(r, Res::Panic)) {
        s.push_str(":panic");
    }
    if has(&|o, r| o.0 == 4 && o.1 > 0 && matches!(r, Res::Ok(_, 0))) {
        s.push_str(":eof");
    } else if t.drain.iter().any(|r| matches!(r, Res::Ok(_, 0))) {
        s.push_str(":draineof");
    }
    for k in [2u128, 3, 4, 5, 6, 7, 9] {
        if all().any(|r| *r == Res::Err(k)) {
            s.push_str(&format!(":e{k}"));
        }
    }
    s
}

pub fn exec(inp: &[u128]) -> (Vec<u128>, String, String) {
    let Some(c) = parse(inp) else { return (vec![98], "unparsable".into(), "ok".into()) };
    let (txr, rxr) = std::sync::mpsc::channel();
    let c = Arc::new(c);
    let c2 = c.clone();
    std::thread::spawn(move || {
        let rt = tokio::runtime::Builder::new_current_thread().enable_time().start_paused(true).build().unwrap();
        let t = rt.block_on(run_case(&c2));
        let _ = txr.send(t);
    });
    let t = match rxr.recv_timeout(Duration::from_secs(20)) {
        Ok(Some(t)) => t,
        Ok(None) => return (vec![96], "setup-failed".into(), "FAIL: could not establish the connection or move the half".into()),
        Err(_) => {
            return (vec![95], "livelock".into(), "FAIL: case did not reach quiescence within 20 s of wall time".into())
        }
    };
    let mut out = Vec::new();
    if c.kind == 0 {
        for (o, r) in c.ops.iter().zip(t.results.iter()) {
            res_nums(o.0, r, &mut out);
        }
    } else {
        out.push(1);
    }
    (out, signature(&c, &t), oracle(&c, &t))
}

fn around(r: &mut Rng, x: u64) -> u64 {
    match r.below(6) {
        0 => x,
        1 => x + 1,
        2 => x.saturating_sub(1),
        3 => 2 * x,
        4 => r.range(0, x),
        _ => r.range(0, 3),
    }
}

pub fn gen(r: &mut Rng, i: usize) -> Vec<Vec<u128>> {
    let remote = i % 8 == 7;
    let sized = r.chance(1, 2);
    let plen = match r.below(8) {
        0 => 0,
        1 => r.range(1, 3),
        _ => r.range(0, 200),
    };
    let css = [4u64, 5, 7, 8, 16, 17, 32, 64, 100, 255, 16384];
    let cs_a = *r.pick(&css);
    let cs_b = *r.pick(&css);
    let loc = r.below(2);
    let cs = if loc == 0 { cs_b } else { cs_a };
    // variant: 0 normal, 1 short (sized: fixed > payload; unsized: no shutdown), 2 dropped early,
    // 3 over-long (sized: fixed < payload), 4 cut
    let variant = match r.below(10) {
        0..=3 => 0,
        4 | 5 => 1,
        6 => 2,
        7 | 8 => 3,
        _ => 4,
    };
    let fixed = if !sized {
        0
    } else {
        match variant {
            1 => plen + r.range(1, 20),
            3 => r.range(0, plen),
            _ => plen,
        }
    };
    let rbuf = if remote { *r.pick(&[64u64, 68, 96, 128, 256, 1024]) } else { 0 };
    let mut ops: Vec<(u64, u64)> = Vec::new();
    let target = if sized { fixed.min(plen) } else { plen };
    let mut planned = 0u64;
    let mut steps = 0;
    let mut moves = 0;
    let drop_at = if variant == 2 { r.range(0, 12) } else { u64::MAX };
    let cut_at = if variant == 4 { r.range(0, 12) } else { u64::MAX };
    while steps < 60 {
        if steps == drop_at {
            ops.push((3, 0));
        }
        if steps == cut_at {
            ops.push((6, 0));
        }
        steps += 1;
        // remote stream: the sender, already used, moves on to the other endpoint
        if remote && moves < 2 && steps > 1 && r.chance(1, 8) {
            ops.push((7, 0));
            moves += 1;
        }
        match r.below(12) {
            0..=4 => {
                let n = around(r, cs).min(300);
                ops.push((0, n));
                planned += n.min(cs);
            }
            5 => ops.push((1, 0)),
            6 | 7 => ops.push((5, 0)),
            8..=10 => ops.push((4, around(r, cs).min(300))),
            _ => {
                if r.chance(1, 3) {
                    ops.push((0, 0));
                } else {
                    ops.push((4, 0));
                }
            }
        }
        if planned >= target + if variant == 3 { 2 * cs } else { 0 } && r.chance(1, 2) {
            break;
        }
    }
    // ending
    match variant {
        1 if !sized => {
            if r.chance(1, 2) {
                ops.push((1, 0));
            }
            ops.push((3, 0));
        }
        2 => {}
        _ => {
            if r.chance(4, 5) {
                ops.push((2, 0));
            } else {
                ops.push((1, 0));
            }
            if r.chance(1, 4) {
                ops.push((2, 0));
            }
            if r.chance(1, 4) {
                ops.push((0, r.range(0, 5)));
            }
            if r.chance(1, 2) {
                ops.push((3, 0));
            }
        }
    }
    ops.push((5, 0));
    for _ in 0..r.range(1, 6) {
        ops.push((4, around(r, cs.min(300)).max(1)));
        if r.chance(1, 3) {
            ops.push((5, 0));
        }
    }
    let seed = r.below(256);
    let mut v: Vec<u128> = vec![
        remote as u128,
        sized as u128,
        fixed as u128,
        cs_a as u128,
        cs_b as u128,
        loc as u128,
        rbuf as u128,
        seed as u128,
        plen as u128,
    ];
    for (o, a) in ops {
        v.push(o as u128);
        v.push(a as u128);
    }
    vec![v]
}

pub fn run(seed: u64, count: usize, extra: &[String], out: &mut impl std::io::Write) {
    // Rng::new(k) and Rng::new(k + 1) are the same stream shifted by one draw, and the driver hands
    // consecutive seeds to its shards: decorrelate them by hashing the seed first
    let seed = Rng::new(seed ^ 0xC18).next();
    crate::drive(COMP, seed, count, extra, out, gen, exec);
}
