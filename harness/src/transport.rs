//! Harness-owned in-memory transport: a Sink/Stream pair per direction over frame queues with
//! explicit controls.  Nothing moves between the endpoints unless the case says so (or `auto`).
use bytes::Bytes;
use futures::{Sink, Stream};
use std::{
    collections::VecDeque,
    fmt,
    pin::Pin,
    sync::{Arc, Mutex},
    task::{Context, Poll, Waker},
};

#[derive(Debug, Clone, Copy, PartialEq, Eq)]
pub enum Fault {
    SinkErr,
    StreamErr,
    Eof,
}

#[derive(Debug, Clone)]
pub struct TErr(pub &'static str);
impl fmt::Display for TErr {
    fn fmt(&self, f: &mut fmt::Formatter) -> fmt::Result {
        write!(f, "transport fault: {}", self.0)
    }
}
impl std::error::Error for TErr {}

#[derive(Default)]
pub struct LinkInner {
    /// frames written by the sending endpoint, not yet delivered
    pub pending: VecDeque<Bytes>,
    /// frames available to the receiving endpoint's stream
    pub delivered: VecDeque<Bytes>,
    /// every frame ever written, in order
    pub log: Vec<Bytes>,
    /// number of frames handed to the receiving stream so far
    pub consumed: usize,
    pub auto: bool,
    pub sink_ready: bool,
    pub sink_fault: bool,
    pub stream_fault: Option<Fault>,
    /// frames written after this many are silently dropped (silent stall), None = never
    pub drop_after: Option<usize>,
    pub stream_waker: Option<Waker>,
    pub sink_waker: Option<Waker>,
    pub flushes: usize,
    /// frames after which the sink stops accepting (livelock guard); 0 = default
    pub budget: usize,
    pub over_budget: bool,
    /// virtual instant of the last frame written and the longest pause between two writes so far
    pub last_write: Option<tokio::time::Instant>,
    /// virtual instant at which the first frame was silently dropped (the silent stall began)
    pub first_drop: Option<tokio::time::Instant>,
    pub max_gap: std::time::Duration,
}

#[derive(Clone)]
pub struct Link(pub Arc<Mutex<LinkInner>>);

impl Link {
    pub fn new(auto: bool) -> Self {
        Link(Arc::new(Mutex::new(LinkInner { auto, sink_ready: true, ..Default::default() })))
    }
    pub fn sink(&self) -> LinkSink {
        LinkSink(self.clone())
    }
    pub fn stream(&self) -> LinkStream {
        LinkStream(self.clone())
    }
    /// deliver up to n pending frames; returns number delivered
    pub fn deliver(&self, n: usize) -> usize {
        let mut l = self.0.lock().unwrap();
        let mut k = 0;
        while k < n {
            match l.pending.pop_front() {
                Some(f) => {
                    l.delivered.push_back(f);
                    k += 1;
                }
                None => break,
            }
        }
        if k > 0 {
            if let Some(w) = l.stream_waker.take() {
                w.wake();
            }
        }
        k
    }
    pub fn deliver_all(&self) -> usize {
        self.deliver(usize::MAX)
    }
    pub fn pending_len(&self) -> usize {
        self.0.lock().unwrap().pending.len()
    }
    pub fn log_len(&self) -> usize {
        self.0.lock().unwrap().log.len()
    }
    pub fn log_from(&self, from: usize) -> Vec<Bytes> {
        self.0.lock().unwrap().log[from..].to_vec()
    }
    pub fn set_auto(&self, auto: bool) {
        let mut l = self.0.lock().unwrap();
        l.auto = auto;
        if auto {
            while let Some(f) = l.pending.pop_front() {
                l.delivered.push_back(f);
            }
            if let Some(w) = l.stream_waker.take() {
                w.wake();
            }
        }
    }
    pub fn set_sink_ready(&self, ready: bool) {
        let mut l = self.0.lock().unwrap();
        l.sink_ready = ready;
        if ready {
            if let Some(w) = l.sink_waker.take() {
                w.wake();
            }
        }
    }
    pub fn fail(&self, f: Fault) {
        let mut l = self.0.lock().unwrap();
        match f {
            Fault::SinkErr => {
                l.sink_fault = true;
                if let Some(w) = l.sink_waker.take() {
                    w.wake();
                }
            }
            Fault::StreamErr | Fault::Eof => {
                l.stream_fault = Some(f);
                if let Some(w) = l.stream_waker.take() {
                    w.wake();
                }
            }
        }
    }
    /// inject a frame directly into the receiving side (harness acting as the peer)
    pub fn inject(&self, frame: Bytes) {
        let mut l = self.0.lock().unwrap();
        l.delivered.push_back(frame);
        if let Some(w) = l.stream_waker.take() {
            w.wake();
        }
    }
    /// frames the link carries before the livelock guard stops the writer (0 = default 100 000)
    /// longest pause between two frames written so far, including the pause since the last one
    pub fn longest_pause(&self) -> std::time::Duration {
        let l = self.0.lock().unwrap();
        match l.last_write {
            Some(t) => l.max_gap.max(tokio::time::Instant::now() - t),
            None => std::time::Duration::MAX,
        }
    }
    pub fn set_budget(&self, n: usize) {
        self.0.lock().unwrap().budget = n;
    }
    pub fn over_budget(&self) -> bool {
        self.0.lock().unwrap().over_budget
    }
    /// silent stall that begins after `k` more frames have been written (frame-indexed cut point)
    pub fn silence_after_frames(&self, k: usize) {
        let mut l = self.0.lock().unwrap();
        let n = l.log.len();
        l.drop_after = Some(n + k);
    }
    pub fn silence_began(&self) -> bool {
        self.0.lock().unwrap().first_drop.is_some()
    }
    pub fn silence_after_now(&self) {
        let mut l = self.0.lock().unwrap();
        let n = l.log.len();
        l.drop_after = Some(n);
    }
}

pub struct LinkSink(Link);
pub struct LinkStream(Link);

impl Sink<Bytes> for LinkSink {
    type Error = TErr;
    fn poll_ready(self: Pin<&mut Self>, cx: &mut Context<'_>) -> Poll<Result<(), TErr>> {
        let mut l = self.0 .0.lock().unwrap();
        if l.sink_fault {
            return Poll::Ready(Err(TErr("sink")));
        }
        let budget = if l.budget == 0 { 100_000 } else { l.budget };
        if l.log.len() >= budget {
            // livelock guard: an endpoint that keeps writing frames forever is stopped here, so that the
            // runtime becomes idle and the harness can report it
            l.over_budget = true;
            l.sink_waker = Some(cx.waker().clone());
            return Poll::Pending;
        }
        if !l.sink_ready {
            l.sink_waker = Some(cx.waker().clone());
            return Poll::Pending;
        }
        Poll::Ready(Ok(()))
    }
    fn start_send(self: Pin<&mut Self>, item: Bytes) -> Result<(), TErr> {
        let mut l = self.0 .0.lock().unwrap();
        if l.sink_fault {
            return Err(TErr("sink"));
        }
        l.log.push(item.clone());
        let now = tokio::time::Instant::now();
        if let Some(prev) = l.last_write {
            l.max_gap = l.max_gap.max(now - prev);
        }
        l.last_write = Some(now);
        if let Some(n) = l.drop_after {
            if l.log.len() > n {
                if l.first_drop.is_none() {
                    l.first_drop = Some(now);
                }
                return Ok(());
            }
        }
        if l.auto {
            l.delivered.push_back(item);
            if let Some(w) = l.stream_waker.take() {
                w.wake();
            }
        } else {
            l.pending.push_back(item);
        }
        Ok(())
    }
    fn poll_flush(self: Pin<&mut Self>, _cx: &mut Context<'_>) -> Poll<Result<(), TErr>> {
        let mut l = self.0 .0.lock().unwrap();
        if l.sink_fault {
            return Poll::Ready(Err(TErr("sink")));
        }
        l.flushes += 1;
        Poll::Ready(Ok(()))
    }
    fn poll_close(self: Pin<&mut Self>, _cx: &mut Context<'_>) -> Poll<Result<(), TErr>> {
        Poll::Ready(Ok(()))
    }
}

impl Stream for LinkStream {
    type Item = Result<Bytes, TErr>;
    fn poll_next(self: Pin<&mut Self>, cx: &mut Context<'_>) -> Poll<Option<Self::Item>> {
        let mut l = self.0 .0.lock().unwrap();
        if let Some(f) = l.delivered.pop_front() {
            l.consumed += 1;
            return Poll::Ready(Some(Ok(f)));
        }
        match l.stream_fault {
            Some(Fault::StreamErr) => Poll::Ready(Some(Err(TErr("stream")))),
            Some(Fault::Eof) => Poll::Ready(None),
            _ => {
                l.stream_waker = Some(cx.waker().clone());
                Poll::Pending
            }
        }
    }
}

/// Two links: a2b carries frames written by endpoint A, b2a those written by B.
#[derive(Clone)]
pub struct Net {
    pub a2b: Link,
    pub b2a: Link,
}

impl Net {
    pub fn new(auto: bool) -> Self {
        Net { a2b: Link::new(auto), b2a: Link::new(auto) }
    }
    pub fn set_auto(&self, auto: bool) {
        self.a2b.set_auto(auto);
        self.b2a.set_auto(auto);
    }
}
