//! C13 (hash set): random operation sequences over the full mutating API of the real
//! `ObservableHashSet<u64>`; same set-up as robs_map.rs.
//! Number format: see coq/theories/Run/RunRobsSet.v.
use crate::{
    rng::Rng,
    robs_map::{barrier, poll_once},
};
use remoc::robs::hash_set::{HashSetEvent, HashSetSubscription, ObservableHashSet};
use remoc::robs::RecvError;
use std::{
    collections::HashSet,
    io::Write,
    panic::{catch_unwind, AssertUnwindSafe},
};

const COMP: u128 = 135;
type Cd = remoc::codec::Default;
type Obs = ObservableHashSet<u64, Cd>;
type Sub = HashSetSubscription<u64, Cd>;

#[derive(Clone, Debug)]
pub enum Op {
    SetErrorHandler,
    Insert(u64),
    Replace(u64),
    Remove(u64),
    Take(u64),
    Clear,
    Retain(bool, Vec<(u64, bool)>),
    ShrinkToFit,
    Done,
}

pub struct CaseIn {
    pub incremental: bool,
    pub max: u64,
    pub k: usize,
    pub init: Vec<u64>,
    pub ops: Vec<Op>,
}

pub fn encode(c: &CaseIn) -> Vec<u128> {
    let mut v = vec![c.incremental as u128, c.max as u128, c.k as u128, c.init.len() as u128];
    v.extend(c.init.iter().map(|x| *x as u128));
    for o in &c.ops {
        match o {
            Op::SetErrorHandler => v.push(0),
            Op::Insert(k) => v.extend([1, *k as u128]),
            Op::Replace(k) => v.extend([2, *k as u128]),
            Op::Remove(k) => v.extend([3, *k as u128]),
            Op::Take(k) => v.extend([4, *k as u128]),
            Op::Clear => v.push(5),
            Op::Retain(d, ds) => {
                v.extend([6, *d as u128, ds.len() as u128]);
                for (k, b) in ds {
                    v.extend([*k as u128, *b as u128]);
                }
            }
            Op::ShrinkToFit => v.push(7),
            Op::Done => v.push(8),
        }
    }
    v
}

pub fn decode(inp: &[u128]) -> Option<CaseIn> {
    let mut i = 0;
    let mut next = || -> Option<u64> {
        let x = *inp.get(i)?;
        i += 1;
        u64::try_from(x).ok()
    };
    let incremental = next()? != 0;
    let max = next()?;
    let k = next()? as usize;
    let n = next()?;
    let mut init = Vec::new();
    for _ in 0..n {
        init.push(next()?);
    }
    let mut ops = Vec::new();
    loop {
        let Some(t) = next() else { break };
        ops.push(match t {
            0 => Op::SetErrorHandler,
            1 => Op::Insert(next()?),
            2 => Op::Replace(next()?),
            3 => Op::Remove(next()?),
            4 => Op::Take(next()?),
            5 => Op::Clear,
            6 => {
                let d = next()? != 0;
                let n = next()?;
                let mut ds = Vec::new();
                for _ in 0..n {
                    ds.push((next()?, next()? != 0));
                }
                Op::Retain(d, ds)
            }
            7 => Op::ShrinkToFit,
            8 => Op::Done,
            _ => return None,
        });
    }
    Some(CaseIn { incremental, max, k, init, ops })
}

fn apply(obs: &mut Obs, op: &Op) -> String {
    match op {
        Op::SetErrorHandler => {
            obs.set_error_handler(|_| ());
            "set_error_handler"
        }
        Op::Insert(k) => {
            if obs.insert(*k) {
                "insert-new"
            } else {
                "insert-present"
            }
        }
        Op::Replace(k) => {
            if obs.replace(*k).is_some() {
                "replace-present"
            } else {
                "replace-new"
            }
        }
        Op::Remove(k) => {
            if obs.remove(k) {
                "remove-hit"
            } else {
                "remove-miss"
            }
        }
        Op::Take(k) => {
            if obs.take(k).is_some() {
                "take-hit"
            } else {
                "take-miss"
            }
        }
        Op::Clear => {
            let e = obs.is_empty();
            obs.clear();
            if e {
                "clear-empty"
            } else {
                "clear"
            }
        }
        Op::Retain(d, ds) => {
            let mut removed = 0;
            obs.retain(|k| {
                let keep = ds.iter().find(|(kk, _)| kk == k).map(|(_, b)| *b).unwrap_or(*d);
                if !keep {
                    removed += 1;
                }
                keep
            });
            if removed > 0 {
                "retain-rm"
            } else {
                "retain-all"
            }
        }
        Op::ShrinkToFit => {
            obs.shrink_to_fit();
            "shrink_to_fit"
        }
        Op::Done => {
            let d = obs.is_done();
            obs.done();
            if d {
                "done-again"
            } else {
                "done"
            }
        }
    }
    .to_string()
}

fn enc_event(e: &HashSetEvent<u64>) -> Vec<u128> {
    match e {
        HashSetEvent::Set(k) => vec![1, *k as u128],
        HashSetEvent::Remove(k) => vec![2, *k as u128],
        HashSetEvent::Clear => vec![3],
        HashSetEvent::ShrinkToFit => vec![4],
        HashSetEvent::Done => vec![5],
        HashSetEvent::InitialComplete => vec![6],
    }
}

fn sorted(s: &HashSet<u64>) -> Vec<u64> {
    let mut v: Vec<u64> = s.iter().copied().collect();
    v.sort();
    v
}

fn enc_set(s: &HashSet<u64>, out: &mut Vec<u128>) {
    let v = sorted(s);
    out.push(v.len() as u128);
    out.extend(v.into_iter().map(|x| x as u128));
}

fn err_code(e: &RecvError) -> u128 {
    match e {
        RecvError::MaxSizeExceeded(_) => 1,
        RecvError::Closed => 2,
        RecvError::Lagged => 3,
        _ => 4,
    }
}

fn drain(sub: &mut Sub, into: &mut Vec<HashSetEvent<u64>>) -> Result<(), u128> {
    loop {
        match poll_once(sub.recv()) {
            Some(Ok(Some(e))) => into.push(e),
            Some(Ok(None)) => return Ok(()),
            Some(Err(e)) => return Err(err_code(&e)),
            None => return Ok(()),
        }
    }
}

fn rank(tag: &str) -> usize {
    const ORDER: &[&str] = &[
        "done-again", "clear-empty", "replace-new", "replace-present", "retain-rm", "take-hit", "take-miss",
        "retain-all", "clear", "panic", "remove-miss", "remove-hit", "insert-present", "insert-new", "shrink_to_fit",
        "set_error_handler", "done",
    ];
    ORDER.iter().position(|t| *t == tag).unwrap_or(ORDER.len())
}

pub fn exec(inp: &[u128]) -> (Vec<u128>, String, String) {
    let Some(case) = decode(inp) else { return (vec![98], "malformed".into(), "ok".into()) };
    let rt = tokio::runtime::Builder::new_current_thread().enable_time().start_paused(true).build().unwrap();
    rt.block_on(async move {
        let mut out: Vec<u128> = Vec::new();
        let init: HashSet<u64> = case.init.iter().copied().collect();
        let mut obs: Obs = ObservableHashSet::from(init);
        let mut tap = obs.subscribe(8192);
        tap.take_initial();
        let mut mirror = None;
        let mut hand: Option<Sub> = None;
        let mut hand_set: HashSet<u64> = HashSet::new();
        let mut sub_after_done = false;
        let mut tags: Vec<String> = Vec::new();
        let k = case.k.min(case.ops.len());
        for i in 0..=case.ops.len() {
            if i == k {
                let (s1, mut s2) = if case.incremental {
                    (obs.subscribe_incremental(8192), obs.subscribe_incremental(8192))
                } else {
                    (obs.subscribe(8192), obs.subscribe(8192))
                };
                sub_after_done = obs.is_done();
                if let Some(m) = s2.take_initial() {
                    hand_set = m;
                }
                mirror = Some(s1.mirror(case.max as usize));
                hand = Some(s2);
            }
            if i == case.ops.len() {
                break;
            }
            let op = &case.ops[i];
            let res = catch_unwind(AssertUnwindSafe(|| apply(&mut obs, op)));
            if (i + case.init.len()) % 3 == 0 {
                barrier().await;
            }
            match res {
                Err(_) => {
                    out.push(99);
                    if i >= k {
                        tags.push("panic".into());
                    }
                }
                Ok(tag) => {
                    let mut evs = Vec::new();
                    if let Err(c) = drain(&mut tap, &mut evs) {
                        out.extend([97, c]);
                    }
                    if matches!(op, Op::Retain(..)) {
                        evs.sort_by_key(|e| match e {
                            HashSetEvent::Remove(k) => *k,
                            _ => u64::MAX,
                        });
                    }
                    out.push(evs.len() as u128);
                    for e in &evs {
                        out.extend(enc_event(e));
                    }
                    if i >= k {
                        tags.push(tag);
                    }
                }
            }
        }
        let mirror = mirror.unwrap();
        let mut hand = hand.unwrap();
        let (mut hand_complete, mut hand_done, mut hand_err) = (!case.incremental, false, 0u128);
        for _ in 0..4 {
            barrier().await;
            let mut evs = Vec::new();
            if let Err(c) = drain(&mut hand, &mut evs) {
                hand_err = c;
            }
            for e in evs {
                match e {
                    HashSetEvent::Set(k) => {
                        hand_set.insert(k);
                    }
                    HashSetEvent::Remove(k) => {
                        hand_set.remove(&k);
                    }
                    HashSetEvent::Clear => hand_set.clear(),
                    HashSetEvent::ShrinkToFit => hand_set.shrink_to_fit(),
                    HashSetEvent::Done => hand_done = true,
                    HashSetEvent::InitialComplete => hand_complete = true,
                }
            }
        }
        out.push(obs.is_done() as u128);
        enc_set(&obs, &mut out);
        let (merr, mcomplete, mdone) = match mirror.borrow().await {
            Ok(r) => (0u128, r.is_complete(), r.is_done()),
            Err(e) => (err_code(&e), false, false),
        };
        let mcontents = mirror.detach().await;
        out.extend([merr, mcomplete as u128, mdone as u128]);
        if merr == 1 {
            out.push(mcontents.len() as u128);
        } else {
            enc_set(&mcontents, &mut out);
        }
        if hand_err != 0 {
            out.extend([97, hand_err]);
        }
        out.extend([hand_complete as u128, hand_done as u128]);
        enc_set(&hand_set, &mut out);

        let mut verdict = String::from("ok");
        if merr == 1 {
            // max_size exceeded: reported, not silent -- C14's business
        } else if merr != 0 {
            verdict = format!("FAIL: mirror reports error {merr} although the observed set is alive or done");
        } else if mcontents != *obs {
            verdict = format!("FAIL: mirror differs from observed set: observed {:?} mirror {:?}", sorted(&obs), sorted(&mcontents));
        } else if mdone != obs.is_done() {
            verdict = format!("FAIL: mirror differs in done flag: observed {} mirror {}", obs.is_done(), mdone);
        } else if !mcomplete {
            verdict = "FAIL: mirror differs: never becomes complete".to_string();
        }
        if verdict == "ok" {
            if hand_err != 0 {
                verdict = format!("FAIL: hand-consumed subscription reports error {hand_err}");
            } else if hand_set != *obs {
                verdict = format!("FAIL: hand-consumed events differ from observed set: observed {:?} by hand {:?}", sorted(&obs), sorted(&hand_set));
            } else if hand_done != obs.is_done() || !hand_complete {
                verdict = format!("FAIL: hand-consumed flags differ: done {hand_done} complete {hand_complete}");
            }
        }
        let pos = if sub_after_done {
            "afterdone"
        } else if k == 0 {
            "start"
        } else if k >= case.ops.len() {
            "end"
        } else {
            "mid"
        };
        let tag = tags.iter().min_by_key(|t| rank(t)).cloned().unwrap_or_else(|| "none".into());
        let sig =
            format!("{}{}:{}:{}", if merr == 1 { "maxsize:" } else { "" }, if case.incremental { "incr" } else { "snap" }, pos, tag);
        (out, sig, verdict)
    })
}

const KEYS: u64 = 8;

fn g_op(r: &mut Rng) -> Op {
    let k = r.below(KEYS);
    match r.below(16) {
        0..=4 => Op::Insert(k),
        5 => Op::Replace(k),
        6..=7 => Op::Remove(k),
        8..=9 => Op::Take(k),
        10 => {
            if r.chance(1, 3) {
                Op::Clear
            } else {
                Op::ShrinkToFit
            }
        }
        11..=13 => {
            let d = r.chance(2, 3);
            let n = r.below(5);
            Op::Retain(d, (0..n).map(|_| (r.below(KEYS), r.chance(1, 2))).collect())
        }
        14 => Op::SetErrorHandler,
        _ => Op::ShrinkToFit,
    }
}

fn g_case(r: &mut Rng) -> CaseIn {
    let ninit = r.below(7);
    let init = (0..ninit).map(|_| r.below(KEYS)).collect();
    let nops = r.range(5, 60) as usize;
    let mut ops: Vec<Op> = (0..nops).map(|_| g_op(r)).collect();
    let mut first_done = None;
    if r.chance(2, 3) {
        let pos = if r.chance(1, 6) { r.below(nops as u64) as usize } else { nops - 1 - r.below((nops as u64 / 6).max(1)) as usize };
        ops[pos] = Op::Done;
        first_done = Some(pos);
        if r.chance(1, 5) && pos + 1 < nops {
            let p2 = r.range(pos as u64 + 1, nops as u64 - 1) as usize;
            ops[p2] = Op::Done;
        }
    }
    let incremental = r.chance(1, 2);
    let mut k = match r.below(6) {
        0 => 0,
        1 => nops,
        _ => r.range(0, nops as u64) as usize,
    };
    // subscriptions made after done(): moved there explicitly in one case out of five (both modes;
    // incremental-after-done on a non-empty set was finding F11)
    if let Some(p) = first_done {
        if r.chance(1, 5) {
            k = (p + 1 + r.below((nops - p) as u64) as usize).min(nops);
        }
    }
    let max = if r.chance(1, 8) { r.range(1, 8) } else { 1000 };
    CaseIn { incremental, max, k, init, ops }
}

pub fn gen(r: &mut Rng, _i: usize) -> Vec<Vec<u128>> {
    vec![encode(&g_case(r))]
}

pub fn run(seed: u64, count: usize, extra: &[String], out: &mut impl Write) {
    // Rng::new(s) and Rng::new(s + 1) are the same splitmix stream shifted by one step, and the driver
    // gives consecutive seeds to its shards: scramble the seed first so that shards do not overlap
    let seed = Rng::new(seed ^ 0xC13B).next();
    crate::drive(COMP, seed, count, extra, out, gen, exec);
}
