//! Two real chmux endpoints over the harness-owned transport, on a paused current-thread runtime.
use crate::transport::{Net, TErr};
use bytes::Bytes;
use remoc::chmux::{self, verif::MultiplexMsg, Cfg, ChMux, ChMuxError, Client, Listener, Receiver, Sender};
use std::time::Duration;
use tokio::task::JoinHandle;

pub type MuxResult = Result<(), ChMuxError<TErr, TErr>>;

pub struct Pair {
    pub net: Net,
    pub a_client: Client,
    pub a_listener: Listener,
    pub b_client: Client,
    pub b_listener: Listener,
    pub mux_a: JoinHandle<MuxResult>,
    pub mux_b: JoinHandle<MuxResult>,
}

pub fn runtime() -> tokio::runtime::Runtime {
    tokio::runtime::Builder::new_current_thread().enable_time().start_paused(true).build().unwrap()
}

/// Quiescence barrier: with the paused clock a sleep completes only when every other task is idle.
pub async fn quiesce() {
    for _ in 0..3 {
        tokio::time::sleep(Duration::from_nanos(1)).await;
        tokio::task::yield_now().await;
    }
}

pub async fn connect(cfg_a: Cfg, cfg_b: Cfg) -> Pair {
    let net = Net::new(true);
    let a = ChMux::new(cfg_a, net.a2b.sink(), net.b2a.stream());
    let b = ChMux::new(cfg_b, net.b2a.sink(), net.a2b.stream());
    let (ra, rb) = tokio::join!(a, b);
    let (mux_a, a_client, a_listener) = ra.expect("handshake a");
    let (mux_b, b_client, b_listener) = rb.expect("handshake b");
    let mux_a = tokio::spawn(mux_a.run());
    let mux_b = tokio::spawn(mux_b.run());
    Pair { net, a_client, a_listener, b_client, b_listener, mux_a, mux_b }
}

/// A connects, B accepts: returns ((sender, receiver) at A, (sender, receiver) at B).
pub async fn open_port(p: &mut Pair) -> ((Sender, Receiver), (Sender, Receiver)) {
    let conn = p.a_client.connect();
    let acc = p.b_listener.accept();
    let (ra, rb) = tokio::join!(conn, acc);
    (ra.expect("connect"), rb.expect("accept").expect("listener open"))
}

/// A message on the transport: header frame (+ payload frame for Data).
pub struct WireMsg {
    pub msg: MultiplexMsg,
    pub payload: Option<Bytes>,
    pub frames: usize,
}

/// Groups raw transport frames into protocol messages (a Data header is followed by its payload).
pub fn group(frames: &[Bytes]) -> Vec<WireMsg> {
    let mut out = Vec::new();
    let mut i = 0;
    while i < frames.len() {
        match chmux::verif::decode(&frames[i]) {
            Ok(msg) => {
                if let MultiplexMsg::Data { .. } = msg {
                    if i + 1 < frames.len() {
                        out.push(WireMsg { msg, payload: Some(frames[i + 1].clone()), frames: 2 });
                        i += 2;
                    } else {
                        // payload not written yet
                        break;
                    }
                } else {
                    out.push(WireMsg { msg, payload: None, frames: 1 });
                    i += 1;
                }
            }
            Err(_) => {
                i += 1;
            }
        }
    }
    out
}

impl crate::transport::Link {
    /// Delivers every pending message for which `hold` is false; messages for which it is true
    /// stay pending (their relative order is kept).
    pub fn flush_unheld(&self, hold: &dyn Fn(&MultiplexMsg) -> bool) {
        let mut l = self.0.lock().unwrap();
        let frames: Vec<Bytes> = l.pending.drain(..).collect();
        let msgs = group(&frames);
        let grouped: usize = msgs.iter().map(|m| m.frames).sum();
        let mut idx = 0;
        let mut woke = false;
        for m in &msgs {
            let fs = &frames[idx..idx + m.frames];
            idx += m.frames;
            if hold(&m.msg) {
                for f in fs {
                    l.pending.push_back(f.clone());
                }
            } else {
                for f in fs {
                    l.delivered.push_back(f.clone());
                }
                woke = true;
            }
        }
        for f in &frames[grouped..] {
            l.pending.push_back(f.clone());
        }
        if woke {
            if let Some(w) = l.stream_waker.take() {
                w.wake();
            }
        }
    }

    /// Delivers the first `k` pending messages (all of them held ones after `flush_unheld`).
    pub fn deliver_msgs(&self, k: usize) -> usize {
        let n = {
            let l = self.0.lock().unwrap();
            let frames: Vec<Bytes> = l.pending.iter().cloned().collect();
            let msgs = group(&frames);
            msgs.iter().take(k).map(|m| m.frames).sum::<usize>()
        };
        self.deliver(n);
        n
    }

    pub fn pending_msgs(&self) -> usize {
        let l = self.0.lock().unwrap();
        let frames: Vec<Bytes> = l.pending.iter().cloned().collect();
        group(&frames).len()
    }
}
