//! C09: direct differential of the wire codec (hook H2), framing codec, handshake bytes.
use crate::{emit, rng::Rng, transport::Net, Case};
use bytes::{Bytes, BytesMut};
use remoc::chmux::{
    self,
    verif::{decode, encode, ExchangedCfg, MultiplexMsg},
    Cfg,
};
use std::{io::Write, panic::catch_unwind, time::Duration};
use tokio_util::codec::{Decoder, Encoder, LengthDelimitedCodec};

const COMP: u128 = 9;

fn b(x: bool) -> u128 {
    x as u128
}

pub fn msg_to_nums(m: &MultiplexMsg) -> Vec<u128> {
    use MultiplexMsg::*;
    match m {
        Reset => vec![1],
        Hello { version, cfg } => {
            let mut v = vec![2, *version as u128];
            match cfg.connection_timeout {
                None => v.extend([0, 0, 0]),
                Some(d) => v.extend([1, d.as_secs() as u128, d.subsec_nanos() as u128]),
            }
            v.extend([cfg.chunk_size as u128, cfg.port_receive_buffer as u128, cfg.connect_queue as u128]);
            v
        }
        Ping => vec![3],
        OpenPort { client_port, wait, id } => {
            let mut v = vec![4, *client_port as u128, b(*wait)];
            match id {
                Some(i) => v.extend([1, *i as u128]),
                None => v.extend([0, 0]),
            }
            v
        }
        PortOpened { client_port, server_port } => vec![5, *client_port as u128, *server_port as u128],
        Rejected { client_port, no_ports } => vec![6, *client_port as u128, b(*no_ports)],
        Data { port, first, last } => vec![7, *port as u128, b(*first), b(*last)],
        PortData { port, first, last, wait, ports, ids } => {
            let mut v = vec![8, *port as u128, b(*first), b(*last), b(*wait)];
            v.push(b(ids.is_some()));
            v.push(ports.len() as u128);
            v.extend(ports.iter().map(|p| *p as u128));
            if let Some(ids) = ids {
                v.push(ids.len() as u128);
                v.extend(ids.iter().map(|p| *p as u128));
            }
            v
        }
        PortCredits { port, credits } => vec![9, *port as u128, *credits as u128],
        SendFinish { port } => vec![10, *port as u128],
        ReceiveClose { port } => vec![11, *port as u128],
        ReceiveFinish { port } => vec![12, *port as u128],
        ClientFinish => vec![13],
        ListenerFinish => vec![14],
        Goodbye => vec![15],
    }
}

fn kind_name(m: &MultiplexMsg) -> &'static str {
    use MultiplexMsg::*;
    match m {
        Reset => "Reset",
        Hello { .. } => "Hello",
        Ping => "Ping",
        OpenPort { .. } => "OpenPort",
        PortOpened { .. } => "PortOpened",
        Rejected { .. } => "Rejected",
        Data { .. } => "Data",
        PortData { .. } => "PortData",
        PortCredits { .. } => "PortCredits",
        SendFinish { .. } => "SendFinish",
        ReceiveClose { .. } => "ReceiveClose",
        ReceiveFinish { .. } => "ReceiveFinish",
        ClientFinish => "ClientFinish",
        ListenerFinish => "ListenerFinish",
        Goodbye => "Goodbye",
    }
}

fn gen_duration(r: &mut Rng) -> Option<Duration> {
    match r.below(10) {
        0 => None,
        1 => Some(Duration::ZERO),
        2 => Some(Duration::from_nanos(r.range(1, 999_999))),
        3 => Some(Duration::from_millis(1)),
        4 => Some(Duration::new(u64::MAX, 999_999_999)),
        5 => Some(Duration::new(u64::MAX / 1000, r.below(1_000_000_000) as u32)),
        6 => Some(Duration::new(u64::MAX / 1000 + 1, 0)),
        7 => Some(Duration::from_secs(60)),
        8 => Some(Duration::new(r.below(100_000), r.below(1_000_000_000) as u32)),
        _ => Some(Duration::from_millis(r.next() >> r.below(64))),
    }
}

fn gen_xcfg(r: &mut Rng, valid: bool) -> ExchangedCfg {
    let small = |r: &mut Rng, min: u32| -> u32 {
        if valid {
            match r.below(4) {
                0 => min,
                1 => min + 1,
                2 => u32::MAX,
                _ => r.u32b().max(min),
            }
        } else {
            match r.below(4) {
                0 => r.below(min as u64) as u32,
                1 => min,
                _ => r.u32b(),
            }
        }
    };
    ExchangedCfg {
        connection_timeout: gen_duration(r),
        chunk_size: small(r, 4),
        port_receive_buffer: small(r, 4),
        connect_queue: small(r, 1).min(65535) as u16,
    }
}

fn gen_msg(r: &mut Rng) -> MultiplexMsg {
    use MultiplexMsg::*;
    let k = [0u64, 1, 1, 1, 1, 2, 3, 3, 3, 4, 5, 6, 6, 7, 7, 7, 7, 7, 9, 10, 11, 12, 13, 14, 15];
    match *r.pick(&k) {
        0 => Reset,
        1 => {
            let valid = r.chance(3, 4);
            Hello { version: *r.pick(&[0u8, 1, 2, 3, 4, 255]), cfg: gen_xcfg(r, valid) }
        }
        2 => Ping,
        3 => OpenPort { client_port: r.u32b(), wait: r.chance(1, 2), id: if r.chance(1, 2) { Some(r.u32b()) } else { None } },
        4 => PortOpened { client_port: r.u32b(), server_port: r.u32b() },
        5 => Rejected { client_port: r.u32b(), no_ports: r.chance(1, 2) },
        6 => Data { port: r.u32b(), first: r.chance(1, 2), last: r.chance(1, 2) },
        7 => {
            let n = *r.pick(&[0usize, 1, 2, 3, 5, 8]);
            let ports: Vec<u32> = (0..n).map(|_| r.u32b()).collect();
            let ids = match r.below(5) {
                0 | 1 => None,
                2 | 3 => Some((0..n).map(|_| r.u32b()).collect()),
                // mismatched length: the encoder asserts
                _ => Some((0..(n + 1 - (r.below(2) as usize) * 2.min(n + 1))).map(|_| r.u32b()).collect()),
            };
            PortData { port: r.u32b(), first: r.chance(1, 2), last: r.chance(1, 2), wait: r.chance(1, 2), ports, ids }
        }
        9 => PortCredits { port: r.u32b(), credits: r.u32b() },
        10 => SendFinish { port: r.u32b() },
        11 => ReceiveClose { port: r.u32b() },
        12 => ReceiveFinish { port: r.u32b() },
        13 => ClientFinish,
        14 => ListenerFinish,
        _ => Goodbye,
    }
}

fn enc_sig(m: &MultiplexMsg) -> String {
    use MultiplexMsg::*;
    match m {
        OpenPort { wait, id, .. } => format!("enc:OpenPort:w{}id{}", b(*wait), b(id.is_some())),
        Rejected { no_ports, .. } => format!("enc:Rejected:np{}", b(*no_ports)),
        Data { first, last, .. } => format!("enc:Data:f{}l{}", b(*first), b(*last)),
        PortData { first, last, wait, ports, ids, .. } => format!(
            "enc:PortData:f{}l{}w{}ids{}:n{}:{}",
            b(*first), b(*last), b(*wait), b(ids.is_some()), ports.len().min(3),
            match ids { Some(i) if i.len() != ports.len() => "mismatch", _ => "ok" }
        ),
        Hello { version, cfg } => format!(
            "enc:Hello:v{}:t{}:{}",
            version,
            match cfg.connection_timeout {
                None => "none",
                Some(d) if d.as_nanos() == 0 => "zero",
                Some(d) if d.as_nanos() < 1_000_000 => "subms",
                Some(d) if d.as_millis() > u64::MAX as u128 => "sat",
                Some(d) if d.subsec_nanos() % 1_000_000 != 0 => "frac",
                _ => "ms",
            },
            if cfg.chunk_size < 4 || cfg.port_receive_buffer < 4 || cfg.connect_queue < 1 { "below-min" } else { "valid" }
        ),
        m => format!("enc:{}", kind_name(m)),
    }
}

fn run_decode(bytes: &[u8]) -> (Vec<u128>, String) {
    let res = catch_unwind(|| decode(bytes));
    match res {
        Err(_) => (vec![100], "dec:PANIC".into()),
        Ok(Ok(m)) => {
            let mut v = vec![0];
            v.extend(msg_to_nums(&m));
            (v, format!("dec:ok:{}", kind_name(&m)))
        }
        Ok(Err(e)) => match e.kind() {
            std::io::ErrorKind::UnexpectedEof => (vec![1], format!("dec:eof:c{}", bytes.first().copied().unwrap_or(0))),
            std::io::ErrorKind::InvalidData => (vec![2], format!("dec:invalid:c{}", bytes.first().copied().unwrap_or(0).min(17))),
            _ => (vec![3], "dec:othererr".into()),
        },
    }
}

fn mutate(r: &mut Rng, mut bs: Vec<u8>) -> (Vec<u8>, &'static str) {
    match r.below(9) {
        0 => {
            let n = r.below(bs.len() as u64 + 1) as usize;
            bs.truncate(n);
            (bs, "trunc")
        }
        1 => {
            let k = r.range(1, 9) as usize;
            for _ in 0..k {
                bs.push(r.next() as u8);
            }
            (bs, "tail")
        }
        2 => {
            if bs.len() > 5 {
                bs[5] = r.next() as u8;
            }
            (bs, "flags")
        }
        3 => {
            if !bs.is_empty() {
                bs[0] = r.below(20) as u8;
            }
            (bs, "code")
        }
        4 => {
            if !bs.is_empty() {
                let i = r.below(bs.len() as u64) as usize;
                bs[i] ^= 1 << r.below(8);
            }
            (bs, "bitflip")
        }
        5 => {
            if bs.len() > 5 {
                bs[5] |= *r.pick(&[0x10u8, 0x20, 0x40, 0x80, 0xf0]);
            }
            (bs, "unknownflag")
        }
        6 => {
            // drop 1..3 bytes at the end (partial port / id)
            let k = r.range(1, 3) as usize;
            let n = bs.len().saturating_sub(k);
            bs.truncate(n);
            (bs, "partial")
        }
        _ => (bs, "asis"),
    }
}

pub fn nums_to_msg(v: &[u128]) -> Option<MultiplexMsg> {
    use MultiplexMsg::*;
    let bn = |x: u128| x != 0;
    Some(match v {
        [1] => Reset,
        [2, ver, ht, s, ns, cs, b, q] => Hello {
            version: *ver as u8,
            cfg: ExchangedCfg {
                connection_timeout: if bn(*ht) { Some(Duration::new(*s as u64, *ns as u32)) } else { None },
                chunk_size: *cs as u32,
                port_receive_buffer: *b as u32,
                connect_queue: *q as u16,
            },
        },
        [3] => Ping,
        [4, p, w, hi, i] => OpenPort { client_port: *p as u32, wait: bn(*w), id: if bn(*hi) { Some(*i as u32) } else { None } },
        [5, c, s] => PortOpened { client_port: *c as u32, server_port: *s as u32 },
        [6, c, np] => Rejected { client_port: *c as u32, no_ports: bn(*np) },
        [7, p, f, l] => Data { port: *p as u32, first: bn(*f), last: bn(*l) },
        [8, p, f, l, w, hi, n, rest @ ..] => {
            let n = *n as usize;
            let ports: Vec<u32> = rest.iter().take(n).map(|x| *x as u32).collect();
            let rest = &rest[n.min(rest.len())..];
            let ids = if bn(*hi) {
                let k = *rest.first()? as usize;
                Some(rest[1..].iter().take(k).map(|x| *x as u32).collect())
            } else {
                None
            };
            PortData { port: *p as u32, first: bn(*f), last: bn(*l), wait: bn(*w), ports, ids }
        }
        [9, p, c] => PortCredits { port: *p as u32, credits: *c as u32 },
        [10, p] => SendFinish { port: *p as u32 },
        [11, p] => ReceiveClose { port: *p as u32 },
        [12, p] => ReceiveFinish { port: *p as u32 },
        [13] => ClientFinish,
        [14] => ListenerFinish,
        [15] => Goodbye,
        _ => return None,
    })
}

/// well-formed in the sense of the model's `wf` (field ranges hold by type; id list length matches;
/// a Hello configuration that survives the exchange unchanged)
fn wf_exact(m: &MultiplexMsg) -> bool {
    match m {
        MultiplexMsg::PortData { ports, ids: Some(ids), .. } => ports.len() == ids.len(),
        MultiplexMsg::Hello { cfg, .. } => {
            cfg.chunk_size >= 4
                && cfg.port_receive_buffer >= 4
                && cfg.connect_queue >= 1
                && match cfg.connection_timeout {
                    None => true,
                    Some(d) => d.subsec_nanos() % 1_000_000 == 0 && d.as_nanos() > 0 && d.as_millis() <= u64::MAX as u128,
                }
        }
        _ => true,
    }
}

fn bytes_of(v: &[u128]) -> Vec<u8> {
    v.iter().map(|x| *x as u8).collect()
}
fn nums_of(v: &[u8]) -> Vec<u128> {
    v.iter().map(|x| *x as u128).collect()
}

/// Runs the implementation on one input (everything after the component number).
pub fn exec(input: &[u128]) -> (Vec<u128>, String) {
    match input {
        [0, bytes @ ..] => run_decode(&bytes_of(bytes)),
        [1, nums @ ..] => match nums_to_msg(nums) {
            None => (vec![98], "enc:unparsable".into()),
            Some(m) => {
                let sig = enc_sig(&m);
                match catch_unwind(std::panic::AssertUnwindSafe(|| encode(&m))) {
                    Ok(bs) => {
                        let mut o = vec![0];
                        o.extend(nums_of(&bs));
                        (o, sig)
                    }
                    Err(_) => (vec![1], sig),
                }
            }
        },
        [6, nums @ ..] => match nums_to_msg(nums) {
            None => (vec![98], "spec3:unparsable".into()),
            Some(m) => {
                let sig = enc_sig(&m).replacen("enc:", "spec3:", 1);
                match catch_unwind(std::panic::AssertUnwindSafe(|| encode(&m))) {
                    Ok(bs) => {
                        let mut o = vec![0];
                        o.extend(nums_of(&bs));
                        (o, sig)
                    }
                    Err(_) => (vec![1], sig),
                }
            }
        },
        [2, max, stream @ ..] => {
            let mut dec = LengthDelimitedCodec::builder()
                .little_endian()
                .length_field_length(4)
                .max_frame_length(*max as usize)
                .new_codec();
            let mut bm = BytesMut::from(&bytes_of(stream)[..]);
            let (o, s) = match dec.decode(&mut bm) {
                Ok(Some(f)) => {
                    let mut o = vec![0, f.len() as u128];
                    o.extend(nums_of(&f));
                    o.extend(nums_of(&bm));
                    (o, "ok")
                }
                Ok(None) => (vec![1], "needmore"),
                Err(_) => (vec![2], "toolong"),
            };
            (o, format!("deframe:{}:len{}", s, stream.len().min(9)))
        }
        [3, payload @ ..] => {
            let mut enc = LengthDelimitedCodec::builder()
                .little_endian()
                .length_field_length(4)
                .max_frame_length(u32::MAX as _)
                .new_codec();
            let mut buf = BytesMut::new();
            enc.encode(Bytes::from(bytes_of(payload)), &mut buf).unwrap();
            (nums_of(&buf), format!("frame:n{}", payload.len().min(6)))
        }
        [4, ht, s, ns, cs, b, q] => {
            let timeout = if *ht != 0 { Some(Duration::new(*s as u64, *ns as u32)) } else { None };
            let cfg = Cfg {
                connection_timeout: timeout,
                chunk_size: *cs as u32,
                receive_buffer: *b as u32,
                connect_queue: *q as u16,
                ..Default::default()
            };
            let frames = handshake_frames(cfg);
            let mut o = vec![];
            for f in frames.iter().take(2) {
                o.push(f.len() as u128);
                o.extend(nums_of(f));
            }
            (o, format!("handshake:t{}", b_(timeout.is_some())))
        }
        [5, cs] => {
            let cfg = Cfg { chunk_size: *cs as u32, ..Default::default() };
            let o = match catch_unwind(|| cfg.max_frame_length()) {
                Ok(v) => vec![0, v as u128],
                Err(_) => vec![1],
            };
            (o, format!("maxframe:{}", *cs as u32 > u32::MAX - 16))
        }
        _ => (vec![98], "unparsable".into()),
    }
}

fn b_(x: bool) -> u128 {
    x as u128
}

/// Generates one input (without the component number); may return a follow-up derived from the
/// implementation's own output (decode of what it encoded).
pub fn gen(r: &mut Rng, i: usize) -> Vec<Vec<u128>> {
    match i % 10 {
        0..=3 => {
            let m = gen_msg(r);
            let mut input = vec![1];
            input.extend(msg_to_nums(&m));
            let mut res = vec![input];
            if wf_exact(&m) {
                let mut input = vec![6];
                input.extend(msg_to_nums(&m));
                res.push(input);
            }
            if let Ok(bs) = catch_unwind(std::panic::AssertUnwindSafe(|| encode(&m))) {
                let mut input = vec![0];
                input.extend(nums_of(&bs));
                res.push(input);
            }
            res
        }
        4..=6 => {
            let bs = loop {
                let m = gen_msg(r);
                if let Ok(bs) = catch_unwind(std::panic::AssertUnwindSafe(|| encode(&m))) {
                    break bs;
                }
            };
            let (bs, _how) = mutate(r, bs);
            let mut input = vec![0];
            input.extend(nums_of(&bs));
            vec![input]
        }
        7 => {
            let n = r.below(40) as usize;
            let mut bs: Vec<u8> = (0..n).map(|_| r.next() as u8).collect();
            if !bs.is_empty() && r.chance(3, 4) {
                bs[0] = r.range(1, 15) as u8;
            }
            if bs.len() > 7 && bs[0] == 2 && r.chance(3, 4) {
                bs[1..7].copy_from_slice(b"CHMUX\0");
            }
            let mut input = vec![0];
            input.extend(nums_of(&bs));
            vec![input]
        }
        8 => {
            let n = *r.pick(&[0usize, 1, 3, 4, 5, 16, 17, 20, 40]);
            let payload: Vec<u8> = (0..n).map(|_| r.next() as u8).collect();
            let mut f_in = vec![3];
            f_in.extend(nums_of(&payload));
            let mut stream = (n as u32).to_le_bytes().to_vec();
            stream.extend(&payload);
            match r.below(4) {
                0 => {
                    let k = r.below(stream.len() as u64 + 1) as usize;
                    stream.truncate(k);
                }
                1 => {
                    let k = r.range(1, 7) as usize;
                    for _ in 0..k {
                        stream.push(r.next() as u8);
                    }
                }
                _ => {}
            }
            let max = *r.pick(&[0u64, 4, 16, 20, 24, 1 << 20]);
            let mut d_in = vec![2, max as u128];
            d_in.extend(nums_of(&stream));
            vec![f_in, d_in]
        }
        _ => {
            if r.chance(1, 3) {
                let cs = *r.pick(&[4u32, 5, 16384, u32::MAX - 16, u32::MAX - 15, u32::MAX]);
                vec![vec![5, cs as u128]]
            } else {
                let timeout = match r.below(4) {
                    0 => None,
                    1 => Some(Duration::from_millis(r.range(1, 100_000))),
                    2 => Some(Duration::new(r.range(1, 1000), r.below(1_000_000_000) as u32)),
                    _ => Some(Duration::from_secs(60)),
                };
                let mut input = vec![4];
                match timeout {
                    None => input.extend([0, 0, 0]),
                    Some(d) => input.extend([1, d.as_secs() as u128, d.subsec_nanos() as u128]),
                }
                input.extend([
                    *r.pick(&[4u32, 5, 100, 16384, 1 << 20]) as u128,
                    *r.pick(&[4u32, 7, 100, 524288, u32::MAX]) as u128,
                    *r.pick(&[1u16, 2, 128, 65535]) as u128,
                ]);
                vec![input]
            }
        }
    }
}

pub fn run(seed: u64, count: usize, extra: &[String], out: &mut impl Write) {
    crate::drive(COMP, seed ^ 0xC09, count, extra, out, gen, |inp| {
        let (o, s) = exec(inp);
        (o, s, "ok".to_string())
    });
}

/// Connects a real endpoint with `cfg` to a default endpoint and returns the frames it wrote first.
pub fn handshake_frames(cfg: Cfg) -> Vec<Bytes> {
    let rt = tokio::runtime::Builder::new_current_thread().enable_time().start_paused(true).build().unwrap();
    rt.block_on(async move {
        let net = Net::new(true);
        let a = chmux::ChMux::new(cfg, net.a2b.sink(), net.b2a.stream());
        let b = chmux::ChMux::new(Cfg::default(), net.b2a.sink(), net.a2b.stream());
        let (ra, rb) = tokio::join!(a, b);
        let _ = (ra.map(|_| ()), rb.map(|_| ()));
        net.a2b.log_from(0)
    })
}
