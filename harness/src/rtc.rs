//! C12 / C19: remote trait calls (`remoc::rtc`, `remoc_macro`) and remote functions (`remoc::rfn`).
//!
//! Every case builds a real two-endpoint connection (`Connect::framed` over the harness transport).
//! Endpoint B creates a target object and serves it with one of the generated server flavours (or
//! provides a remote function); the client(s) travel to endpoint A over the base channel and are
//! used there by 1-4 harness "clients".  The methods of the target are scripted through their
//! argument: they log `started`, read the state, wait at harness-owned gate 1 (if bit 1 of `hold`),
//! apply their effect and log `applied`, wait at gate 2 (if bit 2 of `hold`), log `finished` and
//! return; a method future dropped before `finished` logs `cancelled` (drop guard).
//!
//! Input (after the component number):
//!   mode flav spawn pol ncl cmode defer lim  (op a b c d)*
//!   mode  0 = scripted: link in auto mode, quiescence barrier after every op, the observable events of
//!             every big step are compared with the model's big step (`Run/RunRtc.v`);
//!         1 = "race:": link frozen, ops run back to back (a few yields in between), frames move by
//!             explicit deliver ops, H1 deferral seed `defer`; output is the single number 1 and the
//!             verdict is the oracle's (which asks the verified checker `Lin.linearizable` through mrun)
//!   flav  0 Value (trait ObjV with a by-value method, one client) | 1 Ref | 2 RefMut | 3 Shared |
//!         4 SharedMut | 5 Value (trait ObjM, clonable client) | 6 RFn | 7 RFnMut | 8 RFnOnce
//!   spawn 0/1 (`serve(spawn)` of the shared flavours)    pol 0 Ignore | 1 Send | 2 Fail
//!   ncl   number of clients (1-4); cmode 0: one client sent to A and cloned there, 1: every clone is
//!         sent separately from B (own port each), 2: LOCAL -- the client never travels: it is used (and
//!         cloned) in the process of the server, request and reply channels are local channels (nothing is
//!         serialized: the flags 4/8/16/32 and the methods 6/7 mean nothing, the connection plays no part)
//!   lim   max_reply_size set on every client (0 = default)
//!   ops   0 call   a=client b=method c=x d=flags   (the k-th call op has call id k, counted from 0)
//!                  methods: 0 get(&self) 1 get_nc(&self, no_cancel) 2 add(&mut) 3 add_nc 4 take(self) 5 take_nc
//!                           6 later_ref(&self) 7 later_mut(&mut self): methods the server does not know (ObjM flavours)
//!                           b + 8 * layout (b <= 5, layout 1-3): the same method declared with its attributes in
//!                           another textual layout (`#[no_cancel]` before / between / after doc comments and
//!                           `#[allow]`); behaves exactly like method b
//!                  flags: 1 hold at gate 1 | 2 hold at gate 2 | 4 request undecodable at the server |
//!                         8 reply undecodable at the client | 16 reply exceeds `lim` | 32 request exceeds
//!                         the client's max_request_size | 64 drop the call future right after its first poll |
//!                         128 drop it before its first poll | 256 PARK it after its first poll: the caller keeps
//!                         the future but does not poll it (it awaits other calls meanwhile) until a resume op;
//!                         the outcome of the call is what the caller sees when it resumes (clonable clients only)
//!       1 open   a=call id b=gate (1|2)
//!       2 drop   a=call id                    (drop the call future)
//!       3 cut                                  (connection fails in both directions)
//!       4 dropclient a=client
//!       5 deliver a=direction (0 A->B, 1 B->A) b=number of frames          (race mode)
//!       6 barrier                                                           (race mode)
//!       7 stop                                 (the callee goes away: the future of `serve()` is dropped /
//!                                               the provider of the remote function is dropped; once per case)
//!       8 resume a=call id                     (the caller awaits a parked call future again)
//!       9 limit  a=L (1-64)                    (RFn only: `RFnProvider::set_max_concurrency(L)`; applies to the
//!                                               invocations that arrive afterwards, the running ones keep going)
//! Output (scripted): per op `acc n (id ev val)*`: acc 0 = issued, 1 = not issued (client busy / gone /
//!   unknown id); the n events that became observable in this big step, grouped by call id
//!   (ascending), in order of occurrence within a call:
//!   ev 1 started | 2 applied (val = result) | 3 finished | 4 cancelled | 5 returned value (val) |
//!      6 returned CallError | 8 receive errors forwarded by policy Send (val = count, id 1000001) |
//!      9 serve() ended (id 1000000, val = 0 Ok | 1 ReqReceive | 2 ReplySend)
use crate::{
    rng::Rng,
    transport::{Fault, Net},
};
use remoc::{
    codec,
    rch::base,
    rfn,
    rtc::{self, CallError, Client as _, OnReqReceiveError, ServeError},
    Cfg, Connect,
};
use serde::{Deserialize, Serialize};
use std::{
    collections::HashMap,
    future::Future,
    sync::{Arc, Mutex},
    task::{Poll, Waker},
    time::Duration,
};

pub const COMP: u128 = 12;
pub const COMP_CANCEL: u128 = 19;
pub const P: u64 = 1_000_003;
/// Size of the request queue given to the rtc servers: more than a case can have ops (`parse` accepts at most
/// 400), so that a call never waits for a slot there.  The remote functions have the queue size 1 fixed by
/// `rfn`; the model's schedule respects that bound (`Run/RunRtc.v`, "the bounded request channel").
const REQ_QUEUE: usize = 512;
const SRV_ID: u32 = 1_000_000;
const ERR_ID: u32 = 1_000_001;

// ------------------------------------------------------------------------------------------------
// wire types

/// A value whose deserialization fails for one particular content.
#[derive(Clone, Debug, Serialize)]
pub struct Picky(pub u32);
impl<'de> Deserialize<'de> for Picky {
    fn deserialize<D: serde::Deserializer<'de>>(d: D) -> Result<Self, D::Error> {
        let v = u32::deserialize(d)?;
        if v == 0xBAD {
            Err(serde::de::Error::custom("picky"))
        } else {
            Ok(Picky(v))
        }
    }
}

#[derive(Clone, Debug, Serialize, Deserialize)]
pub struct A {
    pub id: u32,
    pub x: u64,
    pub hold: u8,
    pub rpad: u32,
    pub rbad: bool,
    pub q: Picky,
    pub qpad: Vec<u8>,
}

#[derive(Clone, Debug, Serialize, Deserialize)]
pub struct R {
    pub val: u64,
    pub pad: Vec<u8>,
    pub p: Picky,
}

pub fn f_get(s: u64, x: u64) -> u64 {
    (s + x) % P
}
pub fn f_add(s: u64, x: u64) -> (u64, u64) {
    let s2 = (s * 3 + x + 1) % P;
    (s2, s2)
}
pub fn f_take(s: u64, x: u64) -> u64 {
    (s * 5 + x) % P
}

// ------------------------------------------------------------------------------------------------
// control block shared by harness and target: gates and the chronological event log

#[derive(Clone, Copy, Debug, PartialEq, Eq)]
pub enum Ev {
    Inv { id: u32, cl: u32, meth: u8, lay: u8, x: u64, flags: u16 },
    Cut,
    Stop,
    /// the concurrency limit of the remote function was set
    Limit(u64),
    /// the caller awaits parked call future `id` again
    Resume(u32),
    /// wind-down, second phase: the parked call futures are resumed
    ResumeAll,
    WindDown,
    DropCall(u32),
    Started(u32),
    Applied(u32, u64),
    Finished(u32),
    Cancelled(u32),
    RetVal(u32, u64),
    RetErr(u32, u8),
    UserErrs(u64),
    SrvDone(u8),
    Torn(u32),
}

#[derive(Default)]
struct Gate {
    open: bool,
    waker: Option<Waker>,
}

#[derive(Default)]
pub struct Ctl {
    log: Mutex<Vec<Ev>>,
    gates: Mutex<HashMap<(u32, u8), Gate>>,
    all_open: Mutex<bool>,
}

impl Ctl {
    fn push(&self, e: Ev) {
        self.log.lock().unwrap().push(e);
    }
    fn wait(self: &Arc<Self>, id: u32, which: u8) -> impl Future<Output = ()> + Send + 'static {
        let ctl = self.clone();
        std::future::poll_fn(move |cx| {
            if *ctl.all_open.lock().unwrap() {
                return Poll::Ready(());
            }
            let mut g = ctl.gates.lock().unwrap();
            let e = g.entry((id, which)).or_default();
            if e.open {
                Poll::Ready(())
            } else {
                e.waker = Some(cx.waker().clone());
                Poll::Pending
            }
        })
    }
    fn open(&self, id: u32, which: u8) {
        let mut g = self.gates.lock().unwrap();
        let e = g.entry((id, which)).or_default();
        e.open = true;
        if let Some(w) = e.waker.take() {
            w.wake();
        }
    }
    fn open_all(&self) {
        *self.all_open.lock().unwrap() = true;
        for (_, e) in self.gates.lock().unwrap().iter_mut() {
            if let Some(w) = e.waker.take() {
                w.wake();
            }
        }
    }
}

/// Logs `cancelled` when a method future is dropped before it finished.
struct Guard {
    ctl: Arc<Ctl>,
    id: u32,
    done: bool,
}
impl Guard {
    fn start(ctl: &Arc<Ctl>, id: u32) -> Self {
        ctl.push(Ev::Started(id));
        Guard { ctl: ctl.clone(), id, done: false }
    }
    fn finish(mut self) {
        self.ctl.push(Ev::Finished(self.id));
        self.done = true;
    }
}
impl Drop for Guard {
    fn drop(&mut self) {
        if !self.done {
            self.ctl.push(Ev::Cancelled(self.id));
        }
    }
}

fn reply(a: &A, val: u64) -> R {
    R { val, pad: vec![7; a.rpad as usize], p: Picky(if a.rbad { 0xBAD } else { 1 }) }
}

// ------------------------------------------------------------------------------------------------
// the target object and the remote traits

pub struct Tgt {
    pub v: u64,
    pub ctl: Arc<Ctl>,
}

impl Tgt {
    async fn do_ref(&self, a: A) -> Result<R, CallError> {
        let g = Guard::start(&self.ctl, a.id);
        let s0 = self.v;
        if a.hold & 1 != 0 {
            self.ctl.wait(a.id, 1).await;
        }
        if self.v != s0 {
            self.ctl.push(Ev::Torn(a.id));
        }
        let r = f_get(self.v, a.x);
        self.ctl.push(Ev::Applied(a.id, r));
        if a.hold & 2 != 0 {
            self.ctl.wait(a.id, 2).await;
        }
        g.finish();
        Ok(reply(&a, r))
    }
    async fn do_mut(&mut self, a: A) -> Result<R, CallError> {
        let g = Guard::start(&self.ctl, a.id);
        let s0 = self.v;
        if a.hold & 1 != 0 {
            self.ctl.wait(a.id, 1).await;
        }
        if self.v != s0 {
            self.ctl.push(Ev::Torn(a.id));
        }
        let (s2, r) = f_add(s0, a.x);
        self.v = s2;
        self.ctl.push(Ev::Applied(a.id, r));
        if a.hold & 2 != 0 {
            self.ctl.wait(a.id, 2).await;
        }
        g.finish();
        Ok(reply(&a, r))
    }
    async fn do_val(self, a: A) -> Result<R, CallError> {
        let g = Guard::start(&self.ctl, a.id);
        let s0 = self.v;
        if a.hold & 1 != 0 {
            self.ctl.wait(a.id, 1).await;
        }
        let r = f_take(s0, a.x);
        self.ctl.push(Ev::Applied(a.id, r));
        if a.hold & 2 != 0 {
            self.ctl.wait(a.id, 2).await;
        }
        g.finish();
        Ok(reply(&a, r))
    }
}

// Every scripted method exists in four textual layouts of its attributes (method number = base + 8 * layout):
//   layout 0: no attribute besides `#[no_cancel]`;  1: `#[no_cancel]` first, doc comments after it;
//   2: `#[no_cancel]` between a doc comment and an `#[allow]`;  3: `#[no_cancel]` last, after doc comments and `#[allow]`.
// The cancellable methods carry the same other attributes.  What is generated for a method (cancellable or
// not) must not depend on where its attributes stand.
#[rtc::remote(clone)]
pub trait ObjM {
    async fn get(&self, a: A) -> Result<R, CallError>;
    #[no_cancel]
    async fn get_nc(&self, a: A) -> Result<R, CallError>;
    async fn add(&mut self, a: A) -> Result<R, CallError>;
    #[no_cancel]
    async fn add_nc(&mut self, a: A) -> Result<R, CallError>;
    /// Scripted method of the harness target (attribute layout 1).
    ///
    /// The position of the attributes of a method must not change what is generated for it.
    async fn get_1(&self, a: A) -> Result<R, CallError>;
    #[no_cancel]
    /// Scripted method of the harness target (attribute layout 1).
    ///
    /// The position of the attributes of a method must not change what is generated for it.
    async fn get_nc_1(&self, a: A) -> Result<R, CallError>;
    /// Scripted method of the harness target (attribute layout 1).
    ///
    /// The position of the attributes of a method must not change what is generated for it.
    async fn add_1(&mut self, a: A) -> Result<R, CallError>;
    #[no_cancel]
    /// Scripted method of the harness target (attribute layout 1).
    ///
    /// The position of the attributes of a method must not change what is generated for it.
    async fn add_nc_1(&mut self, a: A) -> Result<R, CallError>;
    /// Scripted method of the harness target (attribute layout 2).
    #[allow(clippy::needless_lifetimes)]
    async fn get_2(&self, a: A) -> Result<R, CallError>;
    /// Scripted method of the harness target (attribute layout 2).
    #[no_cancel]
    #[allow(clippy::needless_lifetimes)]
    async fn get_nc_2(&self, a: A) -> Result<R, CallError>;
    /// Scripted method of the harness target (attribute layout 2).
    #[allow(clippy::needless_lifetimes)]
    async fn add_2(&mut self, a: A) -> Result<R, CallError>;
    /// Scripted method of the harness target (attribute layout 2).
    #[no_cancel]
    #[allow(clippy::needless_lifetimes)]
    async fn add_nc_2(&mut self, a: A) -> Result<R, CallError>;
    /// Scripted method of the harness target (attribute layout 3).
    ///
    /// The position of the attributes of a method must not change what is generated for it.
    #[allow(clippy::needless_lifetimes)]
    async fn get_3(&self, a: A) -> Result<R, CallError>;
    /// Scripted method of the harness target (attribute layout 3).
    ///
    /// The position of the attributes of a method must not change what is generated for it.
    #[allow(clippy::needless_lifetimes)]
    #[no_cancel]
    async fn get_nc_3(&self, a: A) -> Result<R, CallError>;
    /// Scripted method of the harness target (attribute layout 3).
    ///
    /// The position of the attributes of a method must not change what is generated for it.
    #[allow(clippy::needless_lifetimes)]
    async fn add_3(&mut self, a: A) -> Result<R, CallError>;
    /// Scripted method of the harness target (attribute layout 3).
    ///
    /// The position of the attributes of a method must not change what is generated for it.
    #[allow(clippy::needless_lifetimes)]
    #[no_cancel]
    async fn add_nc_3(&mut self, a: A) -> Result<R, CallError>;
}

impl ObjM for Tgt {
    async fn get(&self, a: A) -> Result<R, CallError> {
        self.do_ref(a).await
    }
    async fn get_nc(&self, a: A) -> Result<R, CallError> {
        self.do_ref(a).await
    }
    async fn add(&mut self, a: A) -> Result<R, CallError> {
        self.do_mut(a).await
    }
    async fn add_nc(&mut self, a: A) -> Result<R, CallError> {
        self.do_mut(a).await
    }
    async fn get_1(&self, a: A) -> Result<R, CallError> {
        self.do_ref(a).await
    }
    async fn get_nc_1(&self, a: A) -> Result<R, CallError> {
        self.do_ref(a).await
    }
    async fn add_1(&mut self, a: A) -> Result<R, CallError> {
        self.do_mut(a).await
    }
    async fn add_nc_1(&mut self, a: A) -> Result<R, CallError> {
        self.do_mut(a).await
    }
    async fn get_2(&self, a: A) -> Result<R, CallError> {
        self.do_ref(a).await
    }
    async fn get_nc_2(&self, a: A) -> Result<R, CallError> {
        self.do_ref(a).await
    }
    async fn add_2(&mut self, a: A) -> Result<R, CallError> {
        self.do_mut(a).await
    }
    async fn add_nc_2(&mut self, a: A) -> Result<R, CallError> {
        self.do_mut(a).await
    }
    async fn get_3(&self, a: A) -> Result<R, CallError> {
        self.do_ref(a).await
    }
    async fn get_nc_3(&self, a: A) -> Result<R, CallError> {
        self.do_ref(a).await
    }
    async fn add_3(&mut self, a: A) -> Result<R, CallError> {
        self.do_mut(a).await
    }
    async fn add_nc_3(&mut self, a: A) -> Result<R, CallError> {
        self.do_mut(a).await
    }
}

/// The client-side view of [ObjM] in a later version of the interface: two more methods, which the
/// server (serving [ObjM]) does not know.  Same wire format for everything the two have in common.
#[rtc::remote(clone)]
pub trait ObjX {
    async fn get(&self, a: A) -> Result<R, CallError>;
    #[no_cancel]
    async fn get_nc(&self, a: A) -> Result<R, CallError>;
    async fn add(&mut self, a: A) -> Result<R, CallError>;
    #[no_cancel]
    async fn add_nc(&mut self, a: A) -> Result<R, CallError>;
    /// Scripted method of the harness target (attribute layout 1).
    ///
    /// The position of the attributes of a method must not change what is generated for it.
    async fn get_1(&self, a: A) -> Result<R, CallError>;
    #[no_cancel]
    /// Scripted method of the harness target (attribute layout 1).
    ///
    /// The position of the attributes of a method must not change what is generated for it.
    async fn get_nc_1(&self, a: A) -> Result<R, CallError>;
    /// Scripted method of the harness target (attribute layout 1).
    ///
    /// The position of the attributes of a method must not change what is generated for it.
    async fn add_1(&mut self, a: A) -> Result<R, CallError>;
    #[no_cancel]
    /// Scripted method of the harness target (attribute layout 1).
    ///
    /// The position of the attributes of a method must not change what is generated for it.
    async fn add_nc_1(&mut self, a: A) -> Result<R, CallError>;
    /// Scripted method of the harness target (attribute layout 2).
    #[allow(clippy::needless_lifetimes)]
    async fn get_2(&self, a: A) -> Result<R, CallError>;
    /// Scripted method of the harness target (attribute layout 2).
    #[no_cancel]
    #[allow(clippy::needless_lifetimes)]
    async fn get_nc_2(&self, a: A) -> Result<R, CallError>;
    /// Scripted method of the harness target (attribute layout 2).
    #[allow(clippy::needless_lifetimes)]
    async fn add_2(&mut self, a: A) -> Result<R, CallError>;
    /// Scripted method of the harness target (attribute layout 2).
    #[no_cancel]
    #[allow(clippy::needless_lifetimes)]
    async fn add_nc_2(&mut self, a: A) -> Result<R, CallError>;
    /// Scripted method of the harness target (attribute layout 3).
    ///
    /// The position of the attributes of a method must not change what is generated for it.
    #[allow(clippy::needless_lifetimes)]
    async fn get_3(&self, a: A) -> Result<R, CallError>;
    /// Scripted method of the harness target (attribute layout 3).
    ///
    /// The position of the attributes of a method must not change what is generated for it.
    #[allow(clippy::needless_lifetimes)]
    #[no_cancel]
    async fn get_nc_3(&self, a: A) -> Result<R, CallError>;
    /// Scripted method of the harness target (attribute layout 3).
    ///
    /// The position of the attributes of a method must not change what is generated for it.
    #[allow(clippy::needless_lifetimes)]
    async fn add_3(&mut self, a: A) -> Result<R, CallError>;
    /// Scripted method of the harness target (attribute layout 3).
    ///
    /// The position of the attributes of a method must not change what is generated for it.
    #[allow(clippy::needless_lifetimes)]
    #[no_cancel]
    async fn add_nc_3(&mut self, a: A) -> Result<R, CallError>;
    async fn later_ref(&self, a: A) -> Result<R, CallError>;
    async fn later_mut(&mut self, a: A) -> Result<R, CallError>;
}

#[rtc::remote]
pub trait ObjR {
    async fn get(&self, a: A) -> Result<R, CallError>;
    #[no_cancel]
    async fn get_nc(&self, a: A) -> Result<R, CallError>;
    /// Scripted method of the harness target (attribute layout 1).
    ///
    /// The position of the attributes of a method must not change what is generated for it.
    async fn get_1(&self, a: A) -> Result<R, CallError>;
    #[no_cancel]
    /// Scripted method of the harness target (attribute layout 1).
    ///
    /// The position of the attributes of a method must not change what is generated for it.
    async fn get_nc_1(&self, a: A) -> Result<R, CallError>;
    /// Scripted method of the harness target (attribute layout 2).
    #[allow(clippy::needless_lifetimes)]
    async fn get_2(&self, a: A) -> Result<R, CallError>;
    /// Scripted method of the harness target (attribute layout 2).
    #[no_cancel]
    #[allow(clippy::needless_lifetimes)]
    async fn get_nc_2(&self, a: A) -> Result<R, CallError>;
    /// Scripted method of the harness target (attribute layout 3).
    ///
    /// The position of the attributes of a method must not change what is generated for it.
    #[allow(clippy::needless_lifetimes)]
    async fn get_3(&self, a: A) -> Result<R, CallError>;
    /// Scripted method of the harness target (attribute layout 3).
    ///
    /// The position of the attributes of a method must not change what is generated for it.
    #[allow(clippy::needless_lifetimes)]
    #[no_cancel]
    async fn get_nc_3(&self, a: A) -> Result<R, CallError>;
}

impl ObjR for Tgt {
    async fn get(&self, a: A) -> Result<R, CallError> {
        self.do_ref(a).await
    }
    async fn get_nc(&self, a: A) -> Result<R, CallError> {
        self.do_ref(a).await
    }
    async fn get_1(&self, a: A) -> Result<R, CallError> {
        self.do_ref(a).await
    }
    async fn get_nc_1(&self, a: A) -> Result<R, CallError> {
        self.do_ref(a).await
    }
    async fn get_2(&self, a: A) -> Result<R, CallError> {
        self.do_ref(a).await
    }
    async fn get_nc_2(&self, a: A) -> Result<R, CallError> {
        self.do_ref(a).await
    }
    async fn get_3(&self, a: A) -> Result<R, CallError> {
        self.do_ref(a).await
    }
    async fn get_nc_3(&self, a: A) -> Result<R, CallError> {
        self.do_ref(a).await
    }
}

#[rtc::remote]
pub trait ObjV {
    async fn get(&self, a: A) -> Result<R, CallError>;
    #[no_cancel]
    async fn get_nc(&self, a: A) -> Result<R, CallError>;
    async fn add(&mut self, a: A) -> Result<R, CallError>;
    #[no_cancel]
    async fn add_nc(&mut self, a: A) -> Result<R, CallError>;
    async fn take(self, a: A) -> Result<R, CallError>;
    #[no_cancel]
    async fn take_nc(self, a: A) -> Result<R, CallError>;
    /// Scripted method of the harness target (attribute layout 1).
    ///
    /// The position of the attributes of a method must not change what is generated for it.
    async fn get_1(&self, a: A) -> Result<R, CallError>;
    #[no_cancel]
    /// Scripted method of the harness target (attribute layout 1).
    ///
    /// The position of the attributes of a method must not change what is generated for it.
    async fn get_nc_1(&self, a: A) -> Result<R, CallError>;
    /// Scripted method of the harness target (attribute layout 1).
    ///
    /// The position of the attributes of a method must not change what is generated for it.
    async fn add_1(&mut self, a: A) -> Result<R, CallError>;
    #[no_cancel]
    /// Scripted method of the harness target (attribute layout 1).
    ///
    /// The position of the attributes of a method must not change what is generated for it.
    async fn add_nc_1(&mut self, a: A) -> Result<R, CallError>;
    /// Scripted method of the harness target (attribute layout 1).
    ///
    /// The position of the attributes of a method must not change what is generated for it.
    async fn take_1(self, a: A) -> Result<R, CallError>;
    #[no_cancel]
    /// Scripted method of the harness target (attribute layout 1).
    ///
    /// The position of the attributes of a method must not change what is generated for it.
    async fn take_nc_1(self, a: A) -> Result<R, CallError>;
    /// Scripted method of the harness target (attribute layout 2).
    #[allow(clippy::needless_lifetimes)]
    async fn get_2(&self, a: A) -> Result<R, CallError>;
    /// Scripted method of the harness target (attribute layout 2).
    #[no_cancel]
    #[allow(clippy::needless_lifetimes)]
    async fn get_nc_2(&self, a: A) -> Result<R, CallError>;
    /// Scripted method of the harness target (attribute layout 2).
    #[allow(clippy::needless_lifetimes)]
    async fn add_2(&mut self, a: A) -> Result<R, CallError>;
    /// Scripted method of the harness target (attribute layout 2).
    #[no_cancel]
    #[allow(clippy::needless_lifetimes)]
    async fn add_nc_2(&mut self, a: A) -> Result<R, CallError>;
    /// Scripted method of the harness target (attribute layout 2).
    #[allow(clippy::needless_lifetimes)]
    async fn take_2(self, a: A) -> Result<R, CallError>;
    /// Scripted method of the harness target (attribute layout 2).
    #[no_cancel]
    #[allow(clippy::needless_lifetimes)]
    async fn take_nc_2(self, a: A) -> Result<R, CallError>;
    /// Scripted method of the harness target (attribute layout 3).
    ///
    /// The position of the attributes of a method must not change what is generated for it.
    #[allow(clippy::needless_lifetimes)]
    async fn get_3(&self, a: A) -> Result<R, CallError>;
    /// Scripted method of the harness target (attribute layout 3).
    ///
    /// The position of the attributes of a method must not change what is generated for it.
    #[allow(clippy::needless_lifetimes)]
    #[no_cancel]
    async fn get_nc_3(&self, a: A) -> Result<R, CallError>;
    /// Scripted method of the harness target (attribute layout 3).
    ///
    /// The position of the attributes of a method must not change what is generated for it.
    #[allow(clippy::needless_lifetimes)]
    async fn add_3(&mut self, a: A) -> Result<R, CallError>;
    /// Scripted method of the harness target (attribute layout 3).
    ///
    /// The position of the attributes of a method must not change what is generated for it.
    #[allow(clippy::needless_lifetimes)]
    #[no_cancel]
    async fn add_nc_3(&mut self, a: A) -> Result<R, CallError>;
    /// Scripted method of the harness target (attribute layout 3).
    ///
    /// The position of the attributes of a method must not change what is generated for it.
    #[allow(clippy::needless_lifetimes)]
    async fn take_3(self, a: A) -> Result<R, CallError>;
    /// Scripted method of the harness target (attribute layout 3).
    ///
    /// The position of the attributes of a method must not change what is generated for it.
    #[allow(clippy::needless_lifetimes)]
    #[no_cancel]
    async fn take_nc_3(self, a: A) -> Result<R, CallError>;
}

impl ObjV for Tgt {
    async fn get(&self, a: A) -> Result<R, CallError> {
        self.do_ref(a).await
    }
    async fn get_nc(&self, a: A) -> Result<R, CallError> {
        self.do_ref(a).await
    }
    async fn add(&mut self, a: A) -> Result<R, CallError> {
        self.do_mut(a).await
    }
    async fn add_nc(&mut self, a: A) -> Result<R, CallError> {
        self.do_mut(a).await
    }
    async fn take(self, a: A) -> Result<R, CallError> {
        self.do_val(a).await
    }
    async fn take_nc(self, a: A) -> Result<R, CallError> {
        self.do_val(a).await
    }
    async fn get_1(&self, a: A) -> Result<R, CallError> {
        self.do_ref(a).await
    }
    async fn get_nc_1(&self, a: A) -> Result<R, CallError> {
        self.do_ref(a).await
    }
    async fn add_1(&mut self, a: A) -> Result<R, CallError> {
        self.do_mut(a).await
    }
    async fn add_nc_1(&mut self, a: A) -> Result<R, CallError> {
        self.do_mut(a).await
    }
    async fn take_1(self, a: A) -> Result<R, CallError> {
        self.do_val(a).await
    }
    async fn take_nc_1(self, a: A) -> Result<R, CallError> {
        self.do_val(a).await
    }
    async fn get_2(&self, a: A) -> Result<R, CallError> {
        self.do_ref(a).await
    }
    async fn get_nc_2(&self, a: A) -> Result<R, CallError> {
        self.do_ref(a).await
    }
    async fn add_2(&mut self, a: A) -> Result<R, CallError> {
        self.do_mut(a).await
    }
    async fn add_nc_2(&mut self, a: A) -> Result<R, CallError> {
        self.do_mut(a).await
    }
    async fn take_2(self, a: A) -> Result<R, CallError> {
        self.do_val(a).await
    }
    async fn take_nc_2(self, a: A) -> Result<R, CallError> {
        self.do_val(a).await
    }
    async fn get_3(&self, a: A) -> Result<R, CallError> {
        self.do_ref(a).await
    }
    async fn get_nc_3(&self, a: A) -> Result<R, CallError> {
        self.do_ref(a).await
    }
    async fn add_3(&mut self, a: A) -> Result<R, CallError> {
        self.do_mut(a).await
    }
    async fn add_nc_3(&mut self, a: A) -> Result<R, CallError> {
        self.do_mut(a).await
    }
    async fn take_3(self, a: A) -> Result<R, CallError> {
        self.do_val(a).await
    }
    async fn take_nc_3(self, a: A) -> Result<R, CallError> {
        self.do_val(a).await
    }
}

type FnRes = Result<R, rfn::CallError>;

#[derive(Serialize, Deserialize)]
pub enum Item {
    M(ObjMClient),
    R(ObjRClient),
    V(ObjVClient),
    F(rfn::RFn<(A,), FnRes>),
    FM(rfn::RFnMut<(A,), FnRes>),
    FO(rfn::RFnOnce<(A,), FnRes>),
}

/// What endpoint A receives: the same items, the [ObjM] client seen as an [ObjX] client.
#[derive(Serialize, Deserialize)]
pub enum ItemA {
    M(ObjXClient),
    R(ObjRClient),
    V(ObjVClient),
    F(rfn::RFn<(A,), FnRes>),
    FM(rfn::RFnMut<(A,), FnRes>),
    FO(rfn::RFnOnce<(A,), FnRes>),
}

type VSlot = Arc<tokio::sync::RwLock<Option<ObjVClient>>>;
type FMSlot = Arc<tokio::sync::RwLock<Option<rfn::RFnMut<(A,), FnRes>>>>;
type FOSlot = Arc<tokio::sync::RwLock<Option<rfn::RFnOnce<(A,), FnRes>>>>;

enum Cl {
    M(ObjXClient),
    /// local mode: the client of the server's own version of the interface
    ML(ObjMClient),
    R(ObjRClient),
    V(VSlot),
    F(rfn::RFn<(A,), FnRes>),
    FM(FMSlot),
    FO(FOSlot),
}

// ------------------------------------------------------------------------------------------------
// cases

#[derive(Clone, Debug)]
pub struct Case {
    pub mode: u128,
    pub flav: u128,
    pub spawn: bool,
    pub pol: u128,
    pub ncl: usize,
    pub cmode: u128,
    pub defer: u64,
    pub lim: usize,
    pub ops: Vec<[u128; 5]>,
}

impl Case {
    pub fn local(&self) -> bool {
        self.cmode == 2
    }
}

pub fn parse(inp: &[u128]) -> Option<Case> {
    if inp.len() < 8 || (inp.len() - 8) % 5 != 0 {
        return None;
    }
    let c = Case {
        mode: inp[0],
        flav: inp[1],
        spawn: inp[2] != 0,
        pol: inp[3],
        ncl: inp[4] as usize,
        cmode: inp[5],
        defer: inp[6] as u64,
        lim: inp[7] as usize,
        ops: inp[8..].chunks(5).map(|c| [c[0], c[1], c[2], c[3], c[4]]).collect(),
    };
    if c.mode > 1 || c.flav > 8 || c.pol > 2 || c.ncl == 0 || c.ncl > 4 || c.cmode > 2 || c.ops.len() > 400
        || (matches!(c.flav, 0 | 7 | 8) && c.ncl != 1)
    {
        return None;
    }
    for o in &c.ops {
        if o[0] > 9 || o[1] > 1_000_000 || o[2] > 1_000_000 || o[3] > (P as u128) || o[4] > 511 {
            return None;
        }
    }
    Some(c)
}

/// the method a remote function flavour runs, whatever the op says
fn eff_meth(flav: u128, meth: u128) -> u128 {
    match flav {
        6 => 1,
        7 => 3,
        8 => 5,
        _ => meth,
    }
}

fn method_ok(flav: u128, local: bool, meth: u128) -> bool {
    let (base, lay) = (meth % 8, meth / 8);
    if flav >= 6 {
        return true;
    }
    if lay > 3 || (lay > 0 && base > 5) || (local && base > 5) {
        return false;
    }
    match flav {
        0 => base <= 5,
        1 | 3 => base <= 1,
        _ => base <= 3 || base == 6 || base == 7,
    }
}

/// local mode: nothing is serialized, the flags about undecodable / oversized requests and replies mean
/// nothing (as `mask_flags` of the model)
fn mask_flags(c: &Case, flags: u128) -> u128 {
    let mut f = flags;
    if c.local() {
        f &= !(4 | 8 | 16 | 32);
    }
    // a call future can only be parked while other calls are made if the client can be cloned; dropping
    // the future (128, 64) comes first
    if matches!(c.flav, 0 | 7 | 8) || f & (64 | 128) != 0 {
        f &= !256;
    }
    f
}

/// Quiescence barrier: with the clock paused the sleep returns only when every other task is idle
/// (no `spawn_blocking` work is involved here: all items are far below the streaming threshold).
async fn barrier() {
    tokio::time::sleep(Duration::from_nanos(1)).await;
}

fn err_class(e: &CallError) -> u8 {
    match e {
        CallError::Dropped => 1,
        CallError::RemoteSend(_) => 2,
        CallError::RemoteReceive(_) => 3,
        CallError::RemoteConnect(_) => 4,
        CallError::RemoteListen(_) => 5,
        CallError::RemoteForward => 6,
    }
}

fn fn_err_class(e: &rfn::CallError) -> u8 {
    match e {
        rfn::CallError::Dropped => 1,
        rfn::CallError::RemoteReceive(_) => 3,
        rfn::CallError::RemoteConnect(_) => 4,
        rfn::CallError::RemoteListen(_) => 5,
    }
}

fn serve_code(r: &Result<(), ServeError>) -> u8 {
    match r {
        Ok(()) => 0,
        Err(ServeError::ReqReceive(_)) => 1,
        Err(ServeError::ReplySend(_)) => 2,
    }
}

pub struct Trace {
    /// chronological log of everything observed
    pub log: Vec<Ev>,
    /// scripted mode: per op acceptance and the indices into `log` of the events of that big step
    pub steps: Vec<(u8, usize, usize)>,
    /// final value of the target where the harness can still read it
    pub final_state: Option<u64>,
    /// calls whose future was dropped right after its first poll
    pub polled_once: Vec<u32>,
}

/// Where the server side hands its clients: over the connection to endpoint A, or (local mode) directly
/// to the harness, without any serialization.
enum Out {
    Remote(base::Sender<Item>),
    Local(tokio::sync::mpsc::UnboundedSender<Item>),
}
impl Out {
    async fn send(&mut self, it: Item) {
        match self {
            Out::Remote(tx) => {
                let _ = tx.send(it).await;
            }
            Out::Local(tx) => {
                let _ = tx.send(it);
            }
        }
    }
}

/// Runs the server side on endpoint B: creates target and server, sends the clients, serves.  The stop op
/// aborts this task: the future of `serve()` (with the target, where it is borrowed) resp. the provider of
/// the remote function is dropped.
async fn server_side(
    c: Case, ctl: Arc<Ctl>, mut tx: Out, err_tx: tokio::sync::mpsc::Sender<remoc::rch::mpsc::RecvError>,
    mut lim_rx: tokio::sync::mpsc::UnboundedReceiver<usize>,
) -> Option<u64> {
    let pol = || match c.pol {
        0 => OnReqReceiveError::Ignore,
        1 => OnReqReceiveError::Send(err_tx.clone()),
        _ => OnReqReceiveError::Fail,
    };
    let n_send = if c.cmode == 1 { c.ncl } else { 1 };
    macro_rules! send_clients {
        ($client:expr, $variant:path, $clonable:expr) => {{
            let client = $client;
            #[allow(unused_mut)]
            let mut client = client;
            if c.lim != 0 {
                client.set_max_reply_size(c.lim);
            }
            client.set_max_request_size(4096);
            $clonable(&mut tx, client, n_send).await;
        }};
    }
    async fn send_m(tx: &mut Out, client: ObjMClient, n: usize) {
        for _ in 1..n {
            tx.send(Item::M(client.clone())).await;
        }
        tx.send(Item::M(client)).await;
    }
    async fn send_r(tx: &mut Out, client: ObjRClient, n: usize) {
        for _ in 1..n {
            tx.send(Item::R(client.clone())).await;
        }
        tx.send(Item::R(client)).await;
    }
    async fn send_v(tx: &mut Out, client: ObjVClient, _n: usize) {
        tx.send(Item::V(client)).await;
    }
    let done = |ctl: &Arc<Ctl>, r: &Result<(), ServeError>| ctl.push(Ev::SrvDone(serve_code(r)));
    match c.flav {
        0 => {
            use rtc::{Server, ServerBase};
            let (mut server, client) = ObjVServer::<_, codec::Default>::new(Tgt { v: 0, ctl: ctl.clone() }, REQ_QUEUE);
            server.set_on_req_receive_error(pol());
            send_clients!(client, Item::V, send_v);
            drop(tx);
            let (t, r) = server.serve().await;
            done(&ctl, &r);
            t.map(|t| t.v)
        }
        5 => {
            use rtc::{Server, ServerBase};
            let (mut server, client) = ObjMServer::<_, codec::Default>::new(Tgt { v: 0, ctl: ctl.clone() }, REQ_QUEUE);
            server.set_on_req_receive_error(pol());
            send_clients!(client, Item::M, send_m);
            drop(tx);
            let (t, r) = server.serve().await;
            done(&ctl, &r);
            t.map(|t| t.v)
        }
        1 => {
            use rtc::{ServerBase, ServerRef};
            let t = Tgt { v: 0, ctl: ctl.clone() };
            let (mut server, client) = ObjRServerRef::<_, codec::Default>::new(&t, REQ_QUEUE);
            server.set_on_req_receive_error(pol());
            send_clients!(client, Item::R, send_r);
            drop(tx);
            let r = server.serve().await;
            done(&ctl, &r);
            Some(t.v)
        }
        2 => {
            use rtc::{ServerBase, ServerRefMut};
            let mut t = Tgt { v: 0, ctl: ctl.clone() };
            let (mut server, client) = ObjMServerRefMut::<_, codec::Default>::new(&mut t, REQ_QUEUE);
            server.set_on_req_receive_error(pol());
            send_clients!(client, Item::M, send_m);
            drop(tx);
            let r = server.serve().await;
            done(&ctl, &r);
            Some(t.v)
        }
        3 => {
            use rtc::{ServerBase, ServerShared};
            let t = Arc::new(Tgt { v: 0, ctl: ctl.clone() });
            let (mut server, client) = ObjRServerShared::<_, codec::Default>::new(t.clone(), REQ_QUEUE);
            server.set_on_req_receive_error(pol());
            send_clients!(client, Item::R, send_r);
            drop(tx);
            let r = server.serve(c.spawn).await;
            done(&ctl, &r);
            Some(t.v)
        }
        4 => {
            use rtc::{ServerBase, ServerSharedMut};
            let t = Arc::new(tokio::sync::RwLock::new(Tgt { v: 0, ctl: ctl.clone() }));
            let (mut server, client) = ObjMServerSharedMut::<_, codec::Default>::new(t.clone(), REQ_QUEUE);
            server.set_on_req_receive_error(pol());
            send_clients!(client, Item::M, send_m);
            drop(tx);
            let r = server.serve(c.spawn).await;
            done(&ctl, &r);
            let v = t.read().await.v;
            Some(v)
        }
        6 => {
            // RFn: the function cannot mutate captured state; it reads a constant
            let ctl2 = ctl.clone();
            let (f, provider) = rfn::RFn::provided_1(move |a: A| {
                let ctl = ctl2.clone();
                async move {
                    let t = Tgt { v: 0, ctl };
                    Ok(t.do_ref(a).await.unwrap())
                }
            });
            for _ in 1..n_send {
                tx.send(Item::F(f.clone())).await;
            }
            tx.send(Item::F(f)).await;
            drop(tx);
            // the provider lives until the stop op aborts this task; limit ops reach it here
            while let Some(l) = lim_rx.recv().await {
                provider.set_max_concurrency(l);
            }
            std::future::pending::<()>().await;
            None
        }
        7 => {
            // RFnMut: the closure mutates its state synchronously when called; the future it returns
            // only waits at gate 2
            let ctl2 = ctl.clone();
            let mut v = 0u64;
            let (f, _provider) = rfn::RFnMut::provided_1(move |a: A| {
                let ctl = ctl2.clone();
                let g = Guard::start(&ctl, a.id);
                let (s2, r) = f_add(v, a.x);
                v = s2;
                ctl.push(Ev::Applied(a.id, r));
                async move {
                    if a.hold & 2 != 0 {
                        ctl.wait(a.id, 2).await;
                    }
                    g.finish();
                    Ok(reply(&a, r))
                }
            });
            tx.send(Item::FM(f)).await;
            drop(tx);
            std::future::pending::<()>().await;
            None
        }
        _ => {
            let ctl2 = ctl.clone();
            let (f, _provider) = rfn::RFnOnce::provided_1(move |a: A| async move {
                let t = Tgt { v: 0, ctl: ctl2 };
                Ok(t.do_val(a).await.unwrap())
            });
            tx.send(Item::FO(f)).await;
            drop(tx);
            std::future::pending::<()>().await;
            None
        }
    }
}

fn mk_arg(c: &Case, id: u32, x: u64, flags: u128) -> A {
    let lim = if c.lim == 0 { 4096 } else { c.lim };
    A {
        id,
        x,
        hold: (flags & 3) as u8,
        rpad: if flags & 16 != 0 { (lim + 64) as u32 } else { 0 },
        rbad: flags & 8 != 0,
        q: Picky(if flags & 4 != 0 { 0xBAD } else { 1 }),
        qpad: if flags & 32 != 0 { vec![5; 6000] } else { Vec::new() },
    }
}

/// Starts call `id` as its own task (or reports that the client cannot be used now).
/// A call future; its output is the outcome event (`RetVal` / `RetErr`), logged by whoever awaits it.
type CallFut = std::pin::Pin<Box<dyn Future<Output = Ev> + Send>>;

/// What became of the future of an issued call.
enum CallSt {
    /// awaited by a task of its own
    Task(tokio::task::JoinHandle<()>),
    /// polled once and kept by the caller, who awaits other calls meanwhile
    Parked(CallFut),
    /// parked, and that first poll already produced the outcome (which the caller sees when it resumes)
    ParkedDone(Ev),
    /// dropped, or completed inside its first poll
    Gone,
}

/// the call of scripted method `base` in attribute layout `lay` on a client of one of the harness traits
macro_rules! call_ref {
    ($m:expr, $a:expr, $base:expr, $lay:expr) => {
        match ($base, $lay) {
            (0, 0) => $m.get($a).await,
            (0, 1) => $m.get_1($a).await,
            (0, 2) => $m.get_2($a).await,
            (0, _) => $m.get_3($a).await,
            (_, 0) => $m.get_nc($a).await,
            (_, 1) => $m.get_nc_1($a).await,
            (_, 2) => $m.get_nc_2($a).await,
            (_, _) => $m.get_nc_3($a).await,
        }
    };
}
macro_rules! call_mut {
    ($m:expr, $a:expr, $base:expr, $lay:expr) => {
        match ($base, $lay) {
            (2, 0) => $m.add($a).await,
            (2, 1) => $m.add_1($a).await,
            (2, 2) => $m.add_2($a).await,
            (2, _) => $m.add_3($a).await,
            (_, 0) => $m.add_nc($a).await,
            (_, 1) => $m.add_nc_1($a).await,
            (_, 2) => $m.add_nc_2($a).await,
            (_, _) => $m.add_nc_3($a).await,
        }
    };
}
macro_rules! call_val {
    ($m:expr, $a:expr, $base:expr, $lay:expr) => {
        match ($base, $lay) {
            (4, 0) => $m.take($a).await,
            (4, 1) => $m.take_1($a).await,
            (4, 2) => $m.take_2($a).await,
            (4, _) => $m.take_3($a).await,
            (_, 0) => $m.take_nc($a).await,
            (_, 1) => $m.take_nc_1($a).await,
            (_, 2) => $m.take_nc_2($a).await,
            (_, _) => $m.take_nc_3($a).await,
        }
    };
}

fn start_call(c: &Case, ctl: &Arc<Ctl>, clients: &mut [Option<Cl>], id: u32, cl: usize, meth: u128, x: u64, flags: u128) -> Option<CallFut> {
    let flags = mask_flags(c, flags);
    let (meth, lay) = if c.flav >= 6 { (meth, 0) } else { (meth % 8, meth / 8) };
    let full_meth = meth + 8 * lay;
    let a = mk_arg(c, id, x, flags);
    let fin = move |r: Result<R, CallError>| match r {
        Ok(r) => Ev::RetVal(id, r.val),
        Err(e) => Ev::RetErr(id, err_class(&e)),
    };
    let fin_fn = move |r: FnRes| match r {
        Ok(r) => Ev::RetVal(id, r.val),
        Err(e) => Ev::RetErr(id, fn_err_class(&e)),
    };
    if !method_ok(c.flav, c.local(), full_meth) {
        return None;
    }
    let slot = clients.get_mut(cl)?;
    let inv = Ev::Inv { id, cl: cl as u32, meth: eff_meth(c.flav, meth) as u8, lay: lay as u8, x, flags: flags as u16 };
    let h: CallFut = match slot.as_mut()? {
        Cl::M(m) => {
            let mut m = m.clone();
            ctl.push(inv);
            Box::pin(async move {
                let r = match meth {
                    0 | 1 => call_ref!(m, a, meth, lay),
                    2 | 3 => call_mut!(m, a, meth, lay),
                    6 => m.later_ref(a).await,
                    _ => m.later_mut(a).await,
                };
                fin(r)
            })
        }
        Cl::ML(m) => {
            let mut m = m.clone();
            ctl.push(inv);
            Box::pin(async move {
                let r = match meth {
                    0 | 1 => call_ref!(m, a, meth, lay),
                    _ => call_mut!(m, a, meth, lay),
                };
                fin(r)
            })
        }
        Cl::R(m) => {
            let m = m.clone();
            ctl.push(inv);
            Box::pin(async move {
                let r = call_ref!(m, a, meth, lay);
                fin(r)
            })
        }
        Cl::V(s) => {
            if meth <= 1 {
                let g = s.clone().try_read_owned().ok()?;
                g.as_ref()?;
                ctl.push(inv);
                Box::pin(async move {
                    let m = g.as_ref().unwrap();
                    let r = call_ref!(m, a, meth, lay);
                    fin(r)
                })
            } else {
                let mut g = s.clone().try_write_owned().ok()?;
                g.as_ref()?;
                ctl.push(inv);
                if meth >= 4 {
                    // a by-value call moves the client into the call future
                    let m = g.take().unwrap();
                    drop(g);
                    Box::pin(async move {
                        let r = call_val!(m, a, meth, lay);
                        fin(r)
                    })
                } else {
                    Box::pin(async move {
                        let m = g.as_mut().unwrap();
                        let r = call_mut!(m, a, meth, lay);
                        fin(r)
                    })
                }
            }
        }
        Cl::F(f) => {
            let f = f.clone();
            ctl.push(inv);
            Box::pin(async move { fin_fn(f.call(a).await) })
        }
        Cl::FM(s) => {
            let mut g = s.clone().try_write_owned().ok()?;
            g.as_ref()?;
            ctl.push(inv);
            Box::pin(async move { fin_fn(g.as_mut().unwrap().call(a).await) })
        }
        Cl::FO(s) => {
            let mut g = s.clone().try_write_owned().ok()?;
            g.as_ref()?;
            ctl.push(inv);
            let f = g.take().unwrap();
            drop(g);
            Box::pin(async move { fin_fn(f.call(a).await) })
        }
    };
    Some(h)
}

async fn run_case(c: Case) -> Option<Trace> {
    let net = Net::new(true);
    let cfg = Cfg::default();
    let (a, b) = tokio::join!(
        Connect::framed::<_, _, ItemA, ItemA, codec::Default>(cfg.clone(), net.a2b.sink(), net.b2a.stream()),
        Connect::framed::<_, _, Item, Item, codec::Default>(cfg, net.b2a.sink(), net.a2b.stream()),
    );
    let (conn_a, _tx_a, mut rx_a): (_, base::Sender<ItemA>, base::Receiver<ItemA>) = a.ok()?;
    let (conn_b, tx_b, _rx_b): (_, base::Sender<Item>, base::Receiver<Item>) = b.ok()?;
    let ja = tokio::spawn(conn_a);
    let jb = tokio::spawn(conn_b);
    let ctl = Arc::new(Ctl::default());
    let (uerr_tx, mut uerr_rx) = tokio::sync::mpsc::channel(256);
    let (local_tx, mut local_rx) = tokio::sync::mpsc::unbounded_channel();
    let out = if c.local() { Out::Local(local_tx) } else { Out::Remote(tx_b) };
    let (lim_tx, lim_rx) = tokio::sync::mpsc::unbounded_channel();
    let mut srv = tokio::spawn(server_side(c.clone(), ctl.clone(), out, uerr_tx, lim_rx));

    // receive the clients on A (local mode: take the client from the server side as it is)
    let mut clients: Vec<Option<Cl>> = Vec::new();
    let n_recv = if c.cmode == 1 && matches!(c.flav, 1..=6) { c.ncl } else { 1 };
    for _ in 0..n_recv {
        let cl = if c.local() {
            match local_rx.recv().await? {
                Item::M(m) => Cl::ML(m),
                Item::R(m) => Cl::R(m),
                Item::V(m) => Cl::V(Arc::new(tokio::sync::RwLock::new(Some(m)))),
                Item::F(f) => Cl::F(f),
                Item::FM(f) => Cl::FM(Arc::new(tokio::sync::RwLock::new(Some(f)))),
                Item::FO(f) => Cl::FO(Arc::new(tokio::sync::RwLock::new(Some(f)))),
            }
        } else {
            match rx_a.recv().await.ok()?? {
                ItemA::M(m) => Cl::M(m),
                ItemA::R(m) => Cl::R(m),
                ItemA::V(m) => Cl::V(Arc::new(tokio::sync::RwLock::new(Some(m)))),
                ItemA::F(f) => Cl::F(f),
                ItemA::FM(f) => Cl::FM(Arc::new(tokio::sync::RwLock::new(Some(f)))),
                ItemA::FO(f) => Cl::FO(Arc::new(tokio::sync::RwLock::new(Some(f)))),
            }
        };
        clients.push(Some(cl));
    }
    while clients.len() < c.ncl {
        let cl = match clients[0].as_ref().unwrap() {
            Cl::M(m) => Cl::M(m.clone()),
            Cl::ML(m) => Cl::ML(m.clone()),
            Cl::R(m) => Cl::R(m.clone()),
            Cl::F(f) => Cl::F(f.clone()),
            Cl::V(s) => Cl::V(s.clone()),
            Cl::FM(s) => Cl::FM(s.clone()),
            Cl::FO(s) => Cl::FO(s.clone()),
        };
        clients.push(Some(cl));
    }
    barrier().await;
    let scripted = c.mode == 0;
    if !scripted {
        net.set_auto(false);
    }

    // per call op: the call id (ids are given to issued calls only) and the task running the call
    let mut calls: Vec<Option<(u32, CallSt)>> = Vec::new();
    // awaiting a call future = a task that logs the outcome
    let await_call = |ctl: &Arc<Ctl>, f: CallFut| {
        let ctl = ctl.clone();
        CallSt::Task(tokio::spawn(async move {
            let e = f.await;
            ctl.push(e);
        }))
    };
    let mut issued = 0u32;
    let mut polled_once = Vec::new();
    let mut steps = Vec::new();
    let mut srv_done = false;
    let mut stopped = false;
    let mut final_state = None;
    let mut mark = ctl.log.lock().unwrap().len();
    for o in &c.ops {
        let acc: u8 = match o[0] {
            0 => {
                let id = issued;
                let f = start_call(&c, &ctl, &mut clients, id, o[1] as usize, o[2], o[3] as u64, o[4]);
                let ok = f.is_some();
                if ok {
                    issued += 1;
                }
                let fl = mask_flags(&c, o[4]);
                let h = match f {
                    Some(f) if fl & 128 != 0 => {
                        // the call future is dropped before it was ever polled
                        drop(f);
                        ctl.push(Ev::DropCall(id));
                        CallSt::Gone
                    }
                    Some(mut f) if fl & 64 != 0 => {
                        polled_once.push(id);
                        // poll the call future exactly once (it queues its request), then drop it
                        let w = futures::task::noop_waker();
                        let mut cx = std::task::Context::from_waker(&w);
                        match f.as_mut().poll(&mut cx) {
                            Poll::Pending => {
                                drop(f);
                                ctl.push(Ev::DropCall(id));
                            }
                            Poll::Ready(e) => ctl.push(e),
                        }
                        CallSt::Gone
                    }
                    Some(mut f) if fl & 256 != 0 => {
                        // poll the call future exactly once (it queues its request) and keep it: the caller
                        // turns to other calls and looks at this one again when the case says so
                        let w = futures::task::noop_waker();
                        let mut cx = std::task::Context::from_waker(&w);
                        match f.as_mut().poll(&mut cx) {
                            Poll::Pending => CallSt::Parked(f),
                            Poll::Ready(e) => CallSt::ParkedDone(e),
                        }
                    }
                    Some(f) => await_call(&ctl, f),
                    None => CallSt::Gone,
                };
                calls.push(if ok { Some((id, h)) } else { None });
                if ok {
                    0
                } else {
                    1
                }
            }
            1 => {
                match calls.get(o[1] as usize) {
                    Some(Some((id, _))) if o[2] == 1 || o[2] == 2 => {
                        ctl.open(*id, o[2] as u8);
                        0
                    }
                    _ => 1,
                }
            }
            2 => match calls.get_mut(o[1] as usize) {
                Some(Some((id, st))) => match st {
                    CallSt::Task(h) if !h.is_finished() => {
                        h.abort();
                        ctl.push(Ev::DropCall(*id));
                        0
                    }
                    CallSt::Parked(_) | CallSt::ParkedDone(_) => {
                        *st = CallSt::Gone;
                        ctl.push(Ev::DropCall(*id));
                        0
                    }
                    _ => 1,
                },
                _ => 1,
            },
            8 => match calls.get_mut(o[1] as usize) {
                Some(Some((id, st))) if matches!(st, CallSt::Parked(_) | CallSt::ParkedDone(_)) => {
                    ctl.push(Ev::Resume(*id));
                    match std::mem::replace(st, CallSt::Gone) {
                        CallSt::Parked(f) => *st = await_call(&ctl, f),
                        CallSt::ParkedDone(e) => ctl.push(e),
                        _ => unreachable!(),
                    }
                    0
                }
                _ => 1,
            },
            9 => {
                if c.flav == 6 && !stopped && (1..=64).contains(&o[1]) && lim_tx.send(o[1] as usize).is_ok() {
                    ctl.push(Ev::Limit(o[1] as u64));
                    0
                } else {
                    1
                }
            }
            3 if c.local() => 1, // no connection between the callers and the callee
            3 => {
                net.a2b.fail(Fault::StreamErr);
                net.b2a.fail(Fault::StreamErr);
                ctl.push(Ev::Cut);
                0
            }
            7 => {
                if stopped {
                    1
                } else {
                    stopped = true;
                    srv.abort();
                    ctl.push(Ev::Stop);
                    0
                }
            }
            4 => match clients.get_mut(o[1] as usize) {
                Some(s) if s.is_some() => {
                    // a client living in a slot (not clonable) can only be dropped while it is not borrowed
                    fn take_slot<T>(v: &Arc<tokio::sync::RwLock<Option<T>>>) -> u8 {
                        match v.try_write() {
                            Ok(mut g) => {
                                if g.take().is_some() {
                                    0
                                } else {
                                    1
                                }
                            }
                            Err(_) => 1,
                        }
                    }
                    match s.as_ref().unwrap() {
                        Cl::V(v) => take_slot(v),
                        Cl::FM(v) => take_slot(v),
                        Cl::FO(v) => take_slot(v),
                        _ => {
                            s.take();
                            0
                        }
                    }
                }
                _ => 1,
            },
            5 => {
                let l = if o[1] == 0 { &net.a2b } else { &net.b2a };
                l.deliver(o[2] as usize);
                0
            }
            _ => {
                barrier().await;
                0
            }
        };
        if scripted {
            barrier().await;
        } else {
            for _ in 0..3 {
                tokio::task::yield_now().await;
            }
        }
        // what the harness can observe now
        let mut n = 0u64;
        while uerr_rx.try_recv().is_ok() {
            n += 1;
        }
        if n > 0 {
            ctl.push(Ev::UserErrs(n));
        }
        if !srv_done && srv.is_finished() {
            srv_done = true;
            final_state = (&mut srv).await.ok().flatten();
        }
        let now = ctl.log.lock().unwrap().len();
        steps.push((acc, mark, now));
        mark = now;
    }
    // wind down (oracle only): everything in flight is delivered, every gate opens, clients go away
    ctl.push(Ev::WindDown);
    net.set_auto(true);
    ctl.open_all();
    barrier().await;
    // second phase: the callers turn to their parked call futures again
    ctl.push(Ev::ResumeAll);
    for (_, st) in calls.iter_mut().flatten() {
        match std::mem::replace(st, CallSt::Gone) {
            CallSt::Parked(f) => *st = await_call(&ctl, f),
            CallSt::ParkedDone(e) => ctl.push(e),
            other => *st = other,
        }
    }
    barrier().await;
    clients.clear();
    barrier().await;
    if !srv_done && srv.is_finished() {
        final_state = (&mut srv).await.ok().flatten();
    }
    let mut n = 0u64;
    while uerr_rx.try_recv().is_ok() {
        n += 1;
    }
    if n > 0 {
        ctl.push(Ev::UserErrs(n));
    }
    let log = ctl.log.lock().unwrap().clone();
    for (_, st) in calls.iter().flatten() {
        if let CallSt::Task(h) = st {
            h.abort();
        }
    }
    srv.abort();
    ja.abort();
    jb.abort();
    Some(Trace { log, steps, final_state, polled_once })
}

fn ev_nums(e: &Ev) -> Option<(u32, u128, u128)> {
    Some(match *e {
        Ev::Started(i) => (i, 1, 0),
        Ev::Applied(i, r) => (i, 2, r as u128),
        Ev::Finished(i) => (i, 3, 0),
        Ev::Cancelled(i) => (i, 4, 0),
        Ev::RetVal(i, r) => (i, 5, r as u128),
        Ev::RetErr(i, _) => (i, 6, 0),
        Ev::UserErrs(n) => (ERR_ID, 8, n as u128),
        Ev::SrvDone(c) => (SRV_ID, 9, c as u128),
        Ev::Torn(i) => (i, 7, 0),
        Ev::Inv { .. } | Ev::DropCall(_) | Ev::Cut | Ev::Stop | Ev::Limit(_) | Ev::Resume(_) | Ev::ResumeAll | Ev::WindDown => {
            return None
        }
    })
}

pub fn exec(inp: &[u128]) -> (Vec<u128>, String, String) {
    let Some(c) = parse(inp) else { return (vec![98], "unparsable".into(), "ok".into()) };
    let (txr, rxr) = std::sync::mpsc::channel();
    let c2 = c.clone();
    std::thread::spawn(move || {
        #[cfg(remoc_verif)]
        remoc::exec::verif::set_defer_seed(if c2.mode == 1 { c2.defer } else { 0 });
        let rt = tokio::runtime::Builder::new_current_thread().enable_time().start_paused(true).build().unwrap();
        let t = rt.block_on(run_case(c2));
        let _ = txr.send(t);
    });
    let t = match rxr.recv_timeout(Duration::from_secs(20)) {
        Ok(Some(t)) => t,
        Ok(None) => return (vec![96], "setup-failed".into(), "FAIL: could not establish the connection or move the client".into()),
        Err(_) => return (vec![95], "hang".into(), "FAIL: case did not reach quiescence within 20 s of wall time".into()),
    };
    if std::env::var_os("VH_DEBUG").is_some() {
        for e in &t.log {
            eprintln!("  {e:?}");
        }
        eprintln!("  final {:?}", t.final_state);
    }
    let mut out = Vec::new();
    if c.mode == 0 {
        for (acc, from, to) in &t.steps {
            out.push(*acc as u128);
            let mut evs: Vec<(u32, u128, u128)> = t.log[*from..*to]
                .iter()
                .filter_map(ev_nums)
                .filter(|e| !((e.1 == 5 || e.1 == 6) && t.polled_once.contains(&e.0)))
                .collect();
            evs.sort_by_key(|e| (e.0, e.1));
            out.push(evs.len() as u128);
            for (i, k, v) in evs {
                out.extend([i as u128, k, v]);
            }
        }
    } else {
        out.push(1);
    }
    let verdict = oracle(&c, &t);
    (out, signature(&c, &t), verdict)
}

// ------------------------------------------------------------------------------------------------
// the oracle: the properties, stated directly on the recorded trace

struct CallInfo {
    meth: u8,
    lay: u8,
    x: u64,
    flags: u16,
    inv_at: usize,
    dropped_at: Option<usize>,
    started: Vec<usize>,
    applied: Vec<(usize, u64)>,
    finished: Vec<usize>,
    cancelled: Vec<usize>,
    ret: Vec<(usize, Option<u64>)>,
}

fn collect(t: &Trace) -> Vec<CallInfo> {
    let mut v: Vec<CallInfo> = Vec::new();
    for (p, e) in t.log.iter().enumerate() {
        match *e {
            Ev::Inv { id, meth, lay, x, flags, .. } => {
                assert_eq!(id as usize, v.len());
                v.push(CallInfo {
                    meth,
                    lay,
                    x,
                    flags,
                    inv_at: p,
                    dropped_at: None,
                    started: vec![],
                    applied: vec![],
                    finished: vec![],
                    cancelled: vec![],
                    ret: vec![],
                });
            }
            Ev::DropCall(i) => v[i as usize].dropped_at = Some(p),
            Ev::Started(i) => v[i as usize].started.push(p),
            Ev::Applied(i, r) => v[i as usize].applied.push((p, r)),
            Ev::Finished(i) => v[i as usize].finished.push(p),
            Ev::Cancelled(i) => v[i as usize].cancelled.push(p),
            Ev::RetVal(i, r) => v[i as usize].ret.push((p, Some(r))),
            Ev::RetErr(i, _) => v[i as usize].ret.push((p, None)),
            _ => {}
        }
    }
    v
}

fn is_mut_meth(m: u8) -> bool {
    m == 2 || m == 3
}
fn no_cancel(c: &Case, m: u8) -> bool {
    c.flav >= 6 || m % 2 == 1
}
/// the method runs inside the future of `serve()` (not in a task of its own): it goes away with that future
fn runs_inline(c: &Case, m: u8) -> bool {
    c.flav < 6 && !(c.spawn && (c.flav == 3 || (c.flav == 4 && !is_mut_meth(m))))
}

/// Asks the verified checker (`Lin.linearizable`, extracted) about a client history.
fn verified_lin(history: &[u128]) -> Result<bool, String> {
    use std::io::{Read, Write};
    let mrun = std::env::var("VERIF_MRUN").map(std::path::PathBuf::from).unwrap_or_else(|_| {
        let exe = std::env::current_exe().unwrap_or_default();
        exe.ancestors().nth(4).map(|r| r.join("mrun/extracted/mrun")).unwrap_or_default()
    });
    let mut child = std::process::Command::new(&mrun)
        .stdin(std::process::Stdio::piped())
        .stdout(std::process::Stdio::piped())
        .stderr(std::process::Stdio::null())
        .spawn()
        .map_err(|e| format!("cannot start the verified checker {}: {e}", mrun.display()))?;
    let mut line = format!("{COMP} 9 0");
    for x in history {
        line.push(' ');
        line.push_str(&x.to_string());
    }
    line.push('\n');
    child.stdin.take().unwrap().write_all(line.as_bytes()).map_err(|e| e.to_string())?;
    let mut out = String::new();
    child.stdout.take().unwrap().read_to_string(&mut out).map_err(|e| e.to_string())?;
    let _ = child.wait();
    match out.trim() {
        "1" => Ok(true),
        "0" => Ok(false),
        o => Err(format!("verified checker answered {o:?}")),
    }
}

/// C12: O1 every call has at most one outcome, and exactly one unless its future was dropped;
///      O2 a returned value is the value the target computed for this very call;
///      O3 every call is started / applied at most once (whatever its outcome);
///      O4 while a `&mut` method is executing no other method of the target is (no torn read either);
///      O5 the client-visible history is linearizable (verified checker);
///      O8 a remote function never runs more invocations at a time than the limit in force when they were made.
/// C19: O6 a cancellable method whose caller is gone is abandoned at its suspension point (scripted: in
///         the same big step) and a call dropped while queued never starts; a no_cancel method that
///         started finishes and is never cancelled;
///      O7 a call fails only for a reason of its own (undecodable/oversized request or reply), a lost
///         connection, or a server that ended for a legitimate reason (policy Fail after an undecodable
///         request, target consumed by a by-value call, stop op); `serve()` never ends with a reply error.
/// The callee going away (stop op: the future of `serve()` / the provider is dropped) is no excuse for O1-O5:
/// every call, pending or made afterwards, local or remote, still gets exactly one outcome.  It takes the
/// methods running inside the future of `serve()` with it (O6: also no_cancel ones).
fn oracle(c: &Case, t: &Trace) -> String {
    let calls = collect(t);
    let wind = t.log.iter().position(|e| *e == Ev::WindDown).unwrap_or(t.log.len());
    let cut_at = t.log.iter().position(|e| *e == Ev::Cut);
    let stop_at = t.log.iter().position(|e| *e == Ev::Stop);
    let resume_all = t.log.iter().position(|e| *e == Ev::ResumeAll).unwrap_or(t.log.len());
    if let Some(Ev::Torn(i)) = t.log.iter().find(|e| matches!(e, Ev::Torn(_))) {
        return format!("FAIL: O4 call {i} read two different target states while it held the target");
    }
    for (i, k) in calls.iter().enumerate() {
        if k.ret.len() > 1 {
            return format!("FAIL: O1 call {i} completed {} times", k.ret.len());
        }
        if k.dropped_at.is_none() && k.ret.is_empty() {
            return format!("FAIL: O1 call {i} never completed although everything was released (server wedged?)");
        }
        // a caller that does not look at its call future (parked: polled once, not awaited) holds up nobody
        // else: every call that is being awaited completes without the parked futures being resumed
        let parked_to_the_end = k.flags & 256 != 0 && !t.log[..resume_all].contains(&Ev::Resume(i as u32));
        if k.dropped_at.is_none() && !parked_to_the_end && k.ret.first().map_or(false, |(p, _)| *p > resume_all) {
            return format!(
                "FAIL: O1 call {i} completed only after the parked call futures of other calls were awaited again \
                 (a caller that does not pick up its reply must not hold up other calls)"
            );
        }
        if k.started.len() > 1 || k.applied.len() > 1 {
            return format!("FAIL: O3 call {i} was executed {} times (applied {} times)", k.started.len(), k.applied.len());
        }
        if k.finished.len() + k.cancelled.len() > k.started.len() {
            return format!("FAIL: O3 call {i} ended more often than it started");
        }
        if let Some((p, Some(v))) = k.ret.first() {
            match k.applied.first() {
                Some((pa, va)) if va == v && pa < p => {}
                Some((_, va)) => return format!("FAIL: O2 call {i} returned {v} but the target computed {va} for it"),
                None => return format!("FAIL: O2 call {i} returned {v} although the target never executed it"),
            }
        }
    }
    // O4 mutual exclusion on the execution log (one target per case, except rfn 6/8: a target per call)
    if c.flav != 6 && c.flav != 8 {
        let mut running: Vec<u32> = Vec::new();
        for e in &t.log {
            match *e {
                Ev::Started(i) => {
                    let m = calls[i as usize].meth;
                    if let Some(j) = running.iter().find(|j| is_mut_meth(calls[**j as usize].meth) || is_mut_meth(m)) {
                        return format!("FAIL: O4 call {i} started while call {j} was executing and one of them takes the target mutably");
                    }
                    running.push(i);
                }
                Ev::Finished(i) | Ev::Cancelled(i) => running.retain(|j| *j != i),
                _ => {}
            }
        }
    }
    // O8 concurrency limit of a remote function (scripted cases: a call belongs to the limit in force when it
    // was made): never more than that many of them execute at the same time
    if c.flav == 6 && c.mode == 0 {
        let mut limits: Vec<u64> = vec![32];
        let mut gen_of: Vec<usize> = Vec::new();
        let mut running: Vec<u64> = vec![0];
        for e in &t.log {
            match *e {
                Ev::Limit(l) if l != *limits.last().unwrap() => {
                    limits.push(l);
                    running.push(0);
                }
                Ev::Inv { .. } => gen_of.push(limits.len() - 1),
                Ev::Started(i) => {
                    let g = gen_of[i as usize];
                    running[g] += 1;
                    if running[g] > limits[g] {
                        return format!("FAIL: O8 call {i} started although {} calls made under the limit {} were executing", running[g] - 1, limits[g]);
                    }
                }
                Ev::Finished(i) | Ev::Cancelled(i) => running[gen_of[i as usize]] -= 1,
                _ => {}
            }
        }
    }
    // O5 linearizability of the client-visible history
    // A call without a result (it failed or its future was dropped) may or may not have taken effect as far as
    // its caller knows.  The target's log knows: a call that was never applied there had no effect, so it need
    // not be offered to the checker as a call that might have (every such call doubles the checker's search;
    // leaving it out only makes the question stricter: the results must be explained without it).
    let no_effect = |i: u32| {
        let k = &calls[i as usize];
        k.applied.is_empty() && !matches!(k.ret.first(), Some((_, Some(_))))
    };
    let mut hist: Vec<u128> = Vec::new();
    for e in &t.log {
        match *e {
            Ev::Inv { id, meth, x, .. } if !no_effect(id) => hist.extend([0, id as u128, meth as u128, x as u128, 0]),
            Ev::RetVal(i, v) => hist.extend([1, i as u128, 0, 0, v as u128]),
            Ev::RetErr(i, _) if !no_effect(i) => hist.extend([2, i as u128, 0, 0, 0]),
            _ => {}
        }
    }
    if calls.iter().any(|k| matches!(k.ret.first(), Some((_, Some(_))))) {
        match verified_lin(&hist) {
            Ok(true) => {}
            Ok(false) => return "FAIL: O5 the recorded client history is not linearizable (verified checker)".into(),
            Err(e) => return format!("FAIL: O5 {e}"),
        }
    }
    // O6 cancellation
    let step_end = |p: usize| t.steps.iter().map(|s| s.2).find(|e| *e > p).unwrap_or(t.log.len());
    for (i, k) in calls.iter().enumerate() {
        let nc = no_cancel(c, k.meth);
        if nc {
            // dropped together with the future of `serve()` it was running in
            let with_serve = runs_inline(c, k.meth) && matches!((stop_at, k.cancelled.first()), (Some(s), Some(&cp)) if s < cp);
            if !k.cancelled.is_empty() && !with_serve {
                return format!("FAIL: O6 no_cancel call {i} was cancelled");
            }
            if !k.started.is_empty() && k.finished.is_empty() && !with_serve {
                return format!("FAIL: O6 no_cancel call {i} started but never finished");
            }
            continue;
        }
        // the moment the caller went away: dropped future or lost connection
        let gone = match (k.dropped_at, cut_at) {
            (Some(d), Some(x)) => Some(d.min(x)),
            (Some(d), None) => Some(d),
            (None, Some(x)) if x > k.inv_at => Some(x),
            _ => None,
        };
        let Some(g) = gone else { continue };
        if k.ret.first().map_or(false, |(p, _)| *p < g) {
            continue; // had completed before
        }
        if c.mode == 0 {
            let end = step_end(g);
            match k.started.first() {
                Some(&st) if st < g => {
                    // executing when the caller went away: suspended at a gate or already past the last one
                    let fin = k.finished.first().map_or(false, |f| *f < g);
                    if !fin {
                        match k.cancelled.first() {
                            Some(&cp) if cp < end => {}
                            _ if k.finished.first().map_or(false, |f| *f < end) => {} // was not suspended
                            _ => return format!("FAIL: O6 cancellable call {i} was not abandoned when its caller went away"),
                        }
                    }
                }
                Some(_) => return format!("FAIL: O6 call {i} was started after its caller had gone away"),
                None => {}
            }
        } else if k.dropped_at.is_some() && k.started.is_empty() {
            // never started: fine
        }
        // whatever the mode: at the end a cancellable method whose caller went away while it was suspended
        // has been abandoned or has finished, and nothing is left executing
        if !k.started.is_empty() && k.finished.is_empty() && k.cancelled.is_empty() {
            return format!("FAIL: O6 call {i} is still executing at the end");
        }
    }
    // O7 failures stay with the failing call
    let srv_done: Vec<(usize, u8)> = t.log.iter().enumerate().filter_map(|(p, e)| if let Ev::SrvDone(r) = e { Some((p, *r)) } else { None }).collect();
    let bad_before = |p: usize| calls.iter().any(|k| (k.flags & 4 != 0 || k.meth >= 6) && k.inv_at < p);
    let value_before = |p: usize| calls.iter().any(|k| (k.meth == 4 || k.meth == 5) && k.inv_at < p);
    for (p, r) in &srv_done {
        match r {
            2 => return "FAIL: O7 serve() ended with a reply error (Err(ReplySend)): the failure of one reply ends service for every client".into(),
            1 if !(c.pol == 2 && bad_before(*p)) => return "FAIL: O7 serve() ended with a receive error although the policy is not Fail".into(),
            0 if *p < wind && cut_at.map_or(true, |x| x > *p) && !value_before(*p) && !all_clients_dropped_before(c, t, *p) => {
                return "FAIL: O7 serve() ended although clients are alive and the connection is up".into()
            }
            _ => {}
        }
    }
    for (i, k) in calls.iter().enumerate() {
        if let Some((p, None)) = k.ret.first() {
            if k.flags & (4 | 8 | 16 | 32) != 0 || k.meth >= 6 || t.polled_once.contains(&(i as u32)) {
                continue;
            }
            if cut_at.map_or(false, |x| x < *p) {
                continue;
            }
            let legit_end = srv_done.iter().any(|(sp, r)| *sp < *p && ((*r == 1 && c.pol == 2) || *r == 0))
                || (c.pol == 2 && bad_before(*p))
                || value_before(k.inv_at)
                || stop_at.map_or(false, |sp| sp < *p);
            if legit_end {
                continue;
            }
            return format!("FAIL: O7 call {i} failed although nothing is wrong with it, the connection is up and the server has no reason to stop");
        }
    }
    "ok".into()
}

fn all_clients_dropped_before(c: &Case, t: &Trace, p: usize) -> bool {
    // dropclient ops are not in the log; approximate from the ops: every client index was dropped in a step that ended before p
    let mut dropped = vec![false; c.ncl];
    for (o, st) in c.ops.iter().zip(t.steps.iter()) {
        if st.1 > p {
            break;
        }
        if o[0] == 4 && st.0 == 0 && (o[1] as usize) < c.ncl {
            dropped[o[1] as usize] = true;
        }
    }
    dropped.iter().all(|d| *d)
}

fn signature(c: &Case, t: &Trace) -> String {
    let calls = collect(t);
    let mut s = String::new();
    // the known classes carry one signature each, so that they cannot crowd other failures out of a report
    if calls.iter().any(|k| k.flags & 16 != 0) && c.lim != 0 && c.flav < 6 {
        return "F6:oversized-reply".into();
    }
    if calls.iter().any(|k| k.flags & 32 != 0) && c.flav < 6 {
        return "F14:oversized-request".into();
    }
    s.push_str(if c.mode == 0 { "scr" } else { "race" });
    s.push_str(&format!(":f{}{}:p{}:c{}", c.flav, if c.spawn && (c.flav == 3 || c.flav == 4) { "s" } else { "n" }, c.pol, c.ncl));
    if c.local() {
        s.push_str(":local");
    }
    let wind = t.log.iter().position(|e| *e == Ev::WindDown).unwrap_or(t.log.len());
    // concurrency: a call invoked while another one was outstanding
    let mut open: Vec<u32> = Vec::new();
    let mut conc = false;
    let mut overlap_exec = false;
    let mut running = 0;
    for e in &t.log[..wind] {
        match *e {
            Ev::Inv { id, .. } => {
                if !open.is_empty() {
                    conc = true;
                }
                open.push(id);
            }
            Ev::RetVal(i, _) | Ev::RetErr(i, _) | Ev::DropCall(i) => open.retain(|j| *j != i),
            Ev::Started(_) => {
                running += 1;
                if running > 1 {
                    overlap_exec = true;
                }
            }
            Ev::Finished(_) | Ev::Cancelled(_) => running -= 1,
            _ => {}
        }
    }
    let mut feat = |b: bool, name: &str| {
        if b {
            s.push(':');
            s.push_str(name);
        }
    };
    feat(conc, "conc");
    feat(overlap_exec, "par");
    feat(calls.iter().any(|k| is_mut_meth(k.meth) && k.ret.first().map_or(false, |r| r.1.is_some())), "mut");
    feat(calls.iter().any(|k| k.meth == 4 || k.meth == 5), "val");
    feat(calls.iter().any(|k| k.meth >= 6), "unknown");
    feat(calls.iter().any(|k| !k.cancelled.is_empty()), "cancel");
    feat(calls.iter().any(|k| k.dropped_at.is_some() && k.started.is_empty() && k.flags & 128 == 0), "skip");
    feat(calls.iter().any(|k| k.dropped_at.is_some() && !k.finished.is_empty() && no_cancel(c, k.meth)), "ncdone");
    feat(calls.iter().any(|k| k.flags & 128 != 0), "unpolled");
    feat(calls.iter().any(|k| k.flags & 256 != 0), "park");
    feat(t.log[..wind].iter().any(|e| matches!(e, Ev::Limit(_))), "limit");
    feat(calls.iter().any(|k| k.flags & 4 != 0), "qbad");
    feat(calls.iter().any(|k| k.flags & 8 != 0), "rbad");
    feat(calls.iter().any(|k| k.lay != 0), "attr");
    feat(t.log.contains(&Ev::Cut), "cut");
    let stop_at = t.log[..wind].iter().position(|e| *e == Ev::Stop);
    feat(stop_at.is_some(), "stop");
    feat(stop_at.map_or(false, |sp| calls.iter().any(|k| k.inv_at > sp && k.inv_at < wind)), "after");
    feat(t.log[..wind].iter().any(|e| matches!(e, Ev::SrvDone(1))), "fail");
    feat(t.log[..wind].iter().any(|e| matches!(e, Ev::SrvDone(0))), "end");
    feat(calls.iter().any(|k| matches!(k.ret.first(), Some((_, None)))), "err");
    s
}

/// a scripted method, in one of the four textual layouts of its attributes
fn pick_method(r: &mut Rng, flav: u64) -> u64 {
    let m = pick_base_method(r, flav);
    if m <= 5 && flav < 6 && r.chance(1, 2) {
        m + 8 * r.range(1, 3)
    } else if r.chance(1, 200) {
        m + 8 * r.range(1, 4)
    } else {
        m
    }
}

fn pick_base_method(r: &mut Rng, flav: u64) -> u64 {
    if r.chance(1, 40) {
        return r.below(6);
    }
    match flav {
        0 => *r.pick(&[0u64, 0, 1, 2, 2, 3, 4, 5]),
        1 | 3 => r.below(2),
        2 | 4 | 5 => {
            if r.chance(1, 16) {
                r.range(6, 7)
            } else {
                *r.pick(&[0u64, 0, 1, 2, 2, 2, 3])
            }
        }
        _ => 0,
    }
}

/// One scripted (mode 0) or race (mode 1) case.  `profile` 0: C12 (concurrency, mixes of methods, few
/// disturbances), 1: C19 (dropped calls, lost connections, undecodable requests and replies).
fn gen_case(r: &mut Rng, mode: u64, profile: u64) -> Vec<u128> {
    let flav = *r.pick(&[0u64, 1, 2, 2, 3, 3, 4, 4, 4, 4, 5, 6, 6, 7, 8]);
    let spawn = r.below(2);
    let pol = *r.pick(&[0u64, 0, 0, 1, 2]);
    let ncl = if matches!(flav, 0 | 7 | 8) { 1 } else { r.range(1, 4) };
    // one case in five: the callers live in the process of the callee (no connection in between)
    let cmode = if r.chance(1, 5) { 2 } else { r.below(2) };
    let defer = if mode == 1 && r.chance(2, 3) { r.next() | 1 } else { 0 };
    let lim = if r.chance(1, 5) { 2000 } else { 0 };
    let mut v: Vec<u128> = vec![mode as u128, flav as u128, spawn as u128, pol as u128, ncl as u128, cmode as u128, defer as u128, lim as u128];
    let nops = r.range(4, 28);
    let mut ncalls = 0u64;
    let mut held: Vec<(u64, u64)> = Vec::new();
    let mut parked: Vec<u64> = Vec::new();
    let mut cut_done = false;
    let mut stop_done = false;
    let push = |v: &mut Vec<u128>, o: [u64; 5]| v.extend(o.iter().map(|x| *x as u128));
    // how often things go wrong
    let (p_bad, p_drop, p_cut, p_dropcl) = if profile == 0 { (40, 4, 1, 3) } else { (10, 14, 4, 5) };
    // the callee goes away (at most once per case, in about one case in four)
    let p_stop = 2;
    for k in 0..nops {
        let x = r.below(100);
        if x < 50 || ncalls == 0 {
            let cl = if r.chance(1, 30) { r.below(5) } else { r.below(ncl) };
            let m = pick_method(r, flav);
            let mut fl = 0u64;
            if r.chance(1, 3) {
                fl |= 1;
            }
            if r.chance(1, 4) {
                fl |= 2;
            }
            if r.chance(1, p_bad) {
                fl |= 4;
            }
            if r.chance(1, p_bad) {
                fl |= 8;
            }
            if profile == 1 {
                if r.chance(1, 12) {
                    fl |= 64;
                } else if r.chance(1, 30) {
                    fl |= 128;
                }
            } else if r.chance(1, 60) {
                fl |= 64;
            }
            // the caller parks the call future after its first poll and turns to other calls
            if fl & (64 | 128) == 0 && r.chance(1, 8) {
                fl |= 256;
                parked.push(ncalls);
            }
            if fl & 1 != 0 {
                held.push((ncalls, 1));
            }
            if fl & 2 != 0 {
                held.push((ncalls, 2));
            }
            push(&mut v, [0, cl, m, r.below(20), fl]);
            ncalls += 1;
        } else if x < 78 {
            if flav == 6 && r.chance(1, 4) {
                // the owner of the remote function changes its concurrency limit
                push(&mut v, [9, *r.pick(&[1u64, 1, 2, 2, 3, 32, 0, 65]), 0, 0, 0]);
            } else if !parked.is_empty() && r.chance(1, 3) {
                let i = r.below(parked.len() as u64) as usize;
                push(&mut v, [8, parked.remove(i), 0, 0, 0]);
            } else if r.chance(1, 40) {
                push(&mut v, [8, r.below(ncalls + 1), 0, 0, 0]);
            } else if !held.is_empty() && r.chance(5, 6) {
                let i = r.below(held.len() as u64) as usize;
                let (c, g) = held.remove(i);
                push(&mut v, [1, c, g, 0, 0]);
            } else {
                push(&mut v, [1, r.below(ncalls + 1), r.range(0, 3), 0, 0]);
            }
        } else if x < 78 + p_drop {
            // (C19 profile) half of the dropped futures belong to calls that are suspended at a gate
            if profile == 1 && !held.is_empty() && r.chance(1, 2) {
                let i = r.below(held.len() as u64) as usize;
                push(&mut v, [2, held[i].0, 0, 0, 0]);
            } else {
                push(&mut v, [2, r.below(ncalls + 1), 0, 0, 0]);
            }
        } else if x < 78 + p_drop + p_cut && !cut_done && k > 2 {
            cut_done = true;
            push(&mut v, [3, 0, 0, 0, 0]);
        } else if x < 78 + p_drop + p_cut + p_dropcl && k > 3 {
            push(&mut v, [4, r.below(ncl + 1), 0, 0, 0]);
        } else if x < 78 + p_drop + p_cut + p_dropcl + p_stop && !stop_done && k > 1 {
            stop_done = true;
            push(&mut v, [7, 0, 0, 0, 0]);
        } else if mode == 1 {
            push(&mut v, [6, 0, 0, 0, 0]);
        } else if !held.is_empty() {
            let (c, g) = held.remove(0);
            push(&mut v, [1, c, g, 0, 0]);
        }
        if mode == 1 {
            // frames move only when the case says so
            for _ in 0..r.range(0, 3) {
                push(&mut v, [5, r.below(2), r.range(1, 4), 0, 0]);
            }
        }
    }
    // ending: usually everything is released and the clients go away
    if r.chance(3, 4) {
        for (c, g) in held.drain(..) {
            push(&mut v, [1, c, g, 0, 0]);
        }
    }
    if r.chance(2, 3) {
        for c in parked.drain(..) {
            push(&mut v, [8, c, 0, 0, 0]);
        }
    }
    if r.chance(1, 2) {
        for cl in 0..ncl {
            push(&mut v, [4, cl, 0, 0, 0]);
        }
    }
    v
}

/// The known classes, as small scripted cases: a call whose reply exceeds the client's limit (F6) /
/// whose request exceeds it (F14), surrounded by ordinary calls of the same and of other clients.
fn gen_known(r: &mut Rng, which: u64) -> Vec<u128> {
    let flav = if which == 1 { *r.pick(&[1u64, 2, 3, 4, 4, 5]) } else { *r.pick(&[1u64, 2, 3, 4, 5]) };
    let spawn = r.below(2);
    // F14: every client on its own port (the model has no notion of clones sharing one)
    let (ncl, cmode) = if which == 2 { (r.range(1, 3), 1) } else { (r.range(2, 4), r.below(2)) };
    let mut v: Vec<u128> = vec![0, flav as u128, spawn as u128, 0, ncl as u128, cmode as u128, 0, 2000];
    let push = |v: &mut Vec<u128>, o: [u64; 5]| v.extend(o.iter().map(|x| *x as u128));
    let before = r.range(0, 3);
    let after = r.range(1, 4);
    for _ in 0..before {
        push(&mut v, [0, r.below(ncl), pick_method(r, flav).min(3), r.below(20), 0]);
    }
    let victim = r.below(ncl);
    push(&mut v, [0, victim, pick_method(r, flav).min(3), r.below(20), if which == 1 { 16 } else { 32 }]);
    for k in 0..after {
        let cl = if k == 0 { victim } else { r.below(ncl) };
        push(&mut v, [0, cl, pick_method(r, flav).min(3), r.below(20), 0]);
    }
    v
}

/// "The callee goes away": some calls (a few of them held at a gate, so that they are executing or queued
/// behind an executing one), then the stop op -- the future of `serve()` resp. the provider of the remote
/// function is dropped --, then more calls through every client, gate openings, dropped calls.  Every call,
/// pending or later, local or remote, must still get exactly one outcome.
fn gen_gone(r: &mut Rng, mode: u64) -> Vec<u128> {
    let flav = *r.pick(&[0u64, 1, 2, 3, 4, 4, 5, 6, 6, 7, 7, 8]);
    let spawn = r.below(2);
    let pol = *r.pick(&[0u64, 0, 1, 2]);
    let ncl = if matches!(flav, 0 | 7 | 8) { 1 } else { r.range(1, 3) };
    let cmode = if r.chance(1, 2) { 2 } else { r.below(2) };
    let defer = if mode == 1 && r.chance(2, 3) { r.next() | 1 } else { 0 };
    let mut v: Vec<u128> = vec![mode as u128, flav as u128, spawn as u128, pol as u128, ncl as u128, cmode as u128, defer as u128, 0];
    let push = |v: &mut Vec<u128>, o: [u64; 5]| v.extend(o.iter().map(|x| *x as u128));
    let mut ncalls = 0u64;
    let mut held: Vec<(u64, u64)> = Vec::new();
    let call = |r: &mut Rng, v: &mut Vec<u128>, ncalls: &mut u64, held: &mut Vec<(u64, u64)>, p_hold: u64| {
        let mut fl = 0u64;
        if r.chance(p_hold, 4) {
            fl |= 1;
            held.push((*ncalls, 1));
        }
        if r.chance(p_hold, 6) {
            fl |= 2;
            held.push((*ncalls, 2));
        }
        push(v, [0, r.below(ncl), pick_method(r, flav), r.below(20), fl]);
        *ncalls += 1;
        if mode == 1 {
            for _ in 0..r.range(0, 2) {
                push(v, [5, r.below(2), r.range(1, 4), 0, 0]);
            }
        }
    };
    for _ in 0..r.range(0, 4) {
        call(r, &mut v, &mut ncalls, &mut held, 2);
    }
    if mode == 1 && r.chance(1, 2) {
        push(&mut v, [6, 0, 0, 0, 0]);
    }
    push(&mut v, [7, 0, 0, 0, 0]);
    for _ in 0..r.range(1, 6) {
        let x = r.below(10);
        if x < 6 {
            call(r, &mut v, &mut ncalls, &mut held, 1);
        } else if x < 8 && !held.is_empty() {
            let i = r.below(held.len() as u64) as usize;
            let (c, g) = held.remove(i);
            push(&mut v, [1, c, g, 0, 0]);
        } else if x < 9 && ncalls > 0 {
            push(&mut v, [2, r.below(ncalls), 0, 0, 0]);
        } else {
            push(&mut v, [if mode == 1 { 6 } else { 4 }, r.below(ncl), 0, 0, 0]);
        }
    }
    if r.chance(2, 3) {
        for (c, g) in held.drain(..) {
            push(&mut v, [1, c, g, 0, 0]);
        }
    }
    v
}

/// "The concurrency limit of a remote function changes while invocations are in flight": an `RFn` with 1-4
/// clients; calls held at their gates, `set_max_concurrency` with small limits in between, gate openings, a few
/// parked or dropped call futures.  Every call still gets its outcome, and never more invocations run at a
/// time than the limit in force when they were made allows.
fn gen_limit(r: &mut Rng, mode: u64) -> Vec<u128> {
    let ncl = r.range(1, 4);
    let cmode = if r.chance(1, 3) { 2 } else { r.below(2) };
    let defer = if mode == 1 && r.chance(2, 3) { r.next() | 1 } else { 0 };
    let mut v: Vec<u128> = vec![mode as u128, 6, 0, 0, ncl as u128, cmode as u128, defer as u128, 0];
    let push = |v: &mut Vec<u128>, o: [u64; 5]| v.extend(o.iter().map(|x| *x as u128));
    let mut ncalls = 0u64;
    let mut held: Vec<(u64, u64)> = Vec::new();
    let mut parked: Vec<u64> = Vec::new();
    for _ in 0..r.range(4, 18) {
        let x = r.below(10);
        if x < 5 || ncalls == 0 {
            let mut fl = 0u64;
            if r.chance(1, 2) {
                fl |= 1;
                held.push((ncalls, 1));
            }
            if r.chance(1, 5) {
                fl |= 2;
                held.push((ncalls, 2));
            }
            if r.chance(1, 10) {
                fl |= 256;
                parked.push(ncalls);
            }
            push(&mut v, [0, r.below(ncl), 0, r.below(20), fl]);
            ncalls += 1;
        } else if x < 7 {
            push(&mut v, [9, *r.pick(&[1u64, 1, 2, 2, 3, 4, 32]), 0, 0, 0]);
        } else if x < 9 && !held.is_empty() {
            let i = r.below(held.len() as u64) as usize;
            let (c, g) = held.remove(i);
            push(&mut v, [1, c, g, 0, 0]);
        } else if !parked.is_empty() {
            push(&mut v, [8, parked.remove(0), 0, 0, 0]);
        } else {
            push(&mut v, [2, r.below(ncalls), 0, 0, 0]);
        }
        if mode == 1 {
            for _ in 0..r.range(0, 2) {
                push(&mut v, [5, r.below(2), r.range(1, 4), 0, 0]);
            }
        }
    }
    if r.chance(3, 4) {
        for (c, g) in held.drain(..) {
            push(&mut v, [1, c, g, 0, 0]);
        }
    }
    // calls made after everything before them has finished
    for _ in 0..r.range(0, 2) {
        push(&mut v, [0, r.below(ncl), 0, r.below(20), 0]);
    }
    v
}

pub fn gen(r: &mut Rng, i: usize) -> Vec<Vec<u128>> {
    let mode = if i % 3 == 2 { 1 } else { 0 };
    if i % 8 == 7 {
        return vec![gen_gone(r, mode)];
    }
    if i % 16 == 11 {
        return vec![gen_limit(r, mode)];
    }
    vec![gen_case(r, mode, 0)]
}

/// "The caller of a by-value method goes away": the consuming server flavour (trait with `self` methods, one
/// client); a few `&self` / `&mut self` calls, then a by-value call (cancellable or no_cancel, any attribute
/// layout) that is queued behind a suspended call and / or suspended itself before or after its effect; its
/// caller drops the call future, loses the connection, or stays; then the gates open.  A cancellable by-value
/// method is abandoned like any other (and `serve()` returns), a no_cancel one runs to completion.
fn gen_consume(r: &mut Rng, mode: u64) -> Vec<u128> {
    let pol = *r.pick(&[0u64, 0, 1, 2]);
    let cmode = if r.chance(1, 4) { 2 } else { r.below(2) };
    let defer = if mode == 1 && r.chance(2, 3) { r.next() | 1 } else { 0 };
    let mut v: Vec<u128> = vec![mode as u128, 0, 0, pol as u128, 1, cmode as u128, defer as u128, 0];
    let push = |v: &mut Vec<u128>, o: [u64; 5]| v.extend(o.iter().map(|x| *x as u128));
    let frames = |r: &mut Rng, v: &mut Vec<u128>| {
        if mode == 1 {
            for _ in 0..r.range(0, 3) {
                v.extend([5u128, r.below(2) as u128, r.range(1, 4) as u128, 0, 0]);
            }
        }
    };
    let mut ncalls = 0u64;
    for _ in 0..r.range(0, 3) {
        push(&mut v, [0, 0, *r.pick(&[0u64, 1, 2, 3]) + 8 * r.below(4), r.below(20), 0]);
        ncalls += 1;
        frames(r, &mut v);
    }
    // optionally a suspended `&self` call whose future is dropped (the client is free again), so that the
    // by-value request is queued behind an executing method
    let blocker = if r.chance(1, 3) {
        push(&mut v, [0, 0, 1 + 8 * r.below(4), r.below(20), 1]);
        push(&mut v, [2, ncalls, 0, 0, 0]);
        ncalls += 1;
        frames(r, &mut v);
        Some(ncalls - 1)
    } else {
        None
    };
    let hold = *r.pick(&[0u64, 1, 1, 2, 3]);
    let val = ncalls;
    push(&mut v, [0, 0, *r.pick(&[4u64, 4, 4, 5]) + 8 * r.below(4), r.below(20), hold]);
    frames(r, &mut v);
    match r.below(6) {
        0 | 1 | 2 => push(&mut v, [2, val, 0, 0, 0]),
        3 => push(&mut v, [3, 0, 0, 0, 0]),
        4 => push(&mut v, [7, 0, 0, 0, 0]),
        _ => {}
    }
    frames(r, &mut v);
    if let Some(b) = blocker {
        if r.chance(3, 4) {
            push(&mut v, [1, b, 1, 0, 0]);
            frames(r, &mut v);
        }
    }
    for g in [1u64, 2] {
        if hold & g != 0 && r.chance(3, 4) {
            push(&mut v, [1, val, g, 0, 0]);
            frames(r, &mut v);
        }
    }
    if r.chance(1, 2) {
        push(&mut v, [0, 0, r.below(6), r.below(20), 0]);
    }
    v
}

pub fn gen_cancel(r: &mut Rng, i: usize) -> Vec<Vec<u128>> {
    if i % 24 == 23 {
        return vec![gen_known(r, 1 + (i / 24 % 2) as u64)];
    }
    let mode = if i % 3 == 2 { 1 } else { 0 };
    if i % 12 == 7 {
        return vec![gen_gone(r, mode)];
    }
    if i % 24 == 11 {
        return vec![gen_limit(r, mode)];
    }
    if i % 24 == 19 {
        return vec![gen_consume(r, mode)];
    }
    vec![gen_case(r, mode, 1)]
}

pub fn run_cancel(seed: u64, count: usize, extra: &[String], out: &mut impl std::io::Write) {
    let seed = Rng::new(seed ^ 0xC19).next();
    crate::drive(COMP_CANCEL, seed, count, extra, out, gen_cancel, exec);
}

pub fn run(seed: u64, count: usize, extra: &[String], out: &mut impl std::io::Write) {
    let seed = Rng::new(seed ^ 0xC12).next();
    crate::drive(COMP, seed, count, extra, out, gen, exec);
}
