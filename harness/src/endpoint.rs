//! C07/C08/C10/C11: ONE real chmux endpoint whose remote peer is the harness: it performs the
//! handshake, injects arbitrary protocol messages (honest sequences and hostile ones) and makes local
//! API calls; compared with the endpoint model (`Run/RunEndpoint.v`, component 7).
use crate::{
    codec::{msg_to_nums, nums_to_msg},
    conn::{group, quiesce},
    rng::Rng,
    transport::{Net, TErr},
};
use bytes::Bytes;
use futures::FutureExt;
use remoc::chmux::{
    self,
    verif::{encode, ExchangedCfg, MultiplexMsg},
    Cfg, ChMux, ChMuxError, Client, ConnectError, Listener, PortReq, Receiver, Request, Sender,
};
use std::{
    collections::HashMap,
    io::Write,
    sync::{Arc, Mutex},
};
use tokio::task::JoinHandle;

const COMP: u128 = 7;
const BASE: u128 = 1_000_000;

struct World {
    net: Net,
    run: Option<JoinHandle<Result<(), ChMuxError<TErr, TErr>>>>,
    status: u128,
    client: Option<Client>,
    listener: Option<Listener>,
    /// actual local port number -> canonical number (BASE + order of first appearance)
    rename: HashMap<u32, u128>,
    actual: Vec<u32>,
    senders: HashMap<u128, Sender>,
    receivers: HashMap<u128, Receiver>,
    held: HashMap<u32, Request>,
    connect_results: Arc<Mutex<Vec<Option<u128>>>>,
    new_ports: Arc<Mutex<Vec<(Sender, Receiver)>>>,
    seen: usize,
    panicked: bool,
    peer_version: u8,
    c09: Option<String>,
}

impl World {
    fn canon(&mut self, actual: u32) -> u128 {
        if let Some(c) = self.rename.get(&actual) {
            return *c;
        }
        let c = BASE + self.actual.len() as u128;
        self.rename.insert(actual, c);
        self.actual.push(actual);
        c
    }
    fn to_actual(&self, canon: u128) -> u32 {
        if canon >= BASE {
            match self.actual.get((canon - BASE) as usize) {
                Some(a) => *a,
                // a local number that has not appeared: some number that is not in use
                None => 0xdead_0000u32.wrapping_add((canon - BASE) as u32),
            }
        } else {
            canon as u32
        }
    }

    async fn settle(&mut self) {
        for _ in 0..3 {
            quiesce().await;
            // collect ports handed out by accepts/connects
            let mut np = self.new_ports.lock().unwrap();
            let ports: Vec<(Sender, Receiver)> = np.drain(..).collect();
            drop(np);
            for (tx, rx) in ports {
                let c = self.canon(tx.local_port());
                self.senders.insert(c, tx);
                self.receivers.insert(c, rx);
            }
        }
        if let Some(h) = &mut self.run {
            if h.is_finished() {
                let r = h.now_or_never();
                self.status = match r {
                    Some(Ok(Ok(()))) => 1,
                    Some(Ok(Err(ChMuxError::Reset))) => 2,
                    Some(Ok(Err(ChMuxError::Protocol(_)))) => 3,
                    Some(Ok(Err(_))) => 4,
                    Some(Err(_)) => {
                        self.panicked = true;
                        9
                    }
                    None => 0,
                };
                self.run = None;
            }
        }
    }

    fn observe(&mut self) -> Vec<u128> {
        let frames = self.net.a2b.log_from(self.seen);
        let msgs = group(&frames);
        let mut used = 0;
        let mut out = vec![200];
        // maximal runs of Rejected messages are compared sorted by port (the helper tasks that refuse requests
        // dropped together run in no particular order)
        let mut run: Vec<(u32, Vec<u128>)> = Vec::new();
        for m in &msgs {
            used += m.frames;
            let renamed = match &m.msg {
                MultiplexMsg::OpenPort { client_port, wait, id } => {
                    if self.peer_version < 3 && id.is_some() {
                        self.c09 = Some("FAIL: C09 a port id sent in an open request to a version-2 peer".into());
                    }
                    let c = self.canon(*client_port);
                    let mut v = vec![4, c, *wait as u128];
                    match id {
                        // the id of a client request is its own port number
                        Some(i) => v.extend([1, if *i == *client_port { c } else { *i as u128 }]),
                        None => v.extend([0, 0]),
                    }
                    v
                }
                MultiplexMsg::PortOpened { client_port, server_port } => {
                    let c = self.canon(*server_port);
                    vec![5, *client_port as u128, c]
                }
                MultiplexMsg::PortData { port, first, last, wait, ports, ids } => {
                    if self.peer_version < 3 && ids.is_some() {
                        self.c09 = Some("FAIL: C09 port ids sent inside a port batch to a version-2 peer".into());
                    }
                    let cs: Vec<u128> = ports.iter().map(|p| self.canon(*p)).collect();
                    let mut v = vec![8, *port as u128, *first as u128, *last as u128, *wait as u128, ids.is_some() as u128, cs.len() as u128];
                    v.extend(cs.iter().copied());
                    if let Some(ids) = ids {
                        v.push(ids.len() as u128);
                        for (j, i) in ids.iter().enumerate() {
                            v.push(if ports.get(j) == Some(i) { cs[j] } else { *i as u128 });
                        }
                    }
                    v
                }
                MultiplexMsg::PortCredits { .. } | MultiplexMsg::Ping => continue,
                MultiplexMsg::Rejected { client_port, .. } => {
                    let mut v = msg_to_nums(&m.msg);
                    v.push(0);
                    v.push(201);
                    run.push((*client_port, v));
                    continue;
                }
                other => msg_to_nums(other),
            };
            run.sort_by_key(|x| x.0);
            for (_, v) in run.drain(..) {
                out.extend(v);
            }
            out.extend(renamed);
            out.push(m.payload.as_ref().map(|p| p.len() as u128).unwrap_or(0));
            out.push(201);
        }
        run.sort_by_key(|x| x.0);
        for (_, v) in run.drain(..) {
            out.extend(v);
        }
        self.seen += used;
        out.extend([202, self.status]);
        out
    }

    fn inject(&self, msg: &MultiplexMsg, paylen: usize) {
        self.net.b2a.inject(Bytes::from(encode(msg)));
        if let MultiplexMsg::Data { .. } = msg {
            self.net.b2a.inject(Bytes::from(vec![7u8; paylen]));
        }
    }
}

impl World {
    /// translate the local-port fields of a message the endpoint is going to receive (canonical -> actual)
    fn localise(&self, m: MultiplexMsg) -> MultiplexMsg {
        use MultiplexMsg::*;
        let t = |p: u32| -> u32 {
            let c = p as u128;
            if c >= BASE && c < BASE + 500_000 { self.to_actual(c) } else { p }
        };
        match m {
            PortOpened { client_port, server_port } => PortOpened { client_port: t(client_port), server_port },
            Rejected { client_port, no_ports } => Rejected { client_port: t(client_port), no_ports },
            Data { port, first, last } => Data { port: t(port), first, last },
            PortData { port, first, last, wait, ports, ids } => PortData { port: t(port), first, last, wait, ports, ids },
            PortCredits { port, credits } => PortCredits { port: t(port), credits },
            SendFinish { port } => SendFinish { port: t(port) },
            ReceiveClose { port } => ReceiveClose { port: t(port) },
            ReceiveFinish { port } => ReceiveFinish { port: t(port) },
            m => m,
        }
    }
}

fn resp_code(r: &Result<(Sender, Receiver), ConnectError>) -> u128 {
    match r {
        Ok(_) => 1,
        Err(ConnectError::Rejected) => 2,
        Err(ConnectError::RemotePortsExhausted) => 3,
        Err(ConnectError::ChMux) => 4,
        Err(ConnectError::LocalPortsExhausted) => 5,
        Err(ConnectError::TooManyPendingConnectionRequests) => 6,
    }
}

/// C08, oracle only (input [900; seed]; the model answers [98] like the harness): a hostile peer starts a port message
/// and keeps sending continuation chunks with fresh ports, never the last one.  The receiver must give up with an
/// error as soon as the message exceeds max_received_ports (and refuse the requests); it must not accumulate
/// requests without bound.  Also: one batch naming a port twice must end the connection.
fn exec_port_flood(seed: u64) -> (Vec<u128>, String, String) {
    let mut r = Rng::new(seed);
    let rt = crate::conn::runtime();
    let (sig, oracle) = rt.block_on(async move {
        let maxp = r.range(1, 6) as usize;
        let per = r.range(1, 3) as usize;
        let dup = r.chance(1, 4);
        let ver: u8 = if r.chance(1, 4) { 2 } else { 3 };
        // third kind: a local sender is blocked on flow credits when the peer violates the protocol; the protocol error
        // must reach that user too
        let blocked = !dup && r.chance(1, 3);
        // fourth kind: more open requests of one kind than the advertised connect queue, listener alive but idle
        let openflood = !dup && !blocked && r.chance(1, 3);
        let cq = r.range(1, 3) as u16;
        let sig = format!("ep:flood:{}", if dup { "dup" } else if blocked { "blocked" } else if openflood { "opens" } else { "nolast" });
        let cfg = Cfg { connection_timeout: None, max_received_ports: maxp, max_ports: 1000, connect_queue: if openflood { cq } else { 4 }, ..Default::default() };
        let net = Net::new(true);
        let hello = MultiplexMsg::Hello {
            version: ver,
            cfg: ExchangedCfg { connection_timeout: None, chunk_size: 1 << 16, port_receive_buffer: if blocked { 16 } else { 1 << 20 }, connect_queue: 1000 },
        };
        net.b2a.inject(Bytes::from(encode(&MultiplexMsg::Reset)));
        net.b2a.inject(Bytes::from(encode(&hello)));
        let (mux, _client, mut listener) = ChMux::new(cfg, net.a2b.sink(), net.b2a.stream()).await.expect("handshake");
        let mut run = tokio::spawn(mux.run());
        quiesce().await;
        if openflood {
            let wait = r.chance(1, 2);
            // cq + 1 requests fit (the extra slot is for the client-dropped marker); one more is a violation
            for i in 0..(cq as u32 + 2) {
                if run.is_finished() {
                    return (sig, format!("FAIL: C08 the connection ended after only {i} open requests with a connect queue of {cq}"));
                }
                let p = 50 + i;
                net.b2a.inject(Bytes::from(encode(&MultiplexMsg::OpenPort { client_port: p, wait, id: if ver >= 3 { Some(p) } else { None } })));
                quiesce().await;
            }
            quiesce().await;
            if !run.is_finished() {
                return (sig, format!("FAIL: C08 {} unanswered open requests (wait = {wait}) were accepted although the connect queue is {cq}: the request limit is not enforced", cq + 2));
            }
            let _keep = &listener;
            return match (&mut run).await {
                Ok(Err(ChMuxError::Protocol(_))) => (sig, "ok".into()),
                Ok(other) => (sig, format!("FAIL: C08 too many open requests ended the dispatcher with {:?} instead of a protocol error", other.map_err(|e| e.to_string()))),
                Err(_) => (sig, "FAIL: C08 the dispatcher panicked".into()),
            };
        }
        // the peer opens a port, the endpoint accepts
        net.b2a.inject(Bytes::from(encode(&MultiplexMsg::OpenPort { client_port: 5, wait: true, id: if ver >= 3 { Some(5) } else { None } })));
        quiesce().await;
        let acc = tokio::spawn(async move {
            let r = listener.accept().await;
            (listener, r)
        });
        quiesce().await;
        quiesce().await;
        if !acc.is_finished() {
            return (sig, "FAIL: harness: accept pending".into());
        }
        let (_listener, accepted) = acc.await.unwrap();
        let (_tx, mut rx) = match accepted {
            Ok(Some(p)) => p,
            _ => return (sig, "FAIL: harness: accept".into()),
        };
        quiesce().await;
        let local = rx.local_port();
        let mut next = 100u32;
        if blocked {
            let mut tx = _tx;
            let kind = r.below(3);
            let send = tokio::spawn(async move {
                let res = match kind {
                    0 => tx.send(Bytes::from(vec![1u8; 200])).await.is_err(),
                    1 => {
                        let alloc = tx.port_allocator();
                        let mut ports = Vec::new();
                        for _ in 0..8 {
                            ports.push(PortReq::new(alloc.allocate().await));
                        }
                        tx.connect(ports, true).await.is_err()
                    }
                    _ => {
                        let mut cs = tx.send_chunks();
                        let mut failed = false;
                        for _ in 0..8 {
                            match cs.send(Bytes::from(vec![2u8; 10])).await {
                                Ok(next) => cs = next,
                                Err(_) => {
                                    failed = true;
                                    break;
                                }
                            }
                        }
                        failed
                    }
                };
                res
            });
            quiesce().await;
            quiesce().await;
            if send.is_finished() {
                return (sig, "FAIL: harness: the send was not blocked".into());
            }
            // the peer violates the protocol
            let bad = match r.below(3) {
                0 => MultiplexMsg::Data { port: 99_999, first: true, last: true },
                1 => MultiplexMsg::Hello { version: ver, cfg: ExchangedCfg { connection_timeout: None, chunk_size: 1 << 16, port_receive_buffer: 16, connect_queue: 1000 } },
                _ => MultiplexMsg::PortCredits { port: 99_998, credits: 5 },
            };
            net.b2a.inject(Bytes::from(encode(&bad)));
            if let MultiplexMsg::Data { .. } = bad {
                net.b2a.inject(Bytes::from(vec![0u8; 3]));
            }
            for _ in 0..4 {
                quiesce().await;
            }
            if !run.is_finished() {
                return (sig, "FAIL: C08 a protocol violation did not end the connection".into());
            }
            if !send.is_finished() {
                return (sig, "FAIL: C08 a sender blocked on flow credits does not observe the protocol error that ended the connection (it hangs)".into());
            }
            return match send.await {
                Ok(true) => (sig, "ok".into()),
                Ok(false) => (sig, "FAIL: C08 a blocked send completed successfully after the connection ended with a protocol error".into()),
                Err(_) => (sig, "FAIL: C08 panic in a send".into()),
            };
        }
        if dup {
            let ids = if ver >= 3 { Some(vec![7, 7]) } else { None };
            net.b2a.inject(Bytes::from(encode(&MultiplexMsg::PortData { port: local, first: true, last: true, wait: false, ports: vec![7, 7], ids })));
            quiesce().await;
            quiesce().await;
            if !run.is_finished() {
                // the user answers what it got
                if let Some(Ok(Some(chmux::Received::Requests(reqs)))) = rx.recv_any().now_or_never() {
                    for q in reqs {
                        q.reject(false).await;
                    }
                }
                quiesce().await;
                return (sig, "FAIL: C08 a port batch naming the same port twice was accepted (two requests for one remote port)".into());
            }
            return match run.await {
                Ok(Err(ChMuxError::Protocol(_))) => (sig, "ok".into()),
                Ok(other) => (sig, format!("FAIL: C08 duplicate port ended the dispatcher with {:?} instead of a protocol error", other.map_err(|e| e.to_string()))),
                Err(_) => (sig, "FAIL: C08 the dispatcher panicked".into()),
            };
        }
        let mut sent_ports = 0usize;
        let mut first = true;
        for _ in 0..(maxp / per + 6) {
            let ports: Vec<u32> = (0..per).map(|_| { next += 1; next }).collect();
            let ids = if ver >= 3 { Some(ports.clone()) } else { None };
            sent_ports += ports.len();
            net.b2a.inject(Bytes::from(encode(&MultiplexMsg::PortData { port: local, first, last: false, wait: false, ports, ids })));
            first = false;
            quiesce().await;
            match rx.recv_any().now_or_never() {
                None => {
                    if sent_ports > maxp {
                        return (sig, format!("FAIL: C08 the receiver goes on accumulating a port message of {sent_ports} ports although max_received_ports is {maxp} (unbounded buffering)"));
                    }
                }
                Some(Err(_)) => {
                    if sent_ports <= maxp {
                        return (sig, format!("FAIL: C08 receive error after {sent_ports} ports although max_received_ports is {maxp}"));
                    }
                    return (sig, "ok".into());
                }
                Some(Ok(_)) => return (sig, "FAIL: C08 an unfinished port message was delivered".into()),
            }
            if run.is_finished() {
                return (sig, "FAIL: C08 the dispatcher ended during a well-formed (if unfinished) port message".into());
            }
        }
        (sig, "FAIL: C08 no verdict".into())
    });
    (vec![98], sig, oracle)
}

/// input: [chunk; buffer; connect_queue; remote_buffer; remote_version; max_ports; ops...]
pub fn exec(inp: &[u128]) -> (Vec<u128>, String, String) {
    if inp.len() == 2 && inp[0] == 900 {
        return exec_port_flood(inp[1] as u64);
    }
    if inp.len() < 6 {
        return (vec![98], "ep:malformed".into(), "ok".into());
    }
    let (ck, bu, cq, rb, ver, maxp) = (inp[0] as u32, inp[1] as u32, inp[2] as u16, inp[3] as u32, inp[4] as u8, inp[5] as u32);
    let ops = inp[6..].to_vec();
    let rt = crate::conn::runtime();
    let (out, sig, oracle) = rt.block_on(async move {
        let cfg = Cfg {
            connection_timeout: None,
            chunk_size: ck,
            receive_buffer: bu,
            connect_queue: cq,
            max_ports: maxp,
            max_data_size: 1 << 20,
            ..Default::default()
        };
        let net = Net::new(true);
        // the harness is the peer: it answers the handshake itself
        let hello = MultiplexMsg::Hello {
            version: ver,
            cfg: ExchangedCfg { connection_timeout: None, chunk_size: 1 << 16, port_receive_buffer: rb, connect_queue: 1000 },
        };
        net.b2a.inject(Bytes::from(encode(&MultiplexMsg::Reset)));
        net.b2a.inject(Bytes::from(encode(&hello)));
        let (mux, client, listener) = ChMux::new(cfg, net.a2b.sink(), net.b2a.stream()).await.expect("handshake");
        let run = tokio::spawn(mux.run());
        let seen = net.a2b.log_len();
        let mut w = World {
            net,
            run: Some(run),
            status: 0,
            client: Some(client),
            listener: Some(listener),
            rename: HashMap::new(),
            actual: Vec::new(),
            senders: HashMap::new(),
            receivers: HashMap::new(),
            held: HashMap::new(),
            connect_results: Arc::new(Mutex::new(Vec::new())),
            new_ports: Arc::new(Mutex::new(Vec::new())),
            seen,
            panicked: false,
            peer_version: ver,
            c09: None,
        };
        w.settle().await;
        let mut out = Vec::new();
        let mut sigs: Vec<&'static str> = Vec::new();
        let mut empty_batch_pending = false;
        let mut c08: Option<String> = None;
        let mut c10: Option<String> = None;
        let mut late_open: Option<u32> = None;
        let mut i = 0;
        while i + 1 < ops.len() {
            let code = ops[i];
            let n = ops[i + 1] as usize;
            let args: Vec<u128> = ops[i + 2..(i + 2 + n).min(ops.len())].to_vec();
            i += 2 + n;
            let mut this_req: Option<usize> = None;
            if w.status == 0 {
                match (code, args.as_slice()) {
                    (1, [wait]) => {
                        sigs.push("connect");
                        if let Some(client) = &w.client {
                            let idx = {
                                let mut cr = w.connect_results.lock().unwrap();
                                cr.push(None);
                                cr.len() - 1
                            };
                            this_req = Some(idx);
                            let results = w.connect_results.clone();
                            let new_ports = w.new_ports.clone();
                            match client.connect_ext(None, *wait != 0).now_or_never() {
                                Some(Ok(conn)) => {
                                    tokio::spawn(async move {
                                        let r = conn.await;
                                        let code = resp_code(&r);
                                        if let Ok(p) = r {
                                            new_ports.lock().unwrap().push(p);
                                        }
                                        results.lock().unwrap()[idx] = Some(code);
                                    });
                                }
                                Some(Err(e)) => {
                                    results.lock().unwrap()[idx] = Some(resp_code(&Err(e)));
                                }
                                None => {
                                    results.lock().unwrap()[idx] = Some(7);
                                }
                            }
                        }
                    }
                    (2, []) => {
                        sigs.push("dropclients");
                        w.client = None;
                    }
                    (3, []) => {
                        sigs.push("droplistener");
                        w.listener = None;
                    }
                    (4, [_rp]) => {
                        sigs.push("take");
                        if let Some(l) = &mut w.listener {
                            if let Some(Ok(Some(req))) = l.inspect().now_or_never() {
                                // every request the harness sends carries its own port number as id, or no id (then the id
                                // is documented to be the remote port)
                                if req.id() != req.remote_port() && w.c09.is_none() {
                                    w.c09 = Some(format!("FAIL: C09 open request from remote port {} was handed to the listener with id {}", req.remote_port(), req.id()));
                                }
                                w.held.insert(req.remote_port(), req);
                            }
                        }
                    }
                    (5, [rp]) => {
                        sigs.push("accept");
                        if let Some(req) = w.held.remove(&(*rp as u32)) {
                            let new_ports = w.new_ports.clone();
                            tokio::spawn(async move {
                                if let Ok(p) = req.accept().await {
                                    new_ports.lock().unwrap().push(p);
                                }
                            });
                        }
                    }
                    (6, [rp, np]) => {
                        sigs.push("reject");
                        if let Some(req) = w.held.remove(&(*rp as u32)) {
                            let np = *np != 0;
                            tokio::spawn(async move { req.reject(np).await });
                        }
                    }
                    (7, [rp]) => {
                        sigs.push("dropreq");
                        w.held.remove(&(*rp as u32));
                    }
                    (8, [k, n]) => {
                        sigs.push("send");
                        if let Some(tx) = w.senders.get_mut(&(BASE + *k)) {
                            let _ = tx.try_send(&Bytes::from(vec![1u8; *n as usize]));
                        }
                    }
                    (9, [k]) => {
                        sigs.push("recv");
                        let mut bad: Option<String> = None;
                        if let Some(rx) = w.receivers.get_mut(&(BASE + *k)) {
                            if let Some(Ok(Some(chmux::Received::Requests(reqs)))) = rx.recv_any().now_or_never() {
                                for q in &reqs {
                                    if q.id() != q.remote_port() {
                                        bad = Some(format!("FAIL: C09 port request for remote port {} (sent with its own number as id, or with no id) was received with id {}", q.remote_port(), q.id()));
                                    }
                                }
                            }
                        }
                        if bad.is_some() && w.c09.is_none() {
                            w.c09 = bad;
                        }
                    }
                    (10, [k]) => {
                        sigs.push("closerx");
                        if let Some(rx) = w.receivers.get_mut(&(BASE + *k)) {
                            let _ = rx.close().now_or_never();
                        }
                    }
                    (11, [k]) => {
                        sigs.push("droprx");
                        w.receivers.remove(&(BASE + *k));
                    }
                    (12, [k]) => {
                        sigs.push("droptx");
                        w.senders.remove(&(BASE + *k));
                    }
                    (13, []) => {
                        sigs.push("terminate");
                        if let Some(c) = &w.client {
                            c.terminate();
                        } else if let Some(l) = &w.listener {
                            l.terminate();
                        }
                    }
                    (14, [k, n, wait]) => {
                        sigs.push("sendports");
                        if let Some(tx) = w.senders.get_mut(&(BASE + *k)) {
                            let alloc = tx.port_allocator();
                            let mut ports = Vec::new();
                            for _ in 0..*n {
                                if let Some(p) = alloc.try_allocate() {
                                    ports.push(PortReq::new(p));
                                }
                            }
                            if let Some(Ok(conns)) = tx.connect(ports, *wait != 0).now_or_never() {
                                for conn in conns {
                                    let idx = {
                                        let mut cr = w.connect_results.lock().unwrap();
                                        cr.push(None);
                                        cr.len() - 1
                                    };
                                    let results = w.connect_results.clone();
                                    let new_ports = w.new_ports.clone();
                                    tokio::spawn(async move {
                                        let r = conn.await;
                                        let code = resp_code(&r);
                                        if let Ok(p) = r {
                                            new_ports.lock().unwrap().push(p);
                                        }
                                        results.lock().unwrap()[idx] = Some(code);
                                    });
                                }
                            }
                        }
                    }
                    (20, [paylen, nums @ ..]) => {
                        // local-port fields (>= BASE) are translated to the actual numbers
                        if let Some(m) = nums_to_msg(nums).map(|m| w.localise(m)) {
                            sigs.push(match &m {
                                MultiplexMsg::OpenPort { .. } => "p:open",
                                MultiplexMsg::PortOpened { .. } => "p:opened",
                                MultiplexMsg::Rejected { .. } => "p:rejected",
                                MultiplexMsg::Data { .. } => "p:data",
                                MultiplexMsg::PortData { .. } => "p:portdata",
                                MultiplexMsg::PortCredits { .. } => "p:credits",
                                MultiplexMsg::SendFinish { .. } => "p:sendfin",
                                MultiplexMsg::ReceiveClose { .. } => "p:recvclose",
                                MultiplexMsg::ReceiveFinish { .. } => "p:recvfin",
                                MultiplexMsg::ClientFinish => "p:clientfin",
                                MultiplexMsg::ListenerFinish => "p:listenerfin",
                                MultiplexMsg::Goodbye => "p:goodbye",
                                _ => "p:other",
                            });
                            // C08: a port batch without ports costs no credits; if it is queued, a peer can make the
                            // endpoint buffer without bound.  It must end the connection.
                            if let MultiplexMsg::PortData { ports, .. } = &m {
                                if ports.is_empty() {
                                    empty_batch_pending = true;
                                }
                            }
                            // C10: an open request that arrives after the local listener was dropped has to be refused
                            if let MultiplexMsg::OpenPort { client_port, .. } = &m {
                                if w.listener.is_none() {
                                    late_open = Some(*client_port);
                                }
                            }
                            w.inject(&m, *paylen as usize);
                        }
                    }
                    _ => {}
                }
            }
            w.settle().await;
            out.extend(w.observe());
            if let Some(cp) = late_open.take() {
                if w.status == 0 && c10.is_none() {
                    let frames = w.net.a2b.log_from(0);
                    let answered = group(&frames).iter().any(|m| matches!(&m.msg, MultiplexMsg::Rejected { client_port, .. } | MultiplexMsg::PortOpened { client_port, .. } if *client_port == cp));
                    // (an endpoint that has already said Goodbye answers nothing any more)
                    let leaving = group(&frames).iter().any(|m| matches!(&m.msg, MultiplexMsg::Goodbye));
                    if !answered && !leaving {
                        c10 = Some(format!("FAIL: C10 the open request from remote port {cp}, which arrived after the local listener had been dropped, is never answered"));
                    }
                }
            }
            if empty_batch_pending {
                empty_batch_pending = false;
                if w.status == 0 && c08.is_none() {
                    c08 = Some("FAIL: C08 a port batch with no ports (which costs no flow credits) was accepted: the peer can make the endpoint queue such frames without bound".to_string());
                }
            }
            if let Some(idx) = this_req {
                let r = w.connect_results.lock().unwrap()[idx];
                out.push(match r {
                    None => 0,
                    Some(c) => c,
                });
            } else if code == 1 {
                out.push(9);
            }
        }
        // final report: outcomes of all connect requests
        w.settle().await;
        out.push(203);
        for r in w.connect_results.lock().unwrap().iter() {
            out.push(r.unwrap_or(0));
        }
        let mut oracle = "ok".to_string();
        if let Some(c) = &w.c09 {
            oracle = c.clone();
        }
        if let Some(c) = &c08 {
            oracle = c.clone();
        }
        if let Some(c) = &c10 {
            oracle = c.clone();
        }
        if w.panicked {
            oracle = "FAIL: C08 the dispatcher panicked".into();
        }
        // C06/C08: once the dispatcher has ended, no connect request may stay pending
        if w.status != 0 {
            // give the response tasks a chance
            quiesce().await;
            if w.connect_results.lock().unwrap().iter().any(|r| r.is_none()) {
                oracle = "FAIL: C06 a connect request is still pending after the dispatcher ended".into();
            }
        }
        let mut counts = std::collections::BTreeMap::new();
        for s in &sigs {
            *counts.entry(*s).or_insert(0usize) += 1;
        }
        let sig = counts.iter().map(|(k, v)| format!("{k}{}", (*v).min(2))).collect::<Vec<_>>().join(",");
        (out, format!("ep:st{}:{}", w.status, sig), oracle)
    });
    (out, sig, oracle)
}

fn push_op(v: &mut Vec<u128>, code: u128, args: &[u128]) {
    v.push(code);
    v.push(args.len() as u128);
    v.extend_from_slice(args);
}
fn push_msg(v: &mut Vec<u128>, paylen: u128, m: &MultiplexMsg) {
    let mut args = vec![paylen];
    args.extend(msg_to_nums(m));
    push_op(v, 20, &args);
}

/// shadow of what the generator believes the endpoint's state is (only to produce mostly-valid
/// sequences; the model decides what is expected)
#[derive(Default, Clone)]
struct PortShadow {
    canon: u128,
    remote: u32,
    tx_alive: bool,
    rx_alive: bool,
    rx_closed: bool,
    peer_tx_finished: bool,
    peer_rx_closed: bool,
    peer_rx_finished: bool,
}

pub fn gen(r: &mut Rng, i: usize) -> Vec<Vec<u128>> {
    let ck = *r.pick(&[4u128, 8, 64]);
    let bu = *r.pick(&[4u128, 8, 16, 64]);
    let cq = *r.pick(&[1u128, 2, 4]);
    let ver = *r.pick(&[2u128, 3, 3, 3]);
    let mut v = vec![ck, bu, cq, 1 << 20, ver, 1000];
    let hostile = i % 3 == 2;
    let nops = r.range(6, 40);
    let mut appeared: u128 = 0;
    let mut ports: Vec<PortShadow> = Vec::new();
    let mut connecting: Vec<u128> = Vec::new(); // canonical numbers of pending local connects
    let mut queued: Vec<u32> = Vec::new(); // remote ports of requests in the listener queue
    let mut queued_wait = true; // their kind
    let mut held: Vec<u32> = Vec::new();
    let mut next_remote: u32 = 10;
    let mut clients = true;
    let mut listener = true;
    let mut peer_clientfin = false;
    let mut peer_listenerfin = false;
    for _ in 0..nops {
        let c = r.below(100);
        match c {
            0..=9 if clients && !peer_listenerfin => {
                push_op(&mut v, 1, &[1]);
                connecting.push(BASE + appeared);
                appeared += 1;
            }
            10..=19 if !connecting.is_empty() => {
                // the peer answers a connect request
                let k = r.below(connecting.len() as u64) as usize;
                let p = connecting.remove(k);
                if r.chance(3, 4) {
                    let q = next_remote;
                    next_remote += 1;
                    push_op(&mut v, 20, &[0, 5, p, q as u128]);
                    ports.push(PortShadow { canon: p, remote: q, tx_alive: true, rx_alive: true, ..Default::default() });
                } else {
                    push_op(&mut v, 20, &[0, 6, p, r.below(2) as u128]);
                }
            }
            20..=29 if !peer_clientfin && (queued.len() as u128) < cq => {
                // the peer opens a port
                let q = next_remote;
                next_remote += 1;
                // (both kinds of request: the listener has one queue for each)
                // both kinds of request occur, but only one kind is queued at a time: the listener has one queue per kind and
                // picks between them in no particular order
                let w = if queued.is_empty() { r.chance(2, 3) } else { queued_wait };
                queued_wait = w;
                push_msg(&mut v, 0, &MultiplexMsg::OpenPort { client_port: q, wait: w, id: if ver >= 3 { Some(q) } else { None } });
                if listener {
                    queued.push(q);
                }
            }
            30..=37 if listener && !queued.is_empty() && !peer_clientfin => {
                let q = queued.remove(0);
                push_op(&mut v, 4, &[q as u128]);
                held.push(q);
            }
            38..=47 if !held.is_empty() => {
                let k = r.below(held.len() as u64) as usize;
                let q = held.remove(k);
                match r.below(4) {
                    0 => push_op(&mut v, 6, &[q as u128, r.below(2) as u128]),
                    1 => push_op(&mut v, 7, &[q as u128]),
                    _ => {
                        push_op(&mut v, 5, &[q as u128]);
                        ports.push(PortShadow { canon: BASE + appeared, remote: q, tx_alive: true, rx_alive: true, ..Default::default() });
                        appeared += 1;
                    }
                }
            }
            48..=85 if !ports.is_empty() => {
                let k = r.below(ports.len() as u64) as usize;
                let p = ports[k].clone();
                let idx = p.canon - BASE;
                let arms = if r.chance(1, 4) { 13 } else { 12 };
                match r.below(arms) {
                    // an empty port batch for a connected port (costs no credits: must be refused)
                    12 if !p.peer_tx_finished => {
                        if ver >= 3 {
                            push_op(&mut v, 20, &[0, 8, p.canon, 1, 1, 0, 1, 0, 0])
                        } else {
                            push_op(&mut v, 20, &[0, 8, p.canon, 1, 1, 0, 0, 0])
                        }
                    }
                    0 if p.tx_alive && !p.peer_rx_closed => push_op(&mut v, 8, &[idx, r.range(0, ck.min(16) as u64) as u128]),
                    1 if !p.peer_tx_finished => {
                        let n = r.range(0, ck.min(bu) as u64) as u128;
                        push_msg(&mut v, n, &MultiplexMsg::Data { port: 0, first: true, last: true });
                        // patch the port field with the canonical local number
                        let l = v.len();
                        v[l - 3] = p.canon;
                    }
                    2 if p.rx_alive => push_op(&mut v, 9, &[idx]),
                    3 if p.rx_alive && !p.rx_closed => {
                        push_op(&mut v, 10, &[idx]);
                        ports[k].rx_closed = true;
                    }
                    4 if p.rx_alive => {
                        push_op(&mut v, 11, &[idx]);
                        ports[k].rx_alive = false;
                    }
                    5 if p.tx_alive => {
                        push_op(&mut v, 12, &[idx]);
                        ports[k].tx_alive = false;
                    }
                    6 if !p.peer_tx_finished => {
                        push_op(&mut v, 20, &[0, 10, p.canon]);
                        ports[k].peer_tx_finished = true;
                    }
                    7 if !p.peer_rx_closed => {
                        push_op(&mut v, 20, &[0, 11, p.canon]);
                        ports[k].peer_rx_closed = true;
                    }
                    8 if !p.peer_rx_finished => {
                        push_op(&mut v, 20, &[0, 12, p.canon]);
                        ports[k].peer_rx_finished = true;
                        ports[k].peer_rx_closed = true;
                    }
                    9 => push_op(&mut v, 20, &[0, 9, p.canon, r.range(1, 100) as u128]),
                    11 if p.tx_alive && !p.peer_rx_closed => {
                        // a port batch to the peer
                        let n = r.range(1, 3) as u128;
                        push_op(&mut v, 14, &[idx, n, r.below(2) as u128]);
                        for _ in 0..n {
                            connecting.push(BASE + appeared);
                            appeared += 1;
                        }
                    }
                    10 if !p.peer_tx_finished => {
                        // a port batch from the peer
                        let n = r.range(1, 3);
                        let mut nums = vec![0u128, 8, p.canon, 1, 1, 1, (ver >= 3) as u128, n as u128];
                        let mut ids = vec![];
                        for _ in 0..n {
                            nums.push(next_remote as u128);
                            ids.push(next_remote as u128);
                            next_remote += 1;
                        }
                        if ver >= 3 {
                            nums.push(n as u128);
                            nums.extend(ids);
                        }
                        if 4 * n as u128 <= ck.min(bu) {
                            push_op(&mut v, 20, &nums);
                        }
                    }
                    _ => {}
                }
            }
            86..=88 if clients => {
                push_op(&mut v, 2, &[]);
                clients = false;
            }
            89..=91 if listener => {
                push_op(&mut v, 3, &[]);
                listener = false;
                queued.clear();
            }
            92..=93 if !peer_clientfin => {
                push_msg(&mut v, 0, &MultiplexMsg::ClientFinish);
                peer_clientfin = true;
            }
            94..=95 if !peer_listenerfin => {
                push_msg(&mut v, 0, &MultiplexMsg::ListenerFinish);
                peer_listenerfin = true;
            }
            96 => push_op(&mut v, 13, &[]),
            _ if hostile => {
                // hostile stream: anything, anywhere
                let local = if !ports.is_empty() && r.chance(2, 3) { ports[r.below(ports.len() as u64) as usize].canon } else { BASE + r.below(appeared as u64 + 2) as u128 };
                let rp = r.range(8, next_remote as u64 + 2) as u128;
                match r.below(14) {
                    0 => push_op(&mut v, 20, &[0, 5, local, rp]),
                    1 => push_op(&mut v, 20, &[0, 6, local, 0]),
                    2 => push_op(&mut v, 20, &[r.range(0, 2 * ck as u64 + 2) as u128, 7, local, 1, 1]),
                    3 => push_op(&mut v, 20, &[0, 10, local]),
                    4 => push_op(&mut v, 20, &[0, 11, local]),
                    5 => push_op(&mut v, 20, &[0, 12, local]),
                    6 => push_op(&mut v, 20, &[0, 9, local, *r.pick(&[0u128, 1, 4294967295])]),
                    7 if !peer_clientfin => {
                        let w = if queued.is_empty() { r.chance(1, 2) } else { queued_wait };
                        queued_wait = w;
                        push_op(&mut v, 20, &[0, 4, rp, w as u128, 1, rp]);
                        if listener {
                            queued.push(rp as u32);
                        }
                    }
                    8 => push_op(&mut v, 20, &[0, 8, local, 1, 1, 0, 0, 0]),
                    9 => push_op(&mut v, 20, &[0, 8, local, 1, 1, 0, 0, 2, rp, rp]),
                    10 => push_op(&mut v, 20, &[0, 1]),
                    11 => {
                        push_op(&mut v, 20, &[0, 13]);
                        peer_clientfin = true;
                    }
                    12 => push_op(&mut v, 20, &[0, 15]),
                    _ => push_op(&mut v, 20, &[0, 2, 3, 0, 0, 0, 4, 4, 1]),
                }
            }
            _ => {}
        }
    }
    if !hostile && r.chance(2, 3) {
        // orderly shutdown: everything dropped locally, the peer finishes everything
        for p in &ports {
            let idx = p.canon - BASE;
            if p.tx_alive {
                push_op(&mut v, 12, &[idx]);
            }
            if p.rx_alive {
                push_op(&mut v, 11, &[idx]);
            }
            if !p.peer_tx_finished {
                push_op(&mut v, 20, &[0, 10, p.canon]);
            }
            if !p.peer_rx_finished {
                push_op(&mut v, 20, &[0, 12, p.canon]);
            }
        }
        for q in held.drain(..) {
            push_op(&mut v, 7, &[q as u128]);
        }
        for p in connecting.drain(..) {
            push_op(&mut v, 20, &[0, 6, p, 0]);
        }
        if clients {
            push_op(&mut v, 2, &[]);
        }
        if listener {
            push_op(&mut v, 3, &[]);
        }
        if !peer_clientfin {
            push_msg(&mut v, 0, &MultiplexMsg::ClientFinish);
        }
        if !peer_listenerfin {
            push_msg(&mut v, 0, &MultiplexMsg::ListenerFinish);
        }
        push_msg(&mut v, 0, &MultiplexMsg::Goodbye);
    }
    if i % 10 == 4 {
        return vec![v, vec![900, r.next() as u128 >> 1]];
    }
    vec![v]
}

pub fn run(seed: u64, count: usize, extra: &[String], out: &mut impl Write) {
    crate::drive(COMP, seed ^ 0xC07, count, extra, out, gen, exec);
}
