//! Deterministic PRNG (splitmix64); every random choice of the harness derives from one state.
#[derive(Clone)]
pub struct Rng(pub u64);

impl Rng {
    pub fn new(seed: u64) -> Self {
        // scramble the seed so that neighbouring seeds give unrelated streams
        let mut z = seed.wrapping_add(0xD1B54A32D192ED03);
        z = (z ^ (z >> 30)).wrapping_mul(0xBF58476D1CE4E5B9);
        z = (z ^ (z >> 27)).wrapping_mul(0x94D049BB133111EB);
        Rng(z ^ (z >> 31))
    }
    pub fn next(&mut self) -> u64 {
        self.0 = self.0.wrapping_add(0x9E3779B97F4A7C15);
        let mut z = self.0;
        z = (z ^ (z >> 30)).wrapping_mul(0xBF58476D1CE4E5B9);
        z = (z ^ (z >> 27)).wrapping_mul(0x94D049BB133111EB);
        z ^ (z >> 31)
    }
    /// uniform in 0..n (n > 0)
    pub fn below(&mut self, n: u64) -> u64 {
        self.next() % n
    }
    pub fn range(&mut self, lo: u64, hi_incl: u64) -> u64 {
        if hi_incl < lo {
            return lo;
        }
        lo + self.below(hi_incl - lo + 1)
    }
    pub fn chance(&mut self, num: u64, den: u64) -> bool {
        self.below(den) < num
    }
    pub fn pick<'a, T>(&mut self, xs: &'a [T]) -> &'a T {
        &xs[self.below(xs.len() as u64) as usize]
    }
    /// a u32 drawn around boundaries
    pub fn u32b(&mut self) -> u32 {
        match self.below(8) {
            0 => 0,
            1 => 1,
            2 => u32::MAX,
            3 => u32::MAX - 1,
            4 => self.below(300) as u32,
            5 => 1u32 << self.below(32),
            6 => (1u32 << self.below(32)).wrapping_sub(1),
            _ => self.next() as u32,
        }
    }
    pub fn fork(&mut self) -> Rng {
        Rng::new(self.next())
    }
}
