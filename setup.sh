#!/bin/sh
# Build the framework from files on disk only (offline): generated facts, Coq development (full .vo),
# extracted OCaml model runner, Rust harness against /repo with --cfg remoc_verif.
set -e
cd "$(dirname "$0")"
export CARGO_NET_OFFLINE=true
python3 tools/gen_from_source.py
sh coq/gen_project.sh
( cd coq && timeout 7200 make -j16 ) > /dev/null
sh mrun/build.sh
[ -f harness/Cargo.lock ] || cp /repo/Cargo.lock harness/Cargo.lock
sed "s#@REPO@#${VERIF_REPO:-/repo}#" harness/Cargo.toml.in > harness/Cargo.toml
( cd harness && cargo build --release --offline 2>&1 | tail -3 )
echo setup done
