#!/usr/bin/env python3
"""tools/fold_confirm.py <log>...: record the outcome of tools/confirm_seed.sh runs (one JSON line each) in the seeds' meta.json."""
import json, os, re, sys, subprocess
ROOT = os.path.abspath(os.path.join(os.path.dirname(os.path.abspath(__file__)), ".."))
for log in sys.argv[1:]:
    for line in open(log):
        line = line.strip()
        if not line.startswith("{"):
            continue
        try:
            r = json.loads(line)
        except Exception:
            continue
        sd = r["seed"]
        m = re.search(r"seed_(C\d\d)/out/(\d)$", sd)
        name = f"{m.group(1)}-{m.group(2)}" if m else os.path.basename(sd)
        mp = os.path.join(ROOT, "seeded", name, "meta.json")
        if not os.path.exists(mp):
            print("no meta for", name); continue
        meta = json.load(open(mp))
        meta["confirmed"] = {
            "how": "tools/confirm_seed.sh in a scratch worktree of /repo at " + r.get("repo_head", "?")[:7],
            "demo_passes_without_change": r.get("demo_without_rc") == 0,
            "demo_fails_with_change": r.get("demo_with_rc") not in (0, None),
            "existing_suite_with_change": r.get("suite_with", ""),
            "demo_output_with_change": r.get("demo_with", "")[:300],
        }
        json.dump(meta, open(mp, "w"), indent=1)
        print(name, meta["confirmed"]["demo_passes_without_change"], meta["confirmed"]["demo_fails_with_change"], meta["confirmed"]["existing_suite_with_change"])
subprocess.run([sys.executable, os.path.join(ROOT, "tools", "gen_seeded_readme.py")])
