#!/usr/bin/env python3
"""Regenerates seeded/README.md from seeded/*/meta.json."""
import json, os, glob
ROOT = os.path.abspath(os.path.join(os.path.dirname(os.path.abspath(__file__)), ".."))
rows = []
for d in sorted(glob.glob(os.path.join(ROOT, "seeded", "*"))):
    mp = os.path.join(d, "meta.json")
    if not os.path.exists(mp):
        continue
    m = json.load(open(mp))
    det = m.get("detection", {})
    c = m.get("confirmed")
    conf = "-" if not c else ("yes" if c.get("demo_passes_without_change") and c.get("demo_fails_with_change") else
                              ("demo passes with the change on HEAD" if c.get("demo_passes_without_change") else "no"))
    if c:
        conf += " (suite: %s)" % c.get("existing_suite_with_change", "?")
    if m.get("note"):
        conf += " NOTE: " + m["note"].replace("|", "/")[:300]
    rows.append("| %s | %s | %s | %s | %s | %s | %s |" % (
        os.path.basename(d), m.get("property", ""), m.get("summary", "").replace("|", "/")[:260],
        m.get("needs", "").replace("|", "/")[:260], conf,
        ", ".join("%s: %s" % (k, v.get("verdict", "")) for k, v in sorted(det.items())) or "(not evaluated yet)",
        "; ".join(sorted({v.get("first", "")[:160].replace("|", "/") for v in det.values() if v.get("first")}))))
out = ["# Seeded breaking changes", "",
       "Each directory holds `patch.diff` (applies to /repo's HEAD with `git apply`), the demonstration that fails with the change and passes",
       "without it, and `meta.json` (property, what it needs to manifest, how it was confirmed, what the checks reported).",
       "Sources: `hist-F*` = reverse of a `fix:` commit (a genuine defect of the pinned tree); `Cxx-n` = written by a sub-agent that saw only the",
       "property text and its own scratch worktree of /repo. None is ever committed to /repo. Evaluate one with",
       "`tools/try_seed.sh seeded/<id>/patch.diff <Cxx> ...` (scratch worktree + `VERIF_REPO`), or apply/check/undo in /repo:",
       "`git -C /repo apply <patch>; ./bin/check <Cxx>; git -C /repo checkout -- .`", "",
       "| Seed | Property | Change | Needs | Confirmed (demo fails with / passes without the change; existing suite with it) | Checks (verdict) | First report |", "|---|---|---|---|---|---|---|"] + rows
open(os.path.join(ROOT, "seeded", "README.md"), "w").write("\n".join(out) + "\n")
