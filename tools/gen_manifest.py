#!/usr/bin/env python3
"""Writes MANIFEST.json from tools/props_table.py (claimed checks) and tools/not_applicable.json."""
import json, os, sys
ROOT = os.path.abspath(os.path.join(os.path.dirname(os.path.abspath(__file__)), ".."))
sys.path.insert(0, os.path.join(ROOT, "tools"))
from props_table import PROPS

ALL = ["C%02d" % i for i in range(1, 21)]
na_path = os.path.join(ROOT, "tools", "not_applicable.json")
na = json.load(open(na_path)) if os.path.exists(na_path) else {}

checks = []
for pid in sorted(PROPS):
    p = PROPS[pid]
    checks.append({
        "property_id": pid,
        "quick_cmd": f"./bin/check {pid} --tier quick",
        "thorough_cmd": f"./bin/check {pid} --tier thorough",
        "evidence_file": f"/verif/evidence/{pid}.json",
        "replay_cmd_template": f"./bin/check {pid} --replay {{path}}",
        "engine": "coq-model+correspondence",
        "level_claimed": {"category": "proof", "text": p["level_text"], "design_ref": p.get("design_ref", "")},
        "level_note": p["level_note"],
        "technique": p.get("technique", "machine-checked proof in Coq 8.16.1 on an executable Gallina model, tied to the code by generated facts and a differential correspondence check"),
    })
m = {
    "version": 1,
    "setup_cmd": "./setup.sh",
    "hooks": {
        "guard": "--cfg remoc_verif",
        "enable": "RUSTFLAGS=\"--cfg remoc_verif\" (set in /verif/harness/.cargo/config.toml); /repo is a path dependency of /verif/harness",
        "baseline_off_cmd": "cd /repo && cargo nextest run --workspace --no-fail-fast --test-threads 8 --offline || cargo test --workspace --no-fail-fast --offline",
        "source_commits": json.load(open(os.path.join(ROOT, "tools", "hook_commits.json"))),
        "add_only": False,
    },
    "engines": [{
        "name": "coq-model+correspondence",
        "path": "/verif/coq /verif/mrun /verif/harness /verif/tools",
        "serves_properties": sorted(PROPS),
        "kind_free_text": "Coq 8.16.1 development (models, theorems), translator for generated facts, extracted OCaml model runner, Rust differential harness, Python driver",
    }],
    "checks": checks,
    "not_applicable": [{"property_id": pid, "reason": na.get(pid, "not yet claimed: model/theorems/correspondence for this property are not built yet (see DESIGN.md section 11 build order)")}
                       for pid in ALL if pid not in PROPS],
    "notes": "See DESIGN.md. Every check: regenerate Gen/*.v from /repo, build the property's theorems (full .vo), lint, build harness against /repo's working tree, run implementation vs extracted model vs in-kernel evaluation, write evidence.",
}
json.dump(m, open(os.path.join(ROOT, "MANIFEST.json"), "w"), indent=1)
