#!/bin/bash
# Evaluate a seeded breaking change against the checks without touching /repo:
#   tools/try_seed.sh <patch.diff> <Cxx> [<Cxx> ...]
# Uses the evaluation worktree /work/try of /verif (synced to main first) and a scratch worktree of /repo.
set -u
PATCH=$(realpath "$1"); shift
TRY=${TRY:-/work/try}
SCR=/tmp/try_repo_$$
# the evaluation worktree of /verif is created on first use (its first check builds everything it needs)
[ -d "$TRY" ] || { mkdir -p "$(dirname "$TRY")"; git -C "$(dirname "$0")/.." worktree add -q "$TRY" -B "$(basename "$TRY")" main || exit 2; }
git -C "$TRY" checkout -q -- . ; git -C "$TRY" clean -fdq evidence corpus 2>/dev/null
git -C "$TRY" merge -q main -m sync >/dev/null 2>&1 || { echo "try worktree cannot be synced"; exit 2; }
git -C /repo worktree add -q "$SCR" HEAD || exit 2
if ! git -C "$SCR" apply "$PATCH"; then echo "PATCH DOES NOT APPLY"; git -C /repo worktree remove --force "$SCR"; exit 2; fi
cd "$TRY"
for P in "$@"; do
  OUT=$(VERIF_REPO="$SCR" VERIF_NPROC=${VERIF_NPROC:-8} timeout 1500 ./bin/check "$P" 2>/tmp/try_err_$$.txt)
  RC=$?
  echo "== $P rc=$RC"
  echo "$OUT" | grep -E "^VIOLATION|^KNOWN|^\[$P\]" | cut -c1-220
  # first replay: kind and verdict
  R=$(echo "$OUT" | grep -m1 "^VIOLATION" | sed 's/.*replay=\([^ ]*\).*/\1/')
  if [ -n "$R" ] && [ -f "$R" ]; then python3 - "$R" <<'EOF'
import json,sys
b=json.load(open(sys.argv[1]))
print("   first replay:", b["kind"], "|", b["failure_kind"], "|", (b.get("oracle_verdict") or "")[:160], "|", str(b.get("theorem_or_batch"))[:100])
EOF
  fi
done
git -C /repo worktree remove --force "$SCR"
rm -f /tmp/try_err_$$.txt
# leave the evaluation worktree pointing at /repo again
sed "s#@REPO@#/repo#" "$TRY/harness/Cargo.toml.in" > "$TRY/harness/Cargo.toml"
