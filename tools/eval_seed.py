#!/usr/bin/env python3
"""tools/eval_seed.py <seeded/<id>> <Cxx> [<Cxx> ...]: run the checks against a seeded change (scratch worktree of /repo,
see try_seed.sh) and record the outcome in the seed's meta.json under "detection"."""
import json, os, re, subprocess, sys
ROOT = os.path.abspath(os.path.join(os.path.dirname(os.path.abspath(__file__)), ".."))
sd = os.path.abspath(sys.argv[1]); props = sys.argv[2:]
out = subprocess.run([os.path.join(ROOT, "tools", "try_seed.sh"), os.path.join(sd, "patch.diff")] + props,
                     capture_output=True, text=True).stdout
print(out)
mp = os.path.join(sd, "meta.json")
m = json.load(open(mp))
det = m.setdefault("detection", {})
cur = None
for line in out.splitlines():
    g = re.match(r"== (C\d\d) rc=(\d+)", line)
    if g:
        cur = g.group(1)
        det[cur] = {"rc": int(g.group(2)), "verdict": "missed" if g.group(2) == "0" else "reported", "violations": 0, "with_input": 0}
        continue
    if cur and line.startswith("VIOLATION"):
        det[cur]["violations"] += 1
        if "no-failing-input-found" not in line:
            det[cur]["with_input"] += 1
    if cur and line.strip().startswith("first replay:"):
        det[cur]["first"] = line.split("first replay:", 1)[1].strip()
for k, v in det.items():
    if v.get("rc") not in (0, None):
        v["verdict"] = "caught with a concrete failing input" if v.get("with_input") else "caught (no-failing-input-found)"
    if v.get("rc") == 124 or v.get("rc", 0) > 1 and not v.get("violations"):
        v["verdict"] = "check broke (rc=%s)" % v.get("rc")
json.dump(m, open(mp, "w"), indent=1)
subprocess.run([sys.executable, os.path.join(ROOT, "tools", "gen_seeded_readme.py")])
