#!/bin/bash
# Confirm a seeded change in a scratch worktree of /repo (never in /repo itself):
#   tools/confirm_seed.sh <worktree> <seed-dir-with-patch.diff-and-demo> 
# demo passes without the patch, fails with it, existing suite passes with it. Prints one JSON line.
set -u
WT=$1; SD=$(realpath $2)
HEAD=$(git -C /repo rev-parse HEAD)
cd "$WT" || exit 2
git checkout -q -- remoc remoc_macro 2>/dev/null
git checkout -q --detach "$HEAD" || exit 2
DEMO=$(ls "$SD"/seed*.rs | head -1); T=$(basename "$DEMO" .rs)
cp "$DEMO" remoc/tests/"$T".rs
run_demo() { CARGO_NET_OFFLINE=true timeout 1200 cargo test --offline -j6 -p remoc --test "$T" >/tmp/confirm_$$.log 2>&1; echo $?; }
A=$(run_demo)
if ! git apply "$SD/patch.diff"; then echo "{\"seed\":\"$SD\",\"applies\":false}"; rm -f remoc/tests/"$T".rs; exit 1; fi
B=$(run_demo); BT=$(grep -E "^test result|panicked|timed out" /tmp/confirm_$$.log | head -3 | tr '\n"' ' .')
rm -f remoc/tests/"$T".rs
CARGO_NET_OFFLINE=true timeout 2400 cargo test --workspace --offline -j6 >/tmp/confirm_$$.log 2>&1; C=$?
S=$(grep -E "^test result" /tmp/confirm_$$.log | awk '{p+=$4; f+=$6} END {print p" passed, "f" failed"}')
git checkout -q -- remoc remoc_macro
rm -f /tmp/confirm_$$.log
echo "{\"seed\":\"$SD\",\"repo_head\":\"$HEAD\",\"demo_without_rc\":$A,\"demo_with_rc\":$B,\"demo_with\":\"$BT\",\"suite_with_rc\":$C,\"suite_with\":\"$S\"}"
