"""Per-property configuration of the check driver: one file tools/props/Cxx.py per claimed property,
each defining PROP (a dict, see tools/COMPONENT_GUIDE.md)."""
import importlib.util, os

PROPS = {}
_d = os.path.join(os.path.dirname(os.path.abspath(__file__)), "props")
for _f in sorted(os.listdir(_d)):
    if _f.endswith(".py") and _f[0] == "C":
        _spec = importlib.util.spec_from_file_location("props_" + _f[:-3], os.path.join(_d, _f))
        _m = importlib.util.module_from_spec(_spec)
        _spec.loader.exec_module(_m)
        PROPS[_f[:-3]] = _m.PROP
