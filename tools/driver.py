#!/usr/bin/env python3
"""Check driver: ./bin/check <Cxx> [--tier quick|thorough] [--replay <path>]

Steps (DESIGN.md section 8):
 1. regenerate coq/theories/Gen/*.v from /repo (translator)
 2. build the Coq targets the property's theorem file needs (full .vo), collect Print Assumptions, lint
 3. build the Rust harness against /repo's working tree with --cfg remoc_verif
 4. replay corpus, generate seeded cases, run implementation (vh) and model (mrun, extracted), diff;
    re-check a sample inside Coq (cases.v, vm_compute)
 5. property oracle verdicts come with every implementation trace (4th field of a vh line)
 6. on failure: write replay, match known findings, print KNOWN-FINDING / VIOLATION
 7. write evidence/<id>.json
"""
import fcntl, hashlib, json, os, re, subprocess, sys, time
from concurrent.futures import ThreadPoolExecutor

ROOT = os.path.abspath(os.path.join(os.path.dirname(os.path.abspath(__file__)), ".."))
COQ = os.path.join(ROOT, "coq")
CACHE = os.path.join(ROOT, ".cache")
TARGET = os.path.join(CACHE, "target")
VH = os.path.join(TARGET, "release", "vh")
MRUN = os.path.join(ROOT, "mrun", "extracted", "mrun")
REPO = os.environ.get("VERIF_REPO", "/repo")
NPROC = int(os.environ.get("VERIF_NPROC", "16"))  # parallel shards / make jobs

sys.path.insert(0, os.path.join(ROOT, "tools"))
from props_table import PROPS  # noqa: E402

AXIOM_ALLOWLIST = set()  # standard-library axioms that may appear under Print Assumptions (none used so far)

FORBIDDEN = re.compile(
    r"\b(Admitted|admit|Axiom|Axioms|Parameter|Parameters|Conjecture|Admit Obligations|Unset Guard Checking|"
    r"bypass_check|Unset Positivity Checking|Unset Universe Checking|type-in-type|impredicative-set)\b")


def sh(cmd, cwd=None, timeout=None, env=None, input=None):
    e = dict(os.environ)
    e["CARGO_NET_OFFLINE"] = "true"
    if env:
        e.update(env)
    p = subprocess.run(cmd, cwd=cwd, shell=isinstance(cmd, str), stdout=subprocess.PIPE, stderr=subprocess.STDOUT,
                       timeout=timeout, env=e, input=input, text=True, errors="replace")
    return p.returncode, p.stdout


class Lock:
    def __init__(self, name):
        os.makedirs(CACHE, exist_ok=True)
        self.path = os.path.join(CACHE, name + ".lock")

    def __enter__(self):
        self.f = open(self.path, "w")
        fcntl.flock(self.f, fcntl.LOCK_EX)

    def __exit__(self, *a):
        fcntl.flock(self.f, fcntl.LOCK_UN)
        self.f.close()


# ------------------------------------------------------------------------------------------------
class Failure:
    """Something that no longer checks."""

    def __init__(self, kind, what, detail, case=None, oracle=None):
        self.kind = kind      # translator | proof | lint | harness_build | correspondence | oracle | kernel_crosscheck
        self.what = what      # theorem / batch name
        self.detail = detail
        self.case = case      # dict(input, impl, model, sig) when a concrete input exists
        self.oracle = oracle  # oracle verdict string when a concrete failing input for the property exists


def step_translator():
    rc, out = sh([sys.executable, os.path.join(ROOT, "tools", "gen_from_source.py")], env={"VERIF_REPO": REPO})
    if rc != 0:
        return [Failure("translator", "tools/gen_from_source.py", out.strip())]
    return []


def coq_lint():
    bad = []
    files = []
    for d, _, fs in os.walk(os.path.join(COQ, "theories")):
        files += [os.path.join(d, f) for f in fs if f.endswith(".v")]
    files.append(os.path.join(ROOT, "mrun", "Extract.v"))
    for f in files:
        txt = open(f).read()
        txt_nc = re.sub(r"\(\*.*?\*\)", "", txt, flags=re.S)
        for m in FORBIDDEN.finditer(txt_nc):
            bad.append(f"{os.path.relpath(f, ROOT)}: forbidden construct '{m.group(0)}'")
        # Variable/Hypothesis outside a section
        depth = 0
        for line in txt_nc.splitlines():
            if re.match(r"\s*Section\b", line):
                depth += 1
            elif re.match(r"\s*End\b", line) and depth > 0:
                depth -= 1
            elif depth == 0 and re.match(r"\s*(Variable|Variables|Hypothesis|Hypotheses|Context)\b", line):
                bad.append(f"{os.path.relpath(f, ROOT)}: '{line.strip()}' outside a section")
    return bad


def step_coq(prop):
    """Build the .vo of each theorem file of the property; returns (failures, obligations, discharged, axioms)"""
    fails = []
    with Lock("coq"):
        sh(["sh", os.path.join(COQ, "gen_project.sh")])
        theorems, axioms_used = [], {}
        discharged = 0
        for pf in prop["props_files"]:
            src = os.path.join(COQ, "theories", pf)
            txt = open(src).read()
            names = re.findall(r"^\s*(?:Theorem|Lemma|Example)\s+(\w+)", txt, flags=re.M)
            theorems += names
            vo = "theories/" + pf[:-2] + ".vo"
            try:
                os.remove(os.path.join(COQ, vo))
            except FileNotFoundError:
                pass
            rc, out = sh(["make", "-j%d" % NPROC, vo], cwd=COQ, timeout=3000)
            if rc != 0:
                m = re.search(r'File "([^"]+)", line (\d+)', out)
                where = f"{m.group(1)}:{m.group(2)}" if m else pf
                # name the statement that no longer checks
                broken = where
                if m and os.path.exists(os.path.join(COQ, m.group(1))):
                    lines = open(os.path.join(COQ, m.group(1))).read().splitlines()
                    for i in range(min(int(m.group(2)), len(lines)) - 1, -1, -1):
                        mm = re.match(r"\s*(?:Theorem|Lemma|Example|Definition|Fixpoint|Corollary)\s+(\w+)", lines[i])
                        if mm:
                            broken = f"{mm.group(1)} ({where})"
                            break
                fails.append(Failure("proof", broken, out[-3000:]))
                continue
            # Print Assumptions output
            blocks = re.split(r"(?=Closed under the global context|Axioms:)", out)
            n_closed = out.count("Closed under the global context")
            ax_blocks = [b for b in blocks if b.startswith("Axioms:")]
            n_pa = len(re.findall(r"^\s*Print Assumptions\s+(\w+)", txt, flags=re.M))
            if n_closed + len(ax_blocks) != n_pa:
                fails.append(Failure("proof", pf, f"expected {n_pa} Print Assumptions results, got {n_closed + len(ax_blocks)}"))
            ok_ax = True
            for b in ax_blocks:
                for ax in re.findall(r"^\s*([\w.']+)\s*:", b, flags=re.M):
                    axioms_used[ax] = axioms_used.get(ax, 0) + 1
                    if ax not in AXIOM_ALLOWLIST:
                        ok_ax = False
                        fails.append(Failure("lint", pf, f"theorem depends on axiom {ax} which is not allow-listed"))
            pa_names = re.findall(r"^\s*Print Assumptions\s+(\w+)", txt, flags=re.M)
            missing = [n for n in names if n.startswith(prop["id"]) and n not in pa_names and not n.endswith("nonvacuous")]
            if missing:
                fails.append(Failure("lint", pf, f"no Print Assumptions for {missing}"))
            if ok_ax:
                discharged += len(names)
        bad = coq_lint()
        for b in bad:
            fails.append(Failure("lint", "lint_coq", b))
    return fails, len(theorems), discharged, theorems, axioms_used


def step_coqchk(prop):
    """thorough tier: re-check the compiled theorem files and everything they depend on with the independent
    checker and read the axioms / unsafe features it reports"""
    fails, notes = [], []
    with Lock("coq"):
        for pf in prop["props_files"]:
            mod = "Remoc." + pf[:-2].replace("/", ".")
            rc, out = sh(["coqchk", "-silent", "-o", "-Q", "theories", "Remoc", mod], cwd=COQ, timeout=3000)
            summ = out[out.find("CONTEXT SUMMARY"):] if "CONTEXT SUMMARY" in out else out[-1500:]
            items = dict(re.findall(r"\* ([^:\n]+):\s*([^\n]*)", summ))
            ok = rc == 0 and all(items.get(k, "").strip() == "<none>" for k in
                                 ("Axioms", "Constants/Inductives relying on type-in-type",
                                  "Constants/Inductives relying on unsafe (co)fixpoints",
                                  "Inductives whose positivity is assumed"))
            notes.append(f"coqchk -o {mod}: " + ("Axioms <none>, no unsafe features" if ok else summ[-600:]))
            if not ok:
                fails.append(Failure("lint", "coqchk " + mod, summ[-1500:]))
    return fails, "; ".join(notes)


def step_build_tools():
    fails = []
    with Lock("coq"):
        rc, out = sh(["make", "-j%d" % NPROC, "theories/Run/Dispatch.vo"], cwd=COQ, timeout=3000)
        if rc != 0:
            return [Failure("proof", "Run/Dispatch.vo (executable model)", out[-3000:])]
        # rebuild mrun when the model changed
        stamp = os.path.join(CACHE, "mrun.stamp")
        h = hashlib.sha256()
        for d, _, fs in sorted(os.walk(os.path.join(COQ, "theories"))):
            for f in sorted(fs):
                if f.endswith(".v"):
                    h.update(open(os.path.join(d, f), "rb").read())
        h.update(open(os.path.join(ROOT, "mrun", "main.ml"), "rb").read())
        h.update(open(os.path.join(ROOT, "mrun", "Extract.v"), "rb").read())
        dig = h.hexdigest()
        old = open(stamp).read() if os.path.exists(stamp) else ""
        if old != dig or not os.path.exists(MRUN):
            rc, out = sh(["sh", os.path.join(ROOT, "mrun", "build.sh")], timeout=1200)
            if rc != 0:
                return [Failure("proof", "extraction / mrun build", out[-3000:])]
            os.makedirs(CACHE, exist_ok=True)
            open(stamp, "w").write(dig)
    with Lock("cargo"):
        if not os.path.exists(os.path.join(ROOT, "harness", "Cargo.lock")):
            sh(["cp", os.path.join(REPO, "Cargo.lock"), os.path.join(ROOT, "harness", "Cargo.lock")])
        tmpl = open(os.path.join(ROOT, "harness", "Cargo.toml.in")).read().replace("@REPO@", REPO)
        ct = os.path.join(ROOT, "harness", "Cargo.toml")
        if not os.path.exists(ct) or open(ct).read() != tmpl:
            open(ct, "w").write(tmpl)
        rc, out = sh(["cargo", "build", "--release", "--offline"], cwd=os.path.join(ROOT, "harness"), timeout=3000)
        if rc != 0:
            errs = "\n".join(l for l in out.splitlines() if not l.startswith("warning"))[-4000:]
            fails.append(Failure("harness_build", "cargo build of /verif/harness against /repo", errs))
    return fails


# ------------------------------------------------------------------------------------------------
def run_vh(args, timeout):
    rc, out = sh([VH] + [str(a) for a in args], timeout=timeout)
    return rc, out


def parse_lines(out):
    cases = []
    for line in out.splitlines():
        parts = line.split("\t")
        if len(parts) < 3:
            continue
        cases.append({"input": parts[0], "impl": parts[1], "sig": parts[2], "oracle": parts[3] if len(parts) > 3 else "ok"})
    return cases


def run_model(inputs):
    """inputs: list of strings -> list of output strings (via extracted OCaml runner, sharded)"""
    if not inputs:
        return []
    shards = [inputs[i::NPROC] for i in range(NPROC)]

    def one(sh_inputs):
        if not sh_inputs:
            return []
        p = subprocess.run([MRUN], input="\n".join(sh_inputs) + "\n", stdout=subprocess.PIPE, stderr=subprocess.PIPE,
                           text=True, timeout=3000)
        if p.returncode != 0:
            raise RuntimeError("mrun failed: " + p.stderr[-2000:])
        return p.stdout.split("\n")[:len(sh_inputs)]

    with ThreadPoolExecutor(NPROC) as ex:
        outs = list(ex.map(one, shards))
    res = [None] * len(inputs)
    for k, o in enumerate(outs):
        for j, v in enumerate(o):
            res[k + j * NPROC] = v.strip()
    return res


def kernel_crosscheck(cases, tag):
    """re-evaluate a sample inside Coq: run comp input = model output, by vm_compute"""
    if not cases:
        return None
    d = os.path.join(CACHE, "cases")
    os.makedirs(d, exist_ok=True)
    path = os.path.join(d, f"cases_{tag}.v")
    with open(path, "w") as f:
        f.write("From Remoc Require Import Lib.Base Run.Dispatch.\n")
        for i, c in enumerate(cases):
            nums = c["input"].split()
            comp, rest = nums[0], nums[1:]
            f.write(f"Goal run {comp} [{'; '.join(rest)}] = [{'; '.join(c['model'].split())}]. Proof. vm_compute. reflexivity. Qed.\n")
    rc, out = sh(["coqc", "-noglob", "-Q", os.path.join(COQ, "theories"), "Remoc", path], cwd=d, timeout=3000)
    for ext in (".vo", ".vok", ".vos", ".glob"):
        try:
            os.remove(path[:-2] + ext)
        except FileNotFoundError:
            pass
    if rc != 0:
        m = re.search(r"line (\d+)", out)
        idx = int(m.group(1)) - 2 if m else -1
        return Failure("kernel_crosscheck", f"cases.v line {idx + 2}",
                       "extracted model and in-kernel evaluation disagree: " + out[-1500:],
                       case=cases[idx] if 0 <= idx < len(cases) else None)
    return None


def load_corpus(pid):
    d = os.path.join(ROOT, "corpus", pid)
    res = []
    if os.path.isdir(d):
        for f in sorted(os.listdir(d)):
            if f.endswith(".case"):
                for line in open(os.path.join(d, f)):
                    line = line.strip()
                    if line and not line.startswith("#"):
                        res.append(line)
    return res


def step_correspondence(prop, tier, seed):
    fails, stats = [], {"evaluations": 0, "sigs": {}, "nontrivial_inputs": set(), "samples": [], "jobs": [], "known": []}
    allcases = []
    triv = re.compile(prop.get("trivial_sig", r"^$"))
    # corpus replay first
    corpus = load_corpus(prop["id"])
    if corpus:
        d = os.path.join(CACHE, "cases")
        os.makedirs(d, exist_ok=True)
        cp = os.path.join(d, f"corpus_{prop['id']}.txt")
        open(cp, "w").write("\n".join(corpus) + "\n")
        # each component's replay executes only the lines that start with its component number
        firsts = {line.split()[0] for line in corpus}
        jobs = [j for j in prop["jobs"] if str(j.get("comp_num")) in firsts] or prop["jobs"][:1]
        for job in jobs:
            rc, out = run_vh([job["component"], seed, 0, "--replay", cp], timeout=1200)
            if rc != 0:
                fails.append(Failure("correspondence", f"corpus replay ({job['component']})", out[-2000:]))
            allcases += parse_lines(out)
    for job in prop["jobs"]:
        n = job[tier]
        per = max(1, n // NPROC)
        t0 = time.time()

        def one(k):
            return run_vh([job["component"], seed * 1000003 + k, per] + job.get("args", []), timeout=job.get("timeout", 3000))

        with ThreadPoolExecutor(NPROC) as ex:
            results = list(ex.map(one, range(NPROC)))
        got = 0
        for k, (rc, out) in enumerate(results):
            cs = parse_lines(out)
            got += len(cs)
            allcases += cs
            if rc != 0:
                fails.append(Failure("correspondence", f"vh {job['component']} shard {k}",
                                     f"harness exited with {rc}: " + out[-1500:]))
        stats["jobs"].append({"component": job["component"], "requested": n, "cases": got, "wall_s": round(time.time() - t0, 2)})
    # model
    try:
        mouts = run_model([c["input"] for c in allcases])
    except Exception as e:  # noqa: BLE001
        fails.append(Failure("correspondence", "mrun", str(e)))
        mouts = [None] * len(allcases)
    mism = []
    for c, mo in zip(allcases, mouts):
        c["model"] = mo
        stats["evaluations"] += 1
        stats["sigs"][c["sig"]] = stats["sigs"].get(c["sig"], 0) + 1
        if not triv.search(c["sig"]):
            stats["nontrivial_inputs"].add(hashlib.md5(c["input"].encode()).hexdigest())
        if mo is not None and mo != c["impl"]:
            mism.append(c)
        elif c["oracle"] != "ok":
            mism.append(c)
    # second phase (property specific): inputs derived from the model's outputs, with expected results
    if prop.get("phase2") and not any(f.kind == "correspondence" and f.what == "mrun" for f in fails):
        p2 = PHASE2[prop["phase2"]](allcases)
        if p2:
            d = os.path.join(CACHE, "cases")
            os.makedirs(d, exist_ok=True)
            cp = os.path.join(d, f"phase2_{prop['id']}.txt")
            open(cp, "w").write("\n".join(i for i, _, _ in p2) + "\n")
            rc, out = run_vh([prop["jobs"][0]["component"], seed, 0, "--replay", cp], timeout=1200)
            got = parse_lines(out)
            if len(got) != len(p2):
                fails.append(Failure("correspondence", "phase2 replay", f"{len(got)} results for {len(p2)} inputs: " + out[-800:]))
            for (inp, exp, sig), g in zip(p2, got):
                stats["evaluations"] += 1
                stats["sigs"][sig] = stats["sigs"].get(sig, 0) + 1
                c = {"input": inp, "impl": g["impl"], "model": exp, "sig": sig, "oracle": "ok"}
                if g["impl"] != exp:
                    mism.append(c)
            stats["phase2"] = len(p2)
    # concrete property-oracle failures first (a model/implementation disagreement whose oracle verdict is
    # still "ok" must not hide them), then smallest first
    mism.sort(key=lambda c: (c["oracle"] == "ok", len(c["input"])))
    seen_sigs = set()
    # cases of an open known finding are reported (at most twice) but must not use up the report quota below:
    # a different violation of the same property is not to be masked by a known class that always fails
    known_res = [re.compile(k["sig_regex"]) for k in load_known()
                 if k.get("status") == "open" and k.get("property") == prop["id"]]
    known_seen = 0
    n_other = 0
    for c in mism:
        is_known = any(r.search(c["sig"]) for r in known_res)
        if is_known:
            if known_seen >= 2:
                continue
            known_seen += 1
        else:
            if c["sig"] in seen_sigs:
                continue
            seen_sigs.add(c["sig"])
            n_other += 1
        if c["oracle"] != "ok":
            fails.append(Failure("oracle", f"property oracle on {c['sig']}", c["oracle"], case=c, oracle=c["oracle"]))
        else:
            fails.append(Failure("correspondence", f"model/implementation disagreement on {c['sig']}",
                                 f"impl={c['impl'][:400]} model={str(c['model'])[:400]}", case=c,
                                 oracle=(prop.get("disagreement_is_violation")
                                         if c["input"].split()[:1] == [str(prop.get("disagreement_component", prop["jobs"][0]["comp_num"]))] else None)))
        if n_other >= 8:
            break
    # in-kernel cross-check of a sample
    sample = [c for c in allcases if c.get("model") is not None][: (200 if tier == "quick" else 1000)]
    f = kernel_crosscheck(sample, prop["id"])
    if f:
        fails.append(f)
    stats["kernel_checked"] = len(sample)
    # samples for evidence
    seen = set()
    for c in allcases:
        if c["sig"] not in seen and len(stats["samples"]) < 12:
            seen.add(c["sig"])
            stats["samples"].append({"input": c["input"][:300], "impl": c["impl"][:300], "model": (c.get("model") or "")[:300], "sig": c["sig"]})
    return fails, stats


def phase2_spec3_decode(cases):
    """C09: feed the bytes the version-3 table prescribes (model op 6) to the implementation's decoder;
    expected result is the message itself."""
    res = []
    for c in cases:
        t = c["input"].split()
        if len(t) > 2 and t[0] == "9" and t[1] == "6" and c.get("model", "").startswith("0 "):
            res.append(("9 0 " + c["model"][2:], "0 " + " ".join(t[2:]), c["sig"].replace("spec3:", "spec3dec:", 1)))
    return res


PHASE2 = {"spec3_decode": phase2_spec3_decode}


# ------------------------------------------------------------------------------------------------
def load_known():
    p = os.path.join(ROOT, "known_findings.json")
    if not os.path.exists(p):
        return []
    return json.load(open(p)).get("findings", [])


def match_known(pid, failure):
    for k in load_known():
        if k.get("status") != "open" or k.get("property") != pid:
            continue
        sig = (failure.case or {}).get("sig", "")
        if failure.case and re.search(k["sig_regex"], sig):
            return k
    return None


def write_replay(pid, failure, seed, tier):
    d = os.path.join(ROOT, "evidence", "replays")
    os.makedirs(d, exist_ok=True)
    body = {
        "property": pid,
        "kind": "counterexample" if failure.oracle else "broken_obligation",
        "theorem_or_batch": failure.what,
        "failure_kind": failure.kind,
        "detail": failure.detail,
        "case": failure.case,
        "oracle_verdict": failure.oracle,
        "seed": seed,
        "tier": tier,
        "replay": "./bin/check %s --replay <this file>" % pid,
    }
    h = hashlib.md5(json.dumps(body, sort_keys=True).encode()).hexdigest()[:10]
    path = os.path.join(d, f"{pid}-{h}.json")
    json.dump(body, open(path, "w"), indent=1)
    return path


def main():
    args = sys.argv[1:]
    if not args:
        print(__doc__)
        sys.exit(2)
    pid = args[0]
    tier = os.environ.get("VERIF_TIER", "quick")
    replay = None
    i = 1
    while i < len(args):
        if args[i] == "--tier":
            tier = args[i + 1]
            i += 2
        elif args[i] == "--replay":
            replay = args[i + 1]
            i += 2
        else:
            i += 1
    if tier not in ("quick", "thorough"):
        tier = "quick"
    seed = int(os.environ.get("VERIF_SEED", "1") or "1")
    prop = PROPS[pid]
    prop["id"] = pid
    t0 = time.time()
    failures = []

    if replay:
        sys.exit(do_replay(prop, replay))

    failures += step_translator()
    obligations = discharged = 0
    theorems, axioms = [], {}
    if not failures:
        f, obligations, discharged, theorems, axioms = step_coq(prop)
        failures += f
    coqchk_note = "not run in the quick tier"
    if tier == "thorough" and not failures:
        f, coqchk_note = step_coqchk(prop)
        failures += f
        obligations += 1
        discharged += 0 if f else 1
    # the correspondence runs even when a proof broke: it is also the failing-input search
    stats = {"evaluations": 0, "sigs": {}, "nontrivial_inputs": set(), "samples": [], "jobs": [], "kernel_checked": 0}
    bf = step_build_tools()
    failures += bf
    if not any(f.kind == "harness_build" for f in bf) and os.path.exists(MRUN) and os.path.exists(VH):
        f, stats = step_correspondence(prop, tier, seed)
        failures += f
    corr_obl = len(prop["jobs"]) + 1  # batches + kernel cross-check
    # failures inside a listed known-finding class do not count against the batch: its obligation is
    # "agrees with the model and satisfies the oracle outside the known classes"
    corr_ok = corr_obl - len({f.what for f in failures
                              if f.kind in ("correspondence", "oracle", "kernel_crosscheck") and not match_known(pid, f)})
    obligations += corr_obl + 2  # + translator + lint
    discharged += max(0, corr_ok) + (0 if any(f.kind == "translator" for f in failures) else 1) + \
        (0 if any(f.kind == "lint" for f in failures) else 1)

    # if a proof/translator/lint obligation broke, a concrete counterexample found by the search takes precedence
    concrete = [f for f in failures if f.case is not None and f.oracle and not match_known(pid, f)]
    violations, known_lines = [], []
    reported = set()
    for f in failures:
        k = match_known(pid, f)
        if k:
            line = f"KNOWN-FINDING: property={pid} {k['id']} {k['description']}"
            if line not in reported:
                reported.add(line)
                known_lines.append(line)
            continue
        if f.kind in ("proof", "translator", "lint", "harness_build") and concrete:
            # attach the concrete input found by the search to the broken obligation
            f.case = concrete[0].case
            f.oracle = concrete[0].oracle
        violations.append(f)
    for line in known_lines:
        print(line)
    out_lines = []
    for f in violations[:6]:
        path = write_replay(pid, f, seed, tier)
        suffix = "" if (f.case is not None and f.oracle) else " no-failing-input-found"
        out_lines.append(f"VIOLATION property={pid} replay={path}{suffix}")
        sys.stderr.write(f"[{pid}] {f.kind}: {f.what}: {str(f.detail)[:600]}\n")
    wall = time.time() - t0
    ev = {
        "property_id": pid,
        "tier": tier,
        "seed": seed,
        "level": "proof",
        "coverage": {
            "obligations": obligations,
            "discharged": min(discharged, obligations) if not violations else min(discharged, obligations - 1),
            "checker_cmd": "coqc 8.16.1 via `make theories/%s.vo` (full .vo build) + Print Assumptions; lint grep; "
                           "vh (Rust, /repo with --cfg remoc_verif) vs mrun (extracted model) vs cases.v (vm_compute)" % prop["props_files"][0][:-2],
            "trusted_base": prop.get("trusted_base", []) + [
                "Coq 8.16.1 kernel incl. vm_compute; no native_compute",
                "axioms under property theorems: " + (", ".join(sorted(axioms)) if axioms else "none (Closed under the global context)"),
                "translator tools/gen_from_source.py",
                "extraction: ExtrOcamlBasic only, no Extract Constant/Inductive of our own; OCaml 4.13.1; mrun/main.ml",
                "correspondence harness /verif/harness (Rust), hooks H1/H2 under --cfg remoc_verif",
                "independent re-check: " + coqchk_note,
            ],
            "theorems": theorems,
            "evaluations": stats["evaluations"],
            "distinct_nontrivial": len(stats["nontrivial_inputs"]),
            "distinct_signatures": len(stats["sigs"]),
            "rule": prop.get("rule", ""),
            "samples": stats["samples"] or [{"note": "no correspondence cases ran"}],
            "traces_validated_against_impl": stats["evaluations"],
            "kernel_crosschecked_cases": stats.get("kernel_checked", 0),
            "signature_distribution": dict(sorted(stats["sigs"].items(), key=lambda kv: -kv[1])[:60]),
            "jobs": stats["jobs"],
            "known_findings_reported": known_lines,
        },
        "assumptions": prop.get("assumptions", []),
        "wall_s": round(wall, 2),
        "violations": len(violations),
    }
    os.makedirs(os.path.join(ROOT, "evidence"), exist_ok=True)
    json.dump(ev, open(os.path.join(ROOT, "evidence", pid + ".json"), "w"), indent=1)
    for l in out_lines:
        print(l)
    print(f"[{pid}] tier={tier} seed={seed} obligations={obligations} cases={stats['evaluations']} "
          f"distinct_nontrivial={len(stats['nontrivial_inputs'])} violations={len(violations)} wall={wall:.1f}s")
    sys.exit(1 if violations else 0)


def do_replay(prop, path):
    body = json.load(open(path))
    case = body.get("case")
    if not case:
        print(f"replay {path}: no concrete input; broken obligation: {body.get('theorem_or_batch')}")
        print(body.get("detail", "")[:2000])
        return 1
    bf = step_build_tools()
    if bf:
        print("build failed:", bf[0].detail[:1000])
        return 1
    d = os.path.join(CACHE, "cases")
    os.makedirs(d, exist_ok=True)
    cp = os.path.join(d, "replay.txt")
    open(cp, "w").write(case["input"] + "\n")
    comp = prop["jobs"][0]["component"]
    for j in prop["jobs"]:
        if j.get("comp_num") and case["input"].split()[0] == str(j["comp_num"]):
            comp = j["component"]
    rc, out = run_vh([comp, 0, 0, "--replay", cp], timeout=600)
    cs = parse_lines(out)
    mo = run_model([case["input"]])[0]
    print("input :", case["input"][:2000])
    print("impl  :", cs[0]["impl"][:2000] if cs else out[-500:])
    print("model :", mo[:2000])
    print("oracle:", cs[0]["oracle"] if cs else "?")
    bad = (not cs) or cs[0]["impl"] != mo or cs[0]["oracle"] != "ok"
    if bad:
        print(f"VIOLATION property={prop['id']} replay={path}")
    return 1 if bad else 0


if __name__ == "__main__":
    main()
