"""C20 check configuration."""
PROP = {
    "props_files": ["Props/C20.v"],
    "jobs": [
        {"component": "handle", "comp_num": 20, "quick": 4000, "thorough": 80000, "timeout": 3000},
        {"component": "lazy", "comp_num": 200, "quick": 4000, "thorough": 80000, "timeout": 3000},
    ],
    "design_ref": "DESIGN.md section 5, C20",
    "level_text": "Theorems (Coq, closed under the global context). HANDLES: on a Gallina transcription of robj/handle.rs over the "
                  "per-multiplexer chmux/any_storage.rs (value cell = Arc<RwLock<Option<Box<dyn Any>>>> with owner endpoint, TypeId, taken "
                  "flag and provider watch state; handle states LocalCreated | LocalReceived | Remote; Serialize inserts under a fresh UUID "
                  "into the storage of the connection it is sent over and spawns the removal task, Deserialize REMOVES the id from the "
                  "storage of the connection the message arrived on; cast/clone/drop/into_inner/as_ref/as_mut; provider drop/keep), for "
                  "EVERY action list (create on any endpoint and type, clone, drop, cast, send any handle over any connection to any "
                  "endpoint, receive/lose per connection end, forged messages with arbitrary ids, accesses, provider drop/keep, removal "
                  "tasks finishing whenever enabled): an access yields a value only through a live handle on the creating endpoint at the "
                  "original type before the value was taken, and it is the value the handle was made for; on a foreign endpoint the result "
                  "is Unknown, at another type Unknown/MismatchedType; into_inner empties the cell (also on a type mismatch) and a taken "
                  "value is never obtained again; while an entry whose handles are all gone or whose provider is dropped is still stored "
                  "its removal task is enabled and removes it, so in every quiescent state each stored entry has a holder and an undropped "
                  "provider, and a value no live handle refers to is destroyed; the big step used for the comparison ends quiescent. "
                  "LAZY VALUES/BLOBS: on a pipeline model (provider = ONE chmux message then end-of-port; each forwarder = chmux::forward "
                  "written over the C01 transcription of recv_any/recv_chunk, whole or chunk-by-chunk by max_data_size; fetcher = recv "
                  "limited to the advertised length; every connection may be cut after any number of frames), by induction on the number "
                  "of forwarders: a completed fetch returns exactly the provided bytes; if what a connection on the path delivers contains "
                  "no complete message (cut before the last frame, provider gone) the fetch ends with an error -- neither a truncated value "
                  "nor a hang. 'Never truncated' is derived from the C01 parser theorem recv_refines_parse applied to each forwarder and to "
                  "the fetcher, not re-proved. Both models are tied to the code by differential runs of the REAL Handle / LazyBlob / Lazy over "
                  "real connections (3 endpoints in a triangle; a line of up to 4 endpoints), number by number against the extracted model, "
                  "with an in-kernel re-check of a sample and an independent oracle on every trace.",
    "level_note": "Trusted: Coq kernel (+vm_compute), extraction (ExtrOcamlBasic only) and mrun glue (cross-checked in-kernel on a sample), harness, "
                  "its transport and the paused-clock quiescence barrier. Modelled as assumptions: UUIDs are fresh names (collision of 122 random "
                  "bits outside the model); Arc/Box drop semantics (a value is destroyed exactly when unreferenced -- Rust's guarantee; the harness "
                  "observes it with a destructor counter); the dropped-notification channel (rch::mpsc sender chain through any number of "
                  "forwarding endpoints) is abstracted to 'some genuine handle or message with the id exists', its collapse is observed at "
                  "quiescence; RwLock guards are not held across steps; connections are not cut in the handle component. Lazy: flow control is "
                  "abstracted (chunks are chunk_size bytes, large receive buffers; the parse-level lemmas hold for any chunk boundaries), the "
                  "request path is abstracted (an undeliverable request = provider never answers), Lazy<T> is compared at the level of "
                  "value/error (codec outside the model; its hop is a forwarder whose limit is never exceeded). Liveness is stated as "
                  "enabledness + quiescence, not in a temporal logic. Completeness of an uncut transfer (fetch succeeds) is validated by the "
                  "correspondence and the oracle, not proved.",
    "trivial_sig": r"^(handle(:novalue)?|malformed|(blob|lazy):h\d(:multi)?(:empty)?)$",
    "rule": "cases from one PRNG (VERIF_SEED). handle: 1-3 values (kept or with provider, two value types) on random endpoints of a triangle of real "
            "connections, 4-34 steps biased to valid ones: send (a clone or the handle itself; one send in four inside a message of 5000 bytes with max_data_size 2048, handle ahead of the bulk, so that it is serialized twice and streamed) over either connection of its endpoint and "
            "receive at once or later, clone, drop, cast, as_ref/as_mut/into_inner on every endpoint, provider drop/keep, stale slots; then "
            "random drop order of everything; compared after every step: result class, value id read from the real value, and which "
            "destructors have run. lazy: LazyBlob (3/4) or Lazy<Vec<u8>> over 1-3 hops, chunk sizes 4..16384 and max_data_size 100..256|default "
            "per endpoint, sizes 0,1,2,3 and around chunk size and the forwarders' max_data_size (whole vs streamed forwarding), 1-5 ops: fetch "
            "on any endpoint of the path (also the provider's own endpoint), optionally with a connection of the path cut when the (d+1)-th "
            "data message of the transfer is about to cross it (d around the number of frames), immediate cuts, provider drop/keep, repeated "
            "fetch (cache); compared: bytes / error / pending per op. A case is non-trivial unless its signature shows no feature; "
            "distinct = distinct input",
    "assumptions": [
        "paused-clock quiescence barrier after every step",
        "large receive buffers (flow control is C02/C03); max_data_size >= 100 so that control items are never streamed through spawn_blocking",
        "no connection cuts in the handle component (cuts are exercised in the lazy component)",
    ],
}
