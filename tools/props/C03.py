"""C03 check configuration."""
_PORT_RULE = ("cases from one PRNG (VERIF_SEED): a real chmux connection with one port (sender at endpoint A, receiver at B); random Cfg pairs "
              "(chunk 4..64, receive buffer 4..100 incl. non-multiples of 4, shared/transport send queues 1..3, max_data_size 4..300, "
              "max_received_ports 1..8); 4-30 big steps: send / try_send / send_chunks sessions (send, send_final, finish) / connect with "
              "1-5 ports of sizes around chunk, buffer and max_data_size, cancellation of the pending future, transport sink toggled not-ready "
              "(fills the event queue), delivery of 1-4 messages A->B and of credit messages B->A one step at a time, the receiver pumping "
              "(recv_any, then recv_chunk after Chunks), then a drain phase; after every big step both endpoints run to quiescence "
              "(paused Tokio clock) and the frames that appeared on the wire in both directions, the messages the receiver obtained and the "
              "sender's status are compared with the model's big step; a case is non-trivial unless it is malformed; distinct = distinct input")
PROP = {
    "props_files": ["Props/C03.v", "Props/C03b.v"],
    "jobs": [{"component": "port", "comp_num": 1, "quick": 1600, "thorough": 60000, "timeout": 3000},
             {"component": "net", "comp_num": 70, "quick": 240, "thorough": 10000, "args": ["--stream", "4"], "timeout": 3000},
             {"component": "net", "comp_num": 70, "quick": 480, "thorough": 20000, "args": ["--stream", "6"], "timeout": 3000},
             # exact differential of the shared-queue model: several ports of one endpoint, receivers consuming on command
             {"component": "sharedq", "comp_num": 3, "quick": 1200, "thorough": 60000, "timeout": 3000}],
    "design_ref": "DESIGN.md section 5, C03",
    "level_text": "Theorems (Coq, closed under the global context), for every configuration and every schedule: conservation of credits as an equality (no leak after any history of completed, failed or cancelled operations); the threshold lemma (an idle receiver leaves the sender at least four credits for every buffer >= 4); deadlock freedom (a running operation on an open port always has an enabled next step unless frames or credits are still under way, in which case an internal action is enabled); a measure that strictly decreases with every frame handed over and every successful credit request (no livelock). Tied to the code by the big-step differential with cancellation while waiting for credits and for a queue slot, and by the oracle `no operation pending after the drain phase`.",
    "level_note": "Trusted: Coq kernel, extraction/mrun (sample re-checked in-kernel), harness, quiescence barrier, Tokio primitives (mpsc FIFO, wake-ups). "
                  "The dispatcher between the event queue and the per-port queue is modelled as FIFO stages (TMux/TLink); cross-port interleaving is "
                  "covered by the fifo-projection argument of the Mux model, not here. The cross-port statement is proved on a separate model (Chmux/SharedQueue.v, Props/C03b.v): the endpoint's one bounded event queue with FIFO permits (given also to a waiter that is not being polled), the order of the waits in Sender::send/send_chunks/connect (credits first, then a slot, then hand-over without a further wait) and the credit return (try, else a spawned task): after any history, system actions alone terminate within a measure and leave every port idle or out of its own credits, whatever the other ports' receivers do; the queue bound holds. That model is tied to the code by an exact differential for data sends (component sharedq: 2-5 ports of one endpoint with shared_send_queue 1-3 and receive buffers 4..20, tasks sending 1..2rb+3 one-byte messages, cancellations, remote receivers that consume only on command, about half of the ports never consumed; after every step the frames on the wire per port and the pending flags are compared with the model run to quiescence, credits coming back by the threshold rule) and by oracle streams for what the differential does not drive (net stream 4: a cancelled receive whose credit return waits for a slot, one-slot queue, then traffic and closes on another port; net stream 6: 1-3 credit-starved ports each with a pending send or multi-port open request, 1-2 slots, traffic on another port, then the starved receivers consume and every pending operation must complete). Lost wake-ups inside Tokio cannot be a model behaviour and would surface only as a pending operation in the harness oracle.",
    "trivial_sig": r"malformed",
    "rule": _PORT_RULE,
    "assumptions": ["paused-clock quiescence barrier", "one port per connection in this component; port messages of other ports are not held back"],
}
