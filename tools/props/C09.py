"""C09 check configuration."""
PROP = {
        "props_files": ["Props/C09.v"],
        "jobs": [{"component": "codec", "comp_num": 9, "quick": 4000, "thorough": 400000},
                 # the dispatcher's use of the codec: which variant (with/without ids) it emits to a version 2 / 3 peer
                 {"component": "endpoint", "comp_num": 7, "quick": 800, "thorough": 40000, "timeout": 3000},
                 # two real endpoints with different configurations over a byte stream (Connect::io)
                 {"component": "net", "comp_num": 70, "quick": 320, "thorough": 20000, "args": ["--stream", "5"], "timeout": 3000}],
        "design_ref": "DESIGN.md section 5, C09",
        "level_text": "Theorems (Coq, closed under the global context) on a Gallina transcription of MultiplexMsg::{write,read}, "
                      "ExchangedCfg::{write,read} and the length-prefixed framing: encoder = version-3 table layout for every "
                      "well-formed message, decoder total and inverse to the encoder incl. id-less variants, canonical re-encoding, "
                      "rejection of bad configs/codes/magic, framing round trip, handshake bytes. Constants are regenerated from the "
                      "Rust source every run; the transcription is tied to the code by a direct codec differential (hook H2), "
                      "by feeding the table's bytes to the real decoder, and by the handshake of a real endpoint.",
        "level_note": "Trusted: Coq kernel (+vm_compute), translator, extraction (ExtrOcamlBasic only) and mrun glue (cross-checked in-kernel on a "
                      "sample), harness and hook H2; LengthDelimitedCodec and the dispatcher's use of the codec are modelled and sampled, not verified; "
                      "the Mux-level statements (no ids to old peers, payload frame follows Data) are proved on the dispatcher model and tied to the code by the endpoint differential.",
        "phase2": "spec3_decode",
        # for the codec the disagreeing message is itself the failing input: the model provably has the
        # version-3 layout, so bytes that differ from the model's differ from the layout
        "disagreement_is_violation": "implementation bytes/decoding differ from the version-3 layout proved for the model",
        "trivial_sig": r"^(enc:(Reset|Ping|ClientFinish|ListenerFinish|Goodbye)$|dec:ok:(Reset|Ping|ClientFinish|ListenerFinish|Goodbye)|dec:invalid:c17|dec:eof:c0)",
        "rule": "cases from one PRNG (VERIF_SEED): encode of generated messages (every kind x flag combination x boundary "
                "field values, mismatched id lists), decode of the implementation's own encodings, of mutated encodings "
                "(truncated, tail bytes, flag byte, code byte, bit flip, unknown flag bits, partial port/id) and of random "
                "bytes, LengthDelimitedCodec frame/deframe, handshake bytes of a real endpoint, max_frame_length; a case is "
                "non-trivial unless it is a field-less message or an unknown-code/empty rejection; distinct = distinct input. "
                "endpoint stream (shared with C07/C08/C10/C11): ONE real endpoint whose peer is the harness announcing version 2 or 3; local connects, "
                "port batches sent over a port (Sender::connect) and peer requests/batches with and without ids; every emitted message is compared "
                "with the dispatcher model (Mux.with_ids decides the variant) and an oracle flags any id sent to a version-2 peer. "
                "net stream 5: two real endpoints over Connect::io (tokio duplex byte streams through a harness tee that parses the u32-LE length "
                "prefixes and checks every frame against the reader's max_frame_length), chunk sizes 4..16384 and receive buffers drawn independently "
                "per endpoint, 2-5 items each way: byte strings of 0 .. 3x the larger chunk size and port batches (values carrying up to chunk/4+3 "
                "channel halves); oracle: connection established, every item received intact and in order, no frame over the reader's limit",
        "assumptions": [
            "hook H2 exposes MultiplexMsg::{to_vec,read} unchanged",
            "tokio_util LengthDelimitedCodec is modelled by frame/deframe and sampled, not verified",
        ],
    }
