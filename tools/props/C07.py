"""C07 check configuration."""
_EP_RULE = ("endpoint stream: ONE real endpoint whose peer is the harness (it answers the handshake and then injects protocol messages); "
            "cases from one PRNG: random Cfg (chunk 4..64, buffer 4..64, connect_queue 1..4, peer version 2 or 3), 6-40 steps mixing local API "
            "calls (connect, listener take/accept/reject/drop request, send, recv, close/drop receiver, drop sender, drop clients/listener, terminate) "
            "with peer messages that are mostly valid for the shadow state (OpenPort, PortOpened, Rejected, Data within credit, PortData, PortCredits, "
            "SendFinish, ReceiveClose, ReceiveFinish, ClientFinish, ListenerFinish, Goodbye); every third case adds a hostile stream (responses for "
            "ports in the wrong state, data beyond chunk size or credit, duplicate requests, empty port batches, credit overflow, Hello/Reset mid-stream, "
            "finishes twice); two thirds of the valid cases end with an orderly shutdown; after every step the endpoint runs to quiescence and the "
            "messages it emitted (local port numbers renamed by first appearance), the dispatcher status (running/ok/reset/protocol/panic) and the "
            "connect outcomes are compared with the model; distinct = distinct input")
PROP = {
    "props_files": ["Props/C07.v", "Props/C07b.v", "Props/C07c.v"],
    "jobs": [
        {"component": "endpoint", "comp_num": 7, "quick": 1600, "thorough": 60000, "timeout": 3000},
        {"component": "net", "comp_num": 70, "quick": 320, "thorough": 20000, "args": ["--stream", "0"], "timeout": 3000},
        {"component": "net", "comp_num": 70, "quick": 480, "thorough": 30000, "args": ["--stream", "7"], "timeout": 3000},
        # the port-number allocator of a real connection, its allocate() futures polled and dropped by hand (Chmux/Alloc.v)
        {"component": "alloc", "comp_num": 71, "quick": 3000, "thorough": 200000, "timeout": 3000},
    ],
    "design_ref": "DESIGN.md section 5, C07",
    "level_text": "Theorems (Coq, closed under the global context) on the endpoint model, for every interleaving incl. an arbitrary peer: allocated port "
                  "numbers are pairwise distinct and never exceed max_ports, every table key is allocated; a connected port's entry is removed, and its "
                  "number released, exactly in a step after which all four directions were finished (both local halves dropped, SendFinish and "
                  "ReceiveFinish received) -- never earlier; should_terminate is exactly the documented condition. Tied to the code by the endpoint "
                  "differential (orderly shutdown sequences end with status Ok in model and code) and by a two-endpoint lifecycle stream: ports opened in "
                  "both directions over 1-3 cycles, traffic, a pending connect and an unanswered request, everything dropped in random order with and "
                  "without barriers; oracle: both dispatchers return Ok(()) without the transport being closed, concurrently open ports never share a number "
                  "or exceed max_ports, every number of both allocators can be allocated again, no background task is left. "
                  "Composed system (Props/C07b.v; Chmux/Net*.v: two endpoint models joined by two FIFO links): from every reachable state without a "
                  "protocol error in which no user object is left on either side (clients, listener, every sender and receiver half dropped, every request "
                  "dropped or answered, no accept under way) there is a run of the remaining system actions (drop notifiers, dispatcher steps, deliveries) "
                  "after which both dispatchers have ended with Goodbye sent and received; proved by a measure: in such a state every enabled system "
                  "action keeps the state good and strictly decreases the measure, and a state in which none is enabled has both dispatchers ended "
                  "successfully (no table entry, outstanding request or frame can be left behind); the all-clients-dropped marker is never lost and a sent "
                  "Goodbye is always in flight or received. Port-number allocator (Props/C07c.v; Chmux/Alloc.v, chmux/port_allocator.rs): for every interleaving of try_allocate, allocate() futures (started, polled -- spuriously too --, dropped at any point) and released numbers, the numbers in use never exceed the limit, and in every state in which a number is free every pending allocate() has been woken (no lost wake-up); a woken future polled while a number is free takes it. Tied to the real allocator of a connection by component 71: the harness polls the futures with flag wakers and drops them between wake-up and poll; results, the set of futures woken by each release and the state after an executor-style drain are compared with the model; oracle: no future left pending while a number is free.",
    "level_note": "PARTIAL: the two-endpoint statement is now PROVED for the composed model (C07_both_terminate, C07_system_action_decreases, "
                  "C07_stuck_is_finished) and additionally exercised by the lifecycle stream. Remaining gaps: the termination theorem carries the alternative "
                  "'or a quantity error ends the connection' because data events queued before the drop are not bounded by credits in the endpoint model "
                  "(C02/PortFlow.v proves the credit discipline for one port); fairness of the scheduler (that the enabled system actions are eventually taken) "
                  "is assumed, the theorem gives the run. Helper tasks are modelled as notifier steps; their exit is observed through the runtime's "
                  "alive-task counter.",
    "trivial_sig": r"malformed",
    "rule": _EP_RULE + " net stream 0: lifecycle as described in level_text.",
    "assumptions": ["paused-clock quiescence barrier", "tokio RuntimeMetrics::num_alive_tasks"],
}
