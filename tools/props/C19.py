"""C19 check configuration."""
PROP = {
        "props_files": ["Props/C19.v"],
        "jobs": [{"component": "rtc_cancel", "comp_num": 19, "quick": 1200, "thorough": 40000, "timeout": 6000}],
        "design_ref": "DESIGN.md section 5, C19; section 6 F6",
        "level_text": "Theorems (Coq, closed under the global context) on the same Gallina transcription as C12 (Rtc/Server.v: generated "
                      "client, five serve loops with spawn modes, dispatch with the biased select on closed(), #[no_cancel], send_reply, "
                      "error policies), for an arbitrary target state machine. In EVERY state: if the reply cell of a cancellable method is "
                      "closed, the next step of its handler -- not started, suspended before or after its effect -- abandons it, drops the "
                      "reply sender and releases the guard it held in that very step, executing nothing (C19_cancel); for the inline "
                      "handler the loop is back at its select with queue, tasks and target untouched and its next step dequeues the next "
                      "request (C19_cancel_inline, C19_cancel_next), for a spawned task only that task ends (C19_cancel_task); a "
                      "#[no_cancel] method moves one phase further with every poll whatever the state of its reply cell (C19_no_cancel). "
                      "For ALL action lists no lock guard is leaked: held read guards = live handlers, write guard held iff a live handler "
                      "holds it (C19_no_lock_leak). An undecodable request / unknown method drops only its own reply sender on arrival and "
                      "queues a non-final error which the loop handles per policy -- Ignore/Send leave the loop state otherwise unchanged, "
                      "Fail returns it (C19_isolated, C19_isolated_policy, C19_isolated_kind). 'A reply exceeding the size limit fails only "
                      "that call' is REFUTED on the faithful model (C19_reply_too_big_refuted: serve() ends with ReplySend and the queued "
                      "request of another client is dropped; finding F6, pinned by the existing test rtc::errors::max_item_size_exceeded) "
                      "and proved for every run without oversized replies or with a provider that does not report reply errors (rfn) "
                      "(C19_reply_too_big); likewise an oversized REQUEST latches the send error in the client's request sender (finding "
                      "F14: C19_request_too_big_refuted; C19_request_too_big for runs without such requests). Tie to the code: the C12 "
                      "harness with a generator biased to dropped call futures (before the first poll, after it, queued, executing before "
                      "/ after the effect, replying), lost connections, undecodable requests, calls of methods the server does not know (the client uses a later version of the trait) and undecodable replies under the three policies, "
                      "cancellable and no_cancel methods (each declared in four textual layouts of its attributes) on every flavour, remote and "
                      "local clients, and the callee going away (stop op: future of serve() / provider dropped; one case in twelve is built around it), call futures parked after their first poll "
                      "and resumed later, concurrency-limit changes of an RFn while invocations run; scripted cases compared event by event with the extracted "
                      "model (started / applied / finished / cancelled log of the target, outcomes of calls, end of serve()), 'race:' "
                      "cases and both known classes judged by the trace oracle.",
        "level_note": "Trusted: as C12. The close notification of a reply cell is a separate action (it may arrive at any time after the "
                      "caller dropped the future); 'abandoned at its next suspension point' is a statement about the handler's next poll. "
                      "OnReqReceiveError::Send is modelled as non-blocking (a user who never drains the channel can block the loop). "
                      "Oversized requests on the SERVER side (request larger than the server's limit) are not generated (16 MiB default).",
        "trivial_sig": r"^(scr|race):f\d[sn]:p\d:c\d(:local)?(:conc)?(:par)?(:mut)?(:val)?(:attr)?(:end)?$",
        "rule": "cases from one PRNG (VERIF_SEED) as for C12 but with frequent dropped calls (14% of the ops), futures dropped unpolled or "
                "after their first poll, connection cuts, dropped clients, undecodable requests / replies (10% of the calls each), calls of unknown methods (6% on the traits with &mut methods); "
                "every 24th case is a small scripted case of a known class: a reply above max_reply_size (signature F6:) or a request "
                "above max_request_size (signature F14:) between ordinary calls of the same and of other clients; every 24th case is an RFn 'limit' case as for C12, every 24th case is a 'consume' case (by-value server flavour: a few calls, then a by-value call, cancellable or no_cancel, possibly queued behind a suspended call and / or suspended at a gate, whose caller drops the future / loses the connection / stays; gate openings), half of the dropped futures of the general cases belong to calls suspended at a gate, every 12th case is a 'callee goes away' case as for C12 (calls, stop op, calls; half of them with local clients); a case is "
                "non-trivial if a call was cancelled, skipped, dropped, failed, undecodable, or the connection was cut; distinct = distinct input",
        "assumptions": [
            "the postbag codec round-trips the request and reply types of the harness traits",
            "requests stay below the server-side size limit",
        ],
        "disagreement_is_violation": None,
    }
