"""C10 check configuration."""
_EP_RULE = ("endpoint stream: ONE real endpoint whose peer is the harness (it answers the handshake and then injects protocol messages); "
            "cases from one PRNG: random Cfg (chunk 4..64, buffer 4..64, connect_queue 1..4, peer version 2 or 3), 6-40 steps mixing local API "
            "calls (connect, listener take/accept/reject/drop request, send, recv, close/drop receiver, drop sender, drop clients/listener, terminate) "
            "with peer messages that are mostly valid for the shadow state (OpenPort, PortOpened, Rejected, Data within credit, PortData, PortCredits, "
            "SendFinish, ReceiveClose, ReceiveFinish, ClientFinish, ListenerFinish, Goodbye); every third case adds a hostile stream (responses for "
            "ports in the wrong state, data beyond chunk size or credit, duplicate requests, empty port batches, credit overflow, Hello/Reset mid-stream, "
            "finishes twice); two thirds of the valid cases end with an orderly shutdown; after every step the endpoint runs to quiescence and the "
            "messages it emitted (local port numbers renamed by first appearance), the dispatcher status (running/ok/reset/protocol/panic) and the "
            "connect outcomes are compared with the model; distinct = distinct input")
PROP = {
    "props_files": ["Props/C10.v"],
    "jobs": [
        {"component": "endpoint", "comp_num": 7, "quick": 1600, "thorough": 60000, "timeout": 3000},
        {"component": "net", "comp_num": 70, "quick": 480, "thorough": 30000, "args": ["--stream", "1"], "timeout": 3000},
        {"component": "net", "comp_num": 70, "quick": 480, "thorough": 30000, "args": ["--stream", "7"], "timeout": 3000},
    ],
    "design_ref": "DESIGN.md section 5, C10",
    "level_text": "Theorems (Coq, closed under the global context) on the endpoint model, for every interleaving incl. an arbitrary peer: a connect request is "
                  "answered only while it is waiting and a resolved request is never rewritten (at most once); while waiting it has exactly one carrier (its "
                  "queued event or its Connecting table entry); the response recorded equals its cause (Rejected{no_ports} from the peer, locally detected "
                  "dropped remote listener, PortOpened{p,q} with ports[p] = Connected{remote = q} right after the step, ChMux only when the dispatcher "
                  "ends); the listener queues are bounded by connect_queue+1. Tied to the code by the endpoint differential (connect outcomes compared per "
                  "request, with version 2 and 3 peers) and by two-endpoint streams: concurrent connects against a listener that accepts/rejects/drops with "
                  "small max_ports and connect_queue -- one outcome per request, true reason, pairing checked by remote/local port numbers and by label "
                  "exchange over every accepted pair -- and the three exhaustion policies (fail / wait / wait with a time limit under the virtual clock).",
    "level_note": "PARTIAL: pairing across the two endpoints and 'a request reported as sent precedes later data' are exercised (label exchange; FIFO event "
                  "queue by construction) but not proved for the composed system; resolution at quiescence relies on C03/C07. Cancelled connect/accept "
                  "futures are covered by the request life cycle (dropped request => rejected) in the model and by the lifecycle stream.",
    "trivial_sig": r"malformed",
    "rule": _EP_RULE + " net stream 1: connects and exhaustion policies as described in level_text. net stream 7: an accept / reject future cancelled "
            "while it waits for a slot of the full event queue (one slot, stalled transport): the request must still resolve (as rejected) and the dispatchers must "
            "end Ok once everything is dropped; PortsExhausted::Wait(Some(limit)) with free ports and a listener answering after 4 x limit: the connect must wait for "
            "the answer; exactly connect_queue unanswered requests in an unpolled listener when all remote clients are dropped: no protocol error, every request resolves; connect requests abandoned (futures dropped) against an idle listener: the unanswered requests on the wire never exceed the advertised queue length, the connection survives and new connects go through afterwards.",
    "assumptions": ["paused-clock quiescence barrier"],
}
