"""C10 check configuration."""
_EP_RULE = ("endpoint stream: ONE real endpoint whose peer is the harness (it answers the handshake and then injects protocol messages); "
            "cases from one PRNG: random Cfg (chunk 4..64, buffer 4..64, connect_queue 1..4, peer version 2 or 3), 6-40 steps mixing local API "
            "calls (connect, listener take/accept/reject/drop request, send, recv, close/drop receiver, drop sender, drop clients/listener, terminate) "
            "with peer messages that are mostly valid for the shadow state (OpenPort, PortOpened, Rejected, Data within credit, PortData, PortCredits, "
            "SendFinish, ReceiveClose, ReceiveFinish, ClientFinish, ListenerFinish, Goodbye); every third case adds a hostile stream (responses for "
            "ports in the wrong state, data beyond chunk size or credit, duplicate requests, empty port batches, credit overflow, Hello/Reset mid-stream, "
            "finishes twice); two thirds of the valid cases end with an orderly shutdown; after every step the endpoint runs to quiescence and the "
            "messages it emitted (local port numbers renamed by first appearance), the dispatcher status (running/ok/reset/protocol/panic) and the "
            "connect outcomes are compared with the model; distinct = distinct input")
PROP = {
    "props_files": ["Props/C10.v", "Props/C10b.v", "Props/C07c.v"],
    "jobs": [
        {"component": "endpoint", "comp_num": 7, "quick": 1600, "thorough": 60000, "timeout": 3000},
        {"component": "net", "comp_num": 70, "quick": 480, "thorough": 30000, "args": ["--stream", "1"], "timeout": 3000},
        {"component": "net", "comp_num": 70, "quick": 480, "thorough": 30000, "args": ["--stream", "7"], "timeout": 3000},
        # a connect / accept that waits for a local port number resolves once one is released (Chmux/Alloc.v, Props/C07c.v)
        {"component": "alloc", "comp_num": 71, "quick": 3000, "thorough": 200000, "timeout": 3000},
    ],
    "design_ref": "DESIGN.md section 5, C10",
    "level_text": "Theorems (Coq, closed under the global context) on the endpoint model, for every interleaving incl. an arbitrary peer: a connect request is "
                  "answered only while it is waiting and a resolved request is never rewritten (at most once); while waiting it has exactly one carrier (its "
                  "queued event or its Connecting table entry); the response recorded equals its cause (Rejected{no_ports} from the peer, locally detected "
                  "dropped remote listener, PortOpened{p,q} with ports[p] = Connected{remote = q} right after the step, ChMux only when the dispatcher "
                  "ends); the listener queues are bounded by connect_queue+1. Tied to the code by the endpoint differential (connect outcomes compared per "
                  "request, with version 2 and 3 peers) and by two-endpoint streams: concurrent connects against a listener that accepts/rejects/drops with "
                  "small max_ports and connect_queue -- one outcome per request, true reason, pairing checked by remote/local port numbers and by label "
                  "exchange over every accepted pair -- and the three exhaustion policies (fail / wait / wait with a time limit under the virtual clock). "
                  "Composed system (Props/C10b.v; Chmux/Net*.v: two endpoint models joined by two FIFO links, every interleaving of the local actions of both "
                  "sides and of deliveries): in every reachable state without a protocol error each connected port p of one endpoint (remote q) is in "
                  "exactly one of three situations -- the peer's ports[q] is Connected with remote p; the peer's ports[q] is Connecting and our "
                  "PortOpened{q,p} is in flight; or the peer has released its end, in which case both local halves are dropped and announced and the "
                  "peer's SendFinish/ReceiveFinish have each been received or are in flight exactly once -- and no two connected ports of one endpoint "
                  "share a remote number (so two ports that name each other are connected to each other and to no other port, across port-number "
                  "reuse); the first protocol error of any run between two honest endpoints can only be a quantity error (chunk size, buffer overdraw, "
                  "batch size, empty batch, credit overflow, listener-queue overflow): every error about the state of a port or request is impossible, "
                  "i.e. every frame one endpoint emits is accepted by the table state of the other when it arrives; no panic site is reachable in the composition. A request that waits for a free local port number (wait flag / PortsExhausted::Wait, Listener::accept) is not left waiting once a number is released: the allocator theorems of Props/C07c.v (no lost wake-up under any interleaving of releases, polls and dropped allocate() futures) and the allocator differential (component 71) against the real allocator of a connection.",
    "level_note": "PARTIAL: pairing across the two endpoints is now PROVED for the composed model (C10_pairing, C10_paired_exclusive, C10_composed_invariant) and "
                  "additionally exercised by label exchange. Still only exercised / outside the theorems: (i) the quantity errors are excluded from the "
                  "composed no-error theorem because the endpoint model's sending side carries neither port credits (proved separately for one port in "
                  "C02/PortFlow.v) nor the connect-request credit of client.rs (the listener-queue bound for an honest client, C10_queue_bound of the "
                  "design, is exercised by net stream 7, not proved; C10b_quantity_errors_reachable_in_model shows the model reaches PTooManyOpen without it); "
                  "(ii) 'a request reported as sent precedes later data' rests on the FIFO event queue by construction; (iii) resolution at quiescence relies on "
                  "C03/C07. Cancelled connect/accept futures are covered by the request life cycle (dropped request => rejected) in the model and by the lifecycle stream.",
    "trivial_sig": r"malformed",
    "rule": _EP_RULE + " net stream 1: connects and exhaustion policies as described in level_text. net stream 7: an accept / reject future cancelled "
            "while it waits for a slot of the full event queue (one slot, stalled transport): the request must still resolve (as rejected) and the dispatchers must "
            "end Ok once everything is dropped; PortsExhausted::Wait(Some(limit)) with free ports and a listener answering after 4 x limit: the connect must wait for "
            "the answer; exactly connect_queue unanswered requests in an unpolled listener when all remote clients are dropped: no protocol error, every request resolves; connect requests abandoned (futures dropped) against an idle listener: the unanswered requests on the wire never exceed the advertised queue length, the connection survives and new connects go through afterwards.",
    "assumptions": ["paused-clock quiescence barrier"],
}
