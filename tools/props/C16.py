"""C16 check configuration."""
PROP = {
        "props_files": ["Props/C16.v"],
        "jobs": [{"component": "broadcast", "comp_num": 16, "quick": 800, "thorough": 30000}],
        "design_ref": "DESIGN.md section 5, C16",
        "level_text": "Theorems (Coq, closed under the global context) on a Gallina transcription of rch::broadcast "
                      "(Sender::send/subscribe, the spawned re-admission task with its three stages send(Lagged) / reserve+hand-back / "
                      "permit release, Receiver::try_recv, receiver drop): for every interleaving of sends, subscribes, consumes, drops "
                      "and task stages (induction over the action list through a per-subscriber invariant) every subscriber's stream "
                      "(received ++ queued) is strictly increasing and has a Lagged marker between two consecutive values iff their indices "
                      "are not consecutive, each marker standing for at least one skipped value; a parked subscriber's marker is queued or "
                      "owed and no value overtakes it; a subscriber that never found its queue full has every value since it subscribed; "
                      "Send is total and acts on each subscriber as a function of that subscriber alone. The transcription is tied to the "
                      "code by a functional correspondence on the real channel with local subscribers (big steps on a paused current-thread "
                      "runtime, same numbers from implementation, extracted model and in-kernel evaluation) and by an independent oracle on "
                      "local and remote subscribers.",
        "level_note": "Trusted: Coq kernel (+vm_compute), extraction (ExtrOcamlBasic only) and mrun glue (cross-checked in-kernel on a sample), "
                      "harness; Tokio's bounded mpsc is modelled as FIFO + permit count (a queued message and an outstanding permit each "
                      "occupy a slot; a closed channel fails send/reserve at once) and sampled, not verified; remote subscribers (forwarding "
                      "through rch::mpsc over chmux) are outside the model and judged by the oracle only; the model admits the multi-threaded "
                      "interleaving Send between hand-back and permit release (double marker), which the current-thread harness cannot produce.",
        "trivial_sig": r":lag0of0:drop0:late0:",
        "rule": "cases from one PRNG (VERIF_SEED): 1-4 initial subscribers with send buffers 1-4, 5-40 steps mixing sends, consumes of 1-3 items, "
                "late subscribes, receiver drops, with four consumption-rate classes; the quiescence barrier runs after every step in two "
                "thirds of the cases and after a random half of the steps otherwise; every 8th case is repeated with the receivers "
                "shipped over a chmux connection and random transport stalls (signature prefix remote:, oracle only; plus a dedicated pattern with small port buffers at the "
                "receiving endpoint: the other subscribers never consume and lag, one subscriber keeps up and is then dropped at the remote "
                "endpoint, its failure is noticed by a send at which all others lag; send must not fail while a subscriber is alive); every 16th case lets 2-4 OS threads send 20-120 values each concurrently on clones of the sender "
                "(value type with a slow Clone; subscribers with room for everything must obtain every value, per-thread order kept, every "
                "send Ok -- send is linearizable); after the compared part of every local case all senders are dropped while subscribers may be lagging and every subscriber drains: one that missed the last values must get a lag marker before the end of the channel; a case is "
                "non-trivial if a subscriber lagged, was dropped or joined late; distinct = distinct input",
        "assumptions": [
            "Tokio bounded mpsc semantics as stated in Rch/Broadcast.v (FIFO, capacity = messages + outstanding permits, close fails waiters)",
            "postbag codec round-trips BroadcastMsg<u64> (remote cases)",
        ],
    }
