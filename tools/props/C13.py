"""C13 check configuration (hash map / hash set part; vec, vec_deque and list are configured by the
colleague's version of this file -- the coordinator merges `props_files` and `jobs`)."""
PROP = {
        "props_files": ["Props/C13_HashMap.v", "Props/C13_HashSet.v"],
        "jobs": [
            {"component": "robs_map", "comp_num": 134, "quick": 1500, "thorough": 60000},
            {"component": "robs_set", "comp_num": 135, "quick": 1500, "thorough": 60000},
        ],
        "design_ref": "DESIGN.md section 5, C13; section 6, F4 (and F11, found while modelling the mirror task)",
        "level_text": "Theorems (Coq, closed under the global context) on Gallina transcriptions of ObservableHashMap / "
                      "ObservableHashSet (every public mutator incl. entry API, RefMut/IterMut use, retain closures with &mut V, "
                      "calls after done()), of HashMap/HashSetSubscription::{take_initial,recv} in both modes and of the mirror task: "
                      "for every initial content, operation list, subscription point, mode and max_size that is not exceeded, the "
                      "mirror ends with exactly the observed contents, done iff done() was called, complete, no error; the "
                      "hand-consumed event stream gives the same contents. Proved for all inputs outside two decidable classes "
                      "that the faithful model refutes with vm_compute witnesses (F4: retain closure changes a kept value; F11: "
                      "incremental subscription of a non-empty collection made after done()). Operation and event constructors are "
                      "tied to the mutator/variant lists regenerated from the Rust source; the transcription is tied to the code by a "
                      "differential run of the real collections, a real local mirror() and a hand-held subscription.",
        "level_note": "Trusted: Coq kernel (+vm_compute), translator, extraction and mrun glue (cross-checked in-kernel on a sample), "
                      "harness. Keys/values are u64 with structural equality; hash iteration order is abstracted (events of one "
                      "retain and the incremental initial value are compared after sorting by key, they commute); the mirror runs "
                      "locally, not across a connection (the event transport is C04/C16); lagging subscribers, drop before done and "
                      "max_size overflow belong to C14.",
        "trivial_sig": r"^malformed$",
        "rule": "cases from one PRNG (VERIF_SEED): initial content over keys 0..8, 5-60 operations over the whole mutating API "
                "(hits and misses, entry API on occupied and vacant entries with and_modify chains, RefMut read/touch/write, "
                "iter_mut drop orders, retain tables that also write into entries they remove, clear on empty, done/done twice/"
                "operations after done), one subscription point anywhere incl. after done, both modes, max_size mostly large "
                "and sometimes 1..8; separate rarer streams for the known classes (signature prefixes F4:, F11:); signature = "
                "mode:subscription position:rarest branch taken after the subscription; distinct = distinct input",
        "assumptions": [
            "HashMap::iter and HashMap::iter_mut visit an unmodified table in the same order (used by the harness to know "
            "which key a RefMut from iter_mut belongs to; RefMut does not expose its key)",
            "tokio paused-clock quiescence barrier: sleep(1ns) returns only when the mirror task and the incremental "
            "initial-value senders are idle",
        ],
    }
