"""C13 check configuration (merged: vector, deque, list, hash map, hash set)."""
PROP = {'assumptions': ['tokio paused-clock quiescence barrier: sleep(1ns)/timeout(1ns) complete only when every other task is idle',
                 'element type u64 with codec::Default stands for every T: Clone + RemoteSend',
                 'HashMap::iter and HashMap::iter_mut visit an unmodified table in the same order (used by the harness to know which key a '
                 'RefMut from iter_mut belongs to; RefMut does not expose its key)',
                 'tokio paused-clock quiescence barrier: sleep(1ns) returns only when the mirror task and the incremental initial-value '
                 'senders are idle'],
 'design_ref': 'DESIGN.md section 5, C13; Appendix B.4; section 6 F4, F11',
 'jobs': [{'comp_num': 131, 'component': 'robs_vec', 'quick': 1500, 'thorough': 60000},
          {'comp_num': 132, 'component': 'robs_deque', 'quick': 1500, 'thorough': 60000},
          {'comp_num': 133, 'component': 'robs_list', 'quick': 1500, 'thorough': 60000},
          {'comp_num': 134, 'component': 'robs_map', 'quick': 1500, 'thorough': 60000},
          {'comp_num': 135, 'component': 'robs_set', 'quick': 1500, 'thorough': 60000}],
 'level_note': 'Vector/deque: proved for all inputs incl. incremental subscription after done() (former finding F11, repaired in '
               '/repo; the two former witnesses are in corpus/C13 and replayed first, the class is ~8% of generated cases). '
               'Elements are N with Leibniz equality; usize treated as unbounded; mirrors are local (no connection), remote '
               'transport of the same event stream is the subject of C01/C04. Lagging subscribers and max_size overflow belong to C14 '
               '(max_size overflow is nevertheless compared between model and code). Hash map/set: Trusted: Coq kernel (+vm_compute), '
               'translator, extraction and mrun glue (cross-checked in-kernel on a sample), harness. Keys/values are u64 with structural '
               'equality; hash iteration order is abstracted (events of one retain and the incremental initial value are compared after '
               'sorting by key, they commute); the mirror runs locally, not across a connection (the event transport is C04/C16); lagging '
               'subscribers, drop before done and max_size overflow belong to C14.',
 'level_text': 'Sequences: Theorems (Coq, closed under the global context) on Gallina transcriptions of ObservableVec / ObservableVecDeque '
               '/ ObservableList (every public mutator incl. get_mut/iter_mut reference writes, retain, resize, swap_remove*, extend, '
               'no-op and panic cases, with exactly the events each sends), of VecSubscription::recv etc. (snapshot and incremental '
               'initial values, synthesized Done), of Mirrored*Inner::handle_event and of the mirror task loop: for every initial content, '
               'every non-panicking op list, every subscription point and both modes, the mirror task and a hand consumer fed with the '
               "subscription stream end with exactly the collection's contents, complete, and done iff done() was called, provided "
               'max_size is not exceeded; by induction over the op list through a one-step lemma. The op/event constructors are tied to '
               'the mutator and variant lists regenerated from the Rust source on every run; behaviour is tied by a differential run of '
               'the real collections, a real local mirror() and a hand-drained subscription against the extracted model, plus the oracle '
               'mirror == collection. Hash map/set: Theorems (Coq, closed under the global context) on Gallina transcriptions of '
               'ObservableHashMap / ObservableHashSet (every public mutator incl. entry API, RefMut/IterMut use, retain closures with &mut '
               'V, calls after done()), of HashMap/HashSetSubscription::{take_initial,recv} in both modes and of the mirror task: for '
               'every initial content, operation list, subscription point, mode and max_size that is not exceeded, the mirror ends with '
               'exactly the observed contents, done iff done() was called, complete, no error; the hand-consumed event stream gives the '
               'same contents. Hash set: proved without exception. Hash map: proved for all inputs outside one decidable class that the faithful '
               'model refutes with a vm_compute witness (F4: retain closure changes a kept value); the former class F11 (incremental '
               'subscription after done()) is repaired in /repo (290b96a), modelled as repaired and no longer excluded. Operation and event constructors are tied to the mutator/variant lists regenerated from the Rust source; the '
               'transcription is tied to the code by a differential run of the real collections, a real local mirror() and a hand-held '
               'subscription.',
 'props_files': ['Props/C13_Vec.v', 'Props/C13_VecDeque.v', 'Props/C13_List.v', 'Props/C13_HashMap.v', 'Props/C13_HashSet.v'],
 'rule': 'Every list case ends with a subscription made through a distributor handle after the list was marked done and dropped (every item, then Done). Every vector / deque case ends with a second-level subscription taken from the mirror while a reader holds a view of it and one more event is on its way (the mirror task queued for the write lock): its mirror must equal the collection. In half of the vector / deque / list cases (chosen by the input) the hand-held subscription is consumed the way a select! loop does: a pending recv() future is dropped and recreated after the other tasks ran, also right after subscribing (map and set poll once per round in every case). Sequences: cases from one PRNG (VERIF_SEED): initial contents of 0-6 elements, 5-60 mutator calls drawn over the whole API with '
         'indices at 0/len-1/len/len+1, no-op variants, rare panicking calls (caught, state unchanged), done() at a random point followed '
         'by repeated done()/panicking calls, one subscription point (start, middle, end, after done), both modes, max_size mostly large '
         'and sometimes 0-8; every case runs the real collection, a real mirror() and two hand-held subscriptions; the signature names '
         'mode, subscription point, mirror outcome and one of the mutator branches the case exercised (chosen by input hash); distinct = '
         'distinct input Hash map/set: cases from one PRNG (VERIF_SEED): initial content over keys 0..8, 5-60 operations over the whole '
         'mutating API (hits and misses, entry API on occupied and vacant entries with and_modify chains, RefMut read/touch/write, '
         'iter_mut drop orders, retain tables that also write into entries they remove, clear on empty, done/done twice/operations after '
         'done), one subscription point anywhere incl. after done, both modes, max_size mostly large and sometimes 1..8; separate rarer '
         'streams for the known classes (signature prefixes F4:, F11:); signature = mode:subscription position:rarest branch taken after '
         'the subscription; distinct = distinct input',
 'trivial_sig': '(:malformed$|^malformed$)'}
