"""C13 check configuration (sequence-like collections: vector, deque, append-only list)."""
PROP = {
        "props_files": ["Props/C13_Vec.v", "Props/C13_VecDeque.v", "Props/C13_List.v"],
        "jobs": [
            {"component": "robs_vec", "comp_num": 131, "quick": 1500, "thorough": 60000},
            {"component": "robs_deque", "comp_num": 132, "quick": 1500, "thorough": 60000},
            {"component": "robs_list", "comp_num": 133, "quick": 1500, "thorough": 60000},
        ],
        "design_ref": "DESIGN.md section 5, C13; Appendix B.4",
        "level_text": "Theorems (Coq, closed under the global context) on Gallina transcriptions of ObservableVec / ObservableVecDeque / "
                      "ObservableList (every public mutator incl. get_mut/iter_mut reference writes, retain, resize, swap_remove*, "
                      "extend, no-op and panic cases, with exactly the events each sends), of VecSubscription::recv etc. (snapshot and "
                      "incremental initial values, synthesized Done), of Mirrored*Inner::handle_event and of the mirror task loop: for "
                      "every initial content, every non-panicking op list, every subscription point and both modes, the mirror task "
                      "and a hand consumer fed with the subscription stream end with exactly the collection's contents, complete, "
                      "and done iff done() was called, provided max_size is not exceeded; by induction over the op list through a "
                      "one-step lemma. The op/event constructors are tied to the mutator and variant lists regenerated from the Rust "
                      "source on every run; behaviour is tied by a differential run of the real collections, a real local mirror() and "
                      "a hand-drained subscription against the extracted model, plus the oracle mirror == collection.",
        "level_note": "Vector/deque: the theorem excludes the class `incremental subscription taken after done() on a non-empty collection` "
                      "(finding F11: the pinned mirror task starts with done=true and stops after the first initial Push); "
                      "C13_*_known_class_refuted proves the divergence on the model and the class is replayed on the real code under its own "
                      "signature. Elements are N with Leibniz equality; usize treated as unbounded; mirrors are local (no connection), "
                      "remote transport of the same event stream is the subject of C01/C04. Lagging subscribers and max_size overflow belong to C14 "
                      "(max_size overflow is nevertheless compared between model and code). Hash map/set are checked by the sibling C13 components.",
        "trivial_sig": r":malformed$",
        "rule": "cases from one PRNG (VERIF_SEED): initial contents of 0-6 elements, 5-60 mutator calls drawn over the whole API with "
                "indices at 0/len-1/len/len+1, no-op variants, rare panicking calls (caught, state unchanged), done() at a random point "
                "followed by repeated done()/panicking calls, one subscription point (start, middle, end, after done), both modes, "
                "max_size mostly large and sometimes 0-8; every case runs the real collection, a real mirror() and two hand-held "
                "subscriptions; the signature names mode, subscription point, mirror outcome and one of the mutator branches the case "
                "exercised (chosen by input hash); distinct = distinct input",
        "assumptions": [
            "tokio paused-clock quiescence barrier: sleep(1ns)/timeout(1ns) complete only when every other task is idle",
            "element type u64 with codec::Default stands for every T: Clone + RemoteSend",
        ],
    }
