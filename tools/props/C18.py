"""C18 check configuration."""
PROP = {
        "props_files": ["Props/C18.v"],
        "jobs": [{"component": "io", "comp_num": 18, "quick": 800, "thorough": 30000, "timeout": 3000}],
        "design_ref": "DESIGN.md section 5, C18",
        "level_text": "Theorems (Coq, closed under the global context) on a Gallina transcription of rch::io::{Sender,Receiver} "
                      "(poll_write/poll_flush/poll_shutdown/poll_read incl. the futures left in place after an error) over the "
                      "event stream of the underlying chmux port (message | end | error) and the size oneshot: for ALL action lists "
                      "(writes with any buffer, flushes, shutdowns, sender drop, reads of any size incl. 0, arrival of every event and "
                      "of the size announcement, connection cut, transport readiness and message splitting per sender poll) bytes read "
                      "are a prefix of bytes accepted and equal at EOF; EOF only at the fixed / announced-by-successful-shutdown size; "
                      "a sized sender never accepts or transmits beyond its size and refuses with WriteZero; short streams (short "
                      "shutdown, stream end before the size, sender dropped without shutdown, broken event stream) give "
                      "UnexpectedEof / the transport error and never EOF; poll_read's loop terminates. The transcription is tied to "
                      "the code by a differential run of the real io halves across a real two-endpoint connection (AsyncWriteExt/"
                      "AsyncReadExt with scripted sizes, one big step per op on a paused current_thread runtime, harness-owned "
                      "transport with explicit delivery and cut), compared number by number with the extracted model and re-checked "
                      "in the kernel on a sample; an independent trace oracle states the property on every implementation trace, "
                      "also on a second stream with small receive buffers (blocked writes, split messages) where only the oracle applies.",
        "level_note": "Trusted: Coq kernel (+vm_compute), extraction (ExtrOcamlBasic only) and mrun glue (cross-checked in-kernel on a sample), "
                      "harness and its transport. Modelled as assumptions: the channel is already connected (moving a half is C05), the "
                      "receiver is not dropped before the sender, chmux delivers complete messages in order (C01) -- flow control is "
                      "abstracted to a per-poll 'transport ready' choice quantified over in the theorems and exercised only by the "
                      "oracle-only stream. A poll after a failed future is the Rust panic 'async fn resumed after completion'; the model "
                      "makes it an explicit Panic result and the harness observes it on the real code (reported as a finding, not "
                      "counted as a C18 violation: an error was reported first and EOF is never returned).",
        "trivial_sig": r"^(remote:)?(un)?sized:(rx|tx)B$",
        "rule": "cases from one PRNG (VERIF_SEED): payload 0-200 bytes, sized/unsized, chunk sizes 4..16384 at both endpoints, either half "
                "moved to the other endpoint, scripts of writes/reads with sizes around the chunk size (0, 1, cs-1, cs, cs+1, 2cs), "
                "flushes, deliveries, and an ending drawn from normal / short (fixed size above the payload; unsized dropped without "
                "shutdown) / dropped early / over-long (fixed size below the payload) / connection cut; every 8th case is the "
                "oracle-only 'remote:' stream with receive buffers 64..1024 and an auto-delivering link, in which the sender, already used, is flushed and moved on to the other endpoint up to twice (its byte count must travel with it); a case is non-trivial "
                "unless its signature shows no feature beyond mode and placement; distinct = distinct input",
        "assumptions": [
            "io halves are moved once, before the first read/write (wiring is C05)",
            "receive_buffer >= 64 in the oracle-only stream to stay clear of finding F3 (DESIGN section 6)",
        ],
    }
