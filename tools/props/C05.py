"""C05 check configuration."""
PROP = {
        "props_files": ["Props/C05.v"],
        "jobs": [{"component": "halves", "comp_num": 5, "quick": 8000, "thorough": 240000, "timeout": 3000}],
        "design_ref": "DESIGN.md section 5, C05; section 6, F10",
        "level_text": "Theorems (Coq, closed under the global context) on a Gallina transcription of PortSerializer / "
                      "PortDeserializer (rch/base), chmux::forward, the life cycle of a port-open request and the bin/lr interlock. "
                      "WIRING: for every ordered list of halves (any length, kinds, directions; nesting is abstracted to the "
                      "serializer's visiting order), every number of forwarding hops (induction over the hops), every choice of port "
                      "numbers without repetition at every node, every port limit and every split of the port messages into batches "
                      "(chunk size, credits): each delivered half is connected to the origin callback of the half with the same label, "
                      "the pairing is injective in both directions and defined on every normally travelling half; superfluous requests "
                      "are rejected, lost ones reported as MissingPorts with exactly their ids, exhaustion at either end fails the whole "
                      "item exactly when it carries more halves than ports are left. ERRORS: a small-step system for the requests of a "
                      "value along h connections, for ALL schedules (which request moves, where/when connections are lost) and all "
                      "far-end decisions: connect succeeds only for accepted requests, dropped requests leave nothing at the far end, "
                      "every unresolved request has an enabled step, every schedule takes at most n(3h+2) steps, and at quiescence an "
                      "accepted request is connected at both ends or (connection lost) failed at the origin, a dropped one failed at the "
                      "origin: nothing pending. INTERLOCK: for the repaired transitions no sequence of serializations / confirmations / "
                      "cancellations lets the second half take the direct path while the first is away (bin: forwarding, lr: error; "
                      "cancel reverts to Local); REFUTED by witness for the code as it is (finding F10), proved for it outside the known "
                      "class. The transcription is tied to the code by facts regenerated from the source on every run (ids, order, "
                      "with_id, match by id, MissingPorts; which location the four bin/lr serializers mark selects the model variant) and "
                      "by a differential run: real connections (Connect::framed over the harness transport) chained 1-3 hops with the "
                      "real chmux forward, values built as Vec/Option/tuple/enum/HashMap trees with 0-16 halves of mpsc, oneshot, watch, "
                      "broadcast, bin, lr, port limits at both ends, version skew (ignored halves, lost requests), connection loss in "
                      "flight and after, chunk sizes down to 4 and receive buffers down to 64; labels are sent through every channel "
                      "and the observations (who got which label, clean end / error / absent) are compared number by number with the "
                      "extracted model and re-checked in the kernel on a sample; an independent oracle states the property on every "
                      "implementation trace (label matrix is a partial permutation, unmatched ends report an error, nothing pending; "
                      "a sender half handed over with 0..8 items queued locally -- up to a completely full queue -- that the far end "
                      "never built (deserialization failed for lack of ports, half ignored, connection lost in flight) leaves the "
                      "receiver end with exactly the queued items followed by an error, never a clean end).",
        "level_note": "Trusted: Coq kernel (+vm_compute), extraction (ExtrOcamlBasic only) and mrun glue (cross-checked in-kernel on a "
                      "sample), translator, harness and its transport. TRUSTED HYPOTHESIS of C05_errors (to be discharged by C10 / C06): "
                      "on a live connection every request in flight is delivered and answered exactly once, on a lost connection every "
                      "outstanding request fails -- in the model: AMove / ALost is enabled for every unresolved request. Abstracted: the "
                      "codec (the deserializer visits the halves in the serializer's order), what each channel type does with its port "
                      "(the last stage of the executable model maps connectivity to observations per type and is validated by the "
                      "differential run only), credit flow of the port messages (C03; every batching is covered by the theorem), a "
                      "forwarding node whose allocator is exhausted waits (WFwdWait, not exercised). Connection loss AFTER the halves "
                      "were connected is compared only up to 'no label' (a forwarding hop reports the failure to the side behind it as a "
                      "clean end-of-stream: classification, not wiring).",
        "trivial_sig": r"^(remote:)?h1:n[01](:il)?$",
        "rule": "cases from one PRNG (VERIF_SEED): 1-3 hops, 0-8 channels of the six kinds, each sending its sender half, its receiver "
                "half or both (in either order, in one or two consecutive values), 15% of the single halves with version skew (ignored "
                "by the far end / request lost), 30% of the mpsc channels (local queue of 8) with items queued before the hand-over (a third each: one item, 2-7 items, "
                "8 = queue completely full), port limits at "
                "origin and far end drawn around the number of halves of the first value (need-1, need, need+1, 0), optional retry "
                "after a serialization error, connection loss in flight (first/last connection) or after delivery, receive buffers "
                "64..1024 or default, chunk sizes 4..64 or default, random tree shape per value; every 16th case is the separate "
                "stream of the known class F10 (both halves of a bin/lr channel), every 16th an oracle-only 'remote:' case; a case is "
                "trivial if it has at most one channel over one hop and no special feature; distinct = distinct input",
        "assumptions": [
            "chmux: every port-open request sent on a live connection is delivered and answered exactly once; on a lost connection "
            "every outstanding request fails (C10, C06)",
            "codec round trip: the deserializer visits the transported halves in the order the serializer visited them",
            "receive_buffer >= 64 (F3 is repaired in /repo; smaller buffers are C03's subject)",
        ],
    }
