"""C01 check configuration."""
_PORT_RULE = ("cases from one PRNG (VERIF_SEED): a real chmux connection with one port (sender at endpoint A, receiver at B); random Cfg pairs "
              "(chunk 4..64, receive buffer 4..100 incl. non-multiples of 4, shared/transport send queues 1..3, max_data_size 4..300, "
              "max_received_ports 1..8); 4-30 big steps: send / try_send / send_chunks sessions (send, send_final, finish) / connect with "
              "1-5 ports of sizes around chunk, buffer and max_data_size, cancellation of the pending future, transport sink toggled not-ready "
              "(fills the event queue), delivery of 1-4 messages A->B and of credit messages B->A one step at a time, the receiver pumping "
              "(recv_any, then recv_chunk after Chunks), then a drain phase; after every big step both endpoints run to quiescence "
              "(paused Tokio clock) and the frames that appeared on the wire in both directions, the messages the receiver obtained and the "
              "sender's status are compared with the model's big step; one case in six has a consumer that gives up every other chunked message (calls recv_any again instead of draining with recv_chunk; judged by the oracle only: received is an in-order sub-sequence of the completed sends, nothing pending after the drain, no credit lost); a case is non-trivial unless it is malformed; distinct = distinct input")
PROP = {
    "props_files": ["Props/C01.v"],
    "jobs": [{"component": "port", "comp_num": 1, "quick": 1600, "thorough": 60000, "timeout": 3000}],
    "design_ref": "DESIGN.md section 5, C01",
    "level_text": "Theorems (Coq, closed under the global context): (1) for every configuration accepted by Cfg::check and EVERY schedule of user "
                  "calls (send, try_send, chunk sender, connect), cancellations at every await, task steps, frame and credit deliveries, the frames "
                  "handed over by the sender parse to exactly the sends that returned Ok (cancel/failure atomicity); (2) a receiver following the "
                  "receive protocol obtains from any frame sequence exactly the data messages it contains, whole or streamed (refinement of the "
                  "ideal parser by the transcription of recv_any/recv_chunk); (3) hence the received data messages are always a prefix of the completed "
                  "sends and equal to them at quiescence. The model is the Gallina transcription of sender.rs/receiver.rs/credit.rs and the relevant "
                  "dispatcher paths; it is tied to the code by a big-step differential against a real connection plus an independent oracle.",
    "level_note": "Trusted: Coq kernel, extraction/mrun (sample re-checked in-kernel), harness, quiescence barrier, Tokio primitives (mpsc FIFO, wake-ups). "
                  "The dispatcher between the event queue and the per-port queue is modelled as FIFO stages (TMux/TLink); cross-port interleaving is "
                  "covered by the fifo-projection argument of the Mux model, not here. Liveness is stated at quiescence (C03 gives progress).",
    "trivial_sig": r"malformed",
    "rule": _PORT_RULE,
    "assumptions": ["paused-clock quiescence barrier", "one port per connection in this component; port messages of other ports are not held back"],
}
