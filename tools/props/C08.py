"""C08 check configuration."""
_EP_RULE = ("endpoint stream: ONE real endpoint whose peer is the harness (it answers the handshake and then injects protocol messages); "
            "cases from one PRNG: random Cfg (chunk 4..64, buffer 4..64, connect_queue 1..4, peer version 2 or 3), 6-40 steps mixing local API "
            "calls (connect, listener take/accept/reject/drop request, send, recv, close/drop receiver, drop sender, drop clients/listener, terminate) "
            "with peer messages that are mostly valid for the shadow state (OpenPort, PortOpened, Rejected, Data within credit, PortData, PortCredits, "
            "SendFinish, ReceiveClose, ReceiveFinish, ClientFinish, ListenerFinish, Goodbye); every third case adds a hostile stream (responses for "
            "ports in the wrong state, data beyond chunk size or credit, duplicate requests, empty port batches, credit overflow, Hello/Reset mid-stream, "
            "finishes twice); two thirds of the valid cases end with an orderly shutdown; after every step the endpoint runs to quiescence and the "
            "messages it emitted (local port numbers renamed by first appearance), the dispatcher status (running/ok/reset/protocol/panic) and the "
            "connect outcomes are compared with the model; distinct = distinct input")
PROP = {
    "props_files": ["Props/C08.v"],
    "jobs": [{"component": "endpoint", "comp_num": 7, "quick": 2400, "thorough": 100000, "timeout": 3000}],
    "design_ref": "DESIGN.md section 5, C08",
    "level_text": "Theorems (Coq, closed under the global context) on the endpoint model (dispatcher handlers transcribed from mux.rs, allocator, client and "
                  "listener sides, user-held objects): for EVERY interleaving of well-formed local API actions, helper-task steps, dispatcher steps and "
                  "ARBITRARY received messages no panic!/unwrap site of the dispatcher is reached (via a well-formedness invariant linking user objects, the "
                  "port table and the event queues); handle_received never panics in any state; every received message either keeps the invariant or ends "
                  "the connection with a protocol/reset error after which nothing is enabled; per port the queued bytes never exceed the advertised receive "
                  "buffer and the number of queued messages is at most used+1; pending listener requests are bounded by connect_queue+1. The decoder's "
                  "totality is C09. The model is tied to the code by the endpoint differential (harness as peer), 100% agreement required.",
    "level_note": "Trusted: Rust ownership as encoded in the enabledness of local actions (stated in EndpointInv.v); PortNumbers come from this endpoint's "
                  "allocator (a number from another multiplexer's allocator passed to connect_ext/accept_from can reach a panic -- outside 'hostile peer'); "
                  "process memory is bounded through queue contents, the allocator itself is not modelled. Known model imprecision (errs towards extra "
                  "protocol errors, never hides one): a closed listener queue is counted as full in the window before ListenerDropped is processed.",
    "trivial_sig": r"malformed",
    "rule": _EP_RULE + " Every tenth case adds an oracle-only flood case: the peer starts a port message and keeps sending continuation chunks with fresh "
            "ports and never the last one (max_received_ports 1..6): the receiver must fail with an error as soon as the limit is exceeded instead of accumulating; "
            "or one batch names a port twice: the connection must end with a protocol error; or a local send / chunked send / multi-port open request is blocked on flow credits when the peer violates the protocol (data or credits for an unknown port, a second Hello): the blocked operation must end with an error; or the peer sends connect_queue + 2 open requests of one kind (wait or no-wait) to an idle listener: the connection must end with a protocol error at the last one and not before. Oracle in the main stream: a port batch without ports must end the connection.",
    "assumptions": ["paused-clock quiescence barrier", "hook H2 (codec) is used by the harness to speak the protocol"],
}
