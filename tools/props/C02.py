"""C02 check configuration."""
_PORT_RULE = ("cases from one PRNG (VERIF_SEED): a real chmux connection with one port (sender at endpoint A, receiver at B); random Cfg pairs "
              "(chunk 4..64, receive buffer 4..100 incl. non-multiples of 4, shared/transport send queues 1..3, max_data_size 4..300, "
              "max_received_ports 1..8); 4-30 big steps: send / try_send / send_chunks sessions (send, send_final, finish) / connect with "
              "1-5 ports of sizes around chunk, buffer and max_data_size, cancellation of the pending future, transport sink toggled not-ready "
              "(fills the event queue), delivery of 1-4 messages A->B and of credit messages B->A one step at a time, the receiver pumping "
              "(recv_any, then recv_chunk after Chunks), then a drain phase; after every big step both endpoints run to quiescence "
              "(paused Tokio clock) and the frames that appeared on the wire in both directions, the messages the receiver obtained and the "
              "sender's status are compared with the model's big step; one case in six has a consumer that gives up every other chunked message (calls recv_any again instead of draining with recv_chunk; judged by the oracle only: received is an in-order sub-sequence of the completed sends, nothing pending after the drain, no credit lost); a case is non-trivial unless it is malformed; distinct = distinct input")
PROP = {
    "props_files": ["Props/C02.v"],
    "jobs": [{"component": "port", "comp_num": 1, "quick": 1600, "thorough": 60000, "timeout": 3000}],
    "design_ref": "DESIGN.md section 5, C02",
    "level_text": "Theorems (Coq, closed under the global context), for every configuration accepted by Cfg::check and every schedule incl. arbitrarily delayed credit frames and any history of cancelled/failed sends: at every prefix the cost the sender has put on the transport minus the credit delivered back to it never exceeds the advertised receive buffer (so the receiving dispatcher never reports an overdraw, an oversized chunk or a credit overflow); every frame on the transport respects the advertised chunk size; the receiver never grants more than it consumed. Proved as one conservation invariant by induction over the schedule; tied to the code by the big-step differential of a real connection and by an independent wire monitor over the real transport log.",
    "level_note": "Trusted: Coq kernel, extraction/mrun (sample re-checked in-kernel), harness, quiescence barrier, Tokio primitives (mpsc FIFO, wake-ups). "
                  "The dispatcher between the event queue and the per-port queue is modelled as FIFO stages (TMux/TLink); cross-port interleaving is "
                  "covered by the fifo-projection argument of the Mux model, not here. Liveness is stated at quiescence (C03 gives progress).",
    "trivial_sig": r"malformed",
    "rule": _PORT_RULE,
    "assumptions": ["paused-clock quiescence barrier", "one port per connection in this component; port messages of other ports are not held back"],
}
