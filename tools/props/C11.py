"""C11 check configuration."""
PROP = {
    "props_files": ["Props/C11.v"],
    "jobs": [
        {"component": "net", "comp_num": 70, "quick": 640, "thorough": 40000, "args": ["--stream", "2"], "timeout": 3000},
        {"component": "port", "comp_num": 1, "quick": 800, "thorough": 30000, "timeout": 3000},
        {"component": "endpoint", "comp_num": 7, "quick": 600, "thorough": 30000, "timeout": 3000},
        # the typed channels built on ports: items in transit while the receiving side cancels, closes or drops
        {"component": "base", "comp_num": 4, "quick": 400, "thorough": 16000, "timeout": 3000},
    ],
    "design_ref": "DESIGN.md section 5, C11",
    "level_text": "Theorems (Coq, closed under the global context): for every schedule of the port-flow system, when the receiver observes end-of-stream "
                  "it has obtained every completed send and nothing is under way (the Finished marker is last in the same FIFO); closing the credit pool "
                  "removes nothing already handed over (prefix / equality at quiescence hold in all reachable states, TClose being one of the scheduled "
                  "actions) and a send started afterwards is woken and fails without emitting; at the dispatcher ReceiveClose closes the pool gracefully "
                  "and ReceiveFinish non-gracefully in every state, also after a graceful close, or frees the port. Tied to the code by the port and "
                  "endpoint differentials (the latter injects ReceiveClose/ReceiveFinish/SendFinish in any order and compares everything emitted) and by "
                  "a two-endpoint close stream: a message stream with close / drop / close-then-drop (sender overriding graceful close) at a chosen "
                  "position; oracle: received = sent prefix byte for byte, end-of-stream only after everything whose send completed, failing sends "
                  "classified Closed{gracefully: true} after close and false after drop, nothing pending at quiescence.",
    "level_note": "PARTIAL: ports and the dispatcher are proved; the classification seen through the typed channels (mpsc ClosedReason, back-channel "
                  "bytes, Sending handles of locally queued values) is exercised by the typed-channel checks (C04, C16, C18 remote streams) and not "
                  "proved here. The eventual observability of a close is 'the event is queued and every queue drains' (C03/C07), not a temporal theorem.",
    "trivial_sig": r"malformed",
    "rule": "net stream 2: 1-8 messages of 0-19 bytes over random Cfg pairs (receive buffers 4..1024 incl. non-multiples of 4, event queues 1..3), "
            "close/drop position anywhere incl. before the first and after the last message, five kinds (receiver closes / is dropped / senders dropped / sender overriding graceful close with the receiver closed then dropped / sender overriding graceful close that sends 10-60 further messages of 1-40 bytes to a closed receiver that keeps receiving: all must arrive, then end-of-stream; a close() cancelled while it waits for a slot of the full one-slot event queue and then repeated: the sender must still learn of it; a forwarding hop A -> B (chmux::Receiver::forward) -> C with small buffers at C, C closing while 4-24 messages are under way: what completed at A arrives at C, then end-of-stream); port and endpoint streams as in C01/C08; typed-channel stream (base) as in C04, incl. receives that are dropped and repeated while the deserializer thread of a streamed value is held; "
            "distinct = distinct input",
    "assumptions": ["paused-clock quiescence barrier"],
}
