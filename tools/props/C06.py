"""C06 check configuration."""
PROP = {
    "props_files": ["Props/C06.v"],
    "jobs": [
        {"component": "net", "comp_num": 70, "quick": 320, "thorough": 20000, "args": ["--stream", "3"], "timeout": 3000},
        {"component": "endpoint", "comp_num": 7, "quick": 800, "thorough": 40000, "timeout": 3000},
        # the exchanged timeout (C06_timeout_announced is about Wire.timeout_millis): handshake/Hello encodings incl. sub-millisecond timeouts
        {"component": "codec", "comp_num": 9, "quick": 1500, "thorough": 60000},
    ],
    "design_ref": "DESIGN.md section 5, C06",
    "level_text": "Theorems (Coq, closed under the global context): an ended dispatcher (protocol/reset error caused by any received message, or "
                  "Goodbye both ways) is final and, in every history leading there, leaves no local connect request waiting; an operation waiting for "
                  "flow credits is woken and fails when its pool is closed or gone; the received-prefix theorem of C01 holds in every reachable state; "
                  "virtual-time arithmetic of keep-alive and timeout: a silent transport is noticed within the enforced timeout, an idle healthy link "
                  "with jitter below half the enforced timeout never times out for EVERY configured timeout -- one gap, and (C06_idle_healthy_forever, induction over the timeline of both timers in Chmux/TimeRun.v) an idle period of ANY length; silence beginning after any such timeline is noticed exactly one enforced timeout after the last arrival (C06_silence_after_any_prefix); a configured timeout is never announced as "
                  "none. Tied to the code by (a) the endpoint differential (harness as peer, incl. hostile frames that end the dispatcher: status, emitted "
                  "messages and connect outcomes compared with the model) and (b) a two-endpoint fault stream under Tokio's paused clock: sink error, "
                  "stream error, end of stream, silence in both or one direction at a random point of a workload with a sender blocked on credits, a "
                  "pending recv, connect and accept; oracle: both dispatchers end with an error within three timeouts of virtual time, every pending "
                  "operation completes with an error; idle healthy connections survive 1000 timeouts and still work.",
    "level_note": "PARTIAL at the proof level: the theorems cover the dispatcher/endpoint and port state machines; the wake-up of every waiter kind "
                  "(recv on a closed per-port queue, accept on a closed listener queue, event-queue senders) rests on the assumed semantics of Tokio "
                  "channels (closed channel => error) and is exercised, not proved, by the fault stream. Wall-clock behaviour, OS sockets and Tokio's "
                  "1 ms timer resolution are outside the model (the idle stream uses timeouts >= 5 ms); sub-millisecond timeouts are therefore tied differently: the announced value by the codec differential (Hello bytes for sub-millisecond durations), the locally enforced minimum and the peer's ping divisor by generated facts read from ChMux::run (LOCAL_TIMEOUT_MIN_MS, PING_DIVISOR), on which C06_idle_never_times_out depends. Typed-channel and RPC error translation is "
                  "covered by the checks of C04/C12/C15/C18 remote streams, not here.",
    "trivial_sig": r"malformed",
    "rule": "net stream 3: random Cfg pairs and timeouts (1 ms .. 60 s, plus sub-millisecond ones), a workload with four kinds of pending operations, "
            "one fault of 6 kinds at a random virtual instant (silent stalls in half of the cases at a random FRAME index of the workload instead, e.g. between the header and the payload frame of a data message; the deadline counts from the first lost frame) (afterwards a receiver is read repeatedly: it must keep reporting the failure, never end-of-stream), or a fault during the handshake (one direction never writable, or its frames vanish: creating the multiplexers must fail by timeout), or a long idle period (a thousand local timeouts, at most 300 000 ping intervals) in which two thirds of the cases give the two endpoints different timeouts (7 ms / 300 ms / 60 s / none against 5 ms .. 60 s: each side must ping at the rate the other one needs); endpoint stream: see C08; distinct = distinct input",
    "assumptions": ["Tokio paused clock auto-advance = virtual time", "Tokio mpsc/oneshot: a closed channel wakes its waiters with an error"],
}
