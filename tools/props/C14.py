"""C14 check configuration."""
PROP = {
    "props_files": ["Props/C14.v"],
    "jobs": [{"component": "robs_lag", "comp_num": 14, "quick": 2400, "thorough": 60000}],
    "design_ref": "DESIGN.md section 5, C14",
    "level_text": "Theorems (Coq, closed under the global context) on a small-step system (Robs/Mirror.v) of one observable collection, "
                  "its broadcast channel (the proved C16 model Rch/Broadcast.v, reused unchanged) and any number of subscribers -- mirror "
                  "tasks and hand-held subscriptions, local or behind a connection -- generic in the collection kind through the interface "
                  "of the C13 models and instantiated for vector, deque, hash map, hash set: for EVERY interleaving of API calls, single "
                  "event emissions, subscriptions (any mode, buffer size, max_size, time), recv calls of every subscriber (any speed), "
                  "re-admission task stages, forwarding steps, connection cuts, drop of the collection (before/after done) and of "
                  "subscribers, every subscriber has been given a gap-free prefix of the events it is entitled to; with no error stored the "
                  "mirror's inner state is exactly those events applied; with an error stored the consumer has stopped at the FIRST error "
                  "(Lagged, Closed, receive error returned by recv; MaxSizeExceeded / InvalidIndex returned by handle_event) with the state it "
                  "had then, and nothing changes it afterwards (sticky; detach returns it). Hand-held subscriptions: gap-free prefix then at "
                  "most one error. Link to C13: whole-call prefixes give the collection's real states. Append-only list (Robs/ListDist.v: "
                  "request queue, distribution task, per-subscriber pos, capacity-1 channels, retirement): every subscriber receives "
                  "buffer[0..len) exactly once in order for every interleaving, only Closed as error, Done last and after all elements, "
                  "InitialComplete after initial_len elements. Tie: real collections with buffers 1-4, slow consumers, small max_size, drop "
                  "before/after done are compared exactly with the model's big steps (proved to be small-step runs) and judged by an "
                  "independent oracle; a remote stream (subscription shipped over a real connection, transport stalled and cut) is judged by "
                  "the oracle.",
    "level_note": "Trusted: Coq kernel (+vm_compute), translator, extraction and mrun glue (cross-checked in-kernel on a sample), harness, the "
                  "transcription of recv()/mirror() into Mirror.v (validated by the differential run) and the Broadcast model of C16. The "
                  "remote path is modelled as forwarder + cut with an arbitrary already-arrived prefix; chmux buffering itself is C01-C03. "
                  "Which recv error class is produced in which situation is part of the transcription (recv_out), not a theorem; the "
                  "theorems say that whatever error is produced first is stored, sticky, and preceded by a gap-free prefix. A consumer by "
                  "hand is modelled as stopping at its first error (the real receiver could go on after Lagged). Hash map/set: events of an "
                  "unfinished incremental initial value are compared as a set (hash order).",
    "trivial_sig": r"^lag:(malformed|\w+:nosub)$",
    "rule": "In half of the cases (chosen by the input) hand-held subscriptions are consumed the way a select! loop does (a pending recv() future is dropped and recreated after the other tasks ran). "
            "Cases from one PRNG (VERIF_SEED): kind (vector, deque, map, set, list; every 6th case remote vector), 0-3 initial elements, "
            "1-3 early subscribers (mirror 60% / by hand, snapshot or incremental, buffer 1-4, max_size 1-5 in 1 of 6), then 3-14 big steps: "
            "bursts of 1-8 calls without a scheduling point (incl. multi-event iter_mut, done), recv of 1-10 events by a slow consumer, new "
            "subscribers, drop of the collection, drop/detach of a subscriber, remote: stall/release and cut of the transport; all tasks run "
            "to idle after each step; signature = kind + set of subscriber outcomes (m-/h- x ok/lagged/closed/maxsize/remote); distinct = "
            "distinct input",
    "assumptions": [
        "tokio paused-clock quiescence barrier: sleep(1ns)/timeout(1ns) complete only when every other task is idle",
        "element type u64 with codec::Default stands for every T: Clone + RemoteSend",
        "on the current-thread runtime the hand-back and permit release of a broadcast re-admission task are atomic (no send in between); "
        "the model's small steps also cover the multi-threaded interleaving",
    ],
}
