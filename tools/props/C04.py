"""C04 check configuration."""
PROP = {
    "props_files": ["Props/C04.v"],
    "jobs": [{"component": "base", "comp_num": 4, "quick": 640, "thorough": 16000, "timeout": 3000}],
    "design_ref": "DESIGN.md section 5, C04",
    "level_text": "Theorems (Coq, closed under the global context) on a Gallina transcription of rch::base::Sender::send (big_data heuristic "
                  "with its clamp, buffered attempt into the max_data_size-limited writer, restart as a stream of chunk_size chunks with "
                  "the running max_item_size check and finish, every abort point leaving an unfinished chunk sequence, then the port "
                  "batch) and of rch::base::Receiver::recv (the 'restart loop over recved/data/item/port_deser on top of the proved "
                  "chmux recv_any/recv_chunk transcription, incl. the early abort of a stream above max_item_size and a recv future "
                  "that is dropped and polled again): for EVERY codec with exact round trip and self-delimiting encodings, all size "
                  "relations, every list of items (ok / Serialize failing after j bytes / too large for the sender / for the receiver only / "
                  "cancelled at any credit budget, with or without channel halves), EVERY cutting of the attempts into chmux frames and EVERY "
                  "receiver schedule (a prefix = channel or connection ended), the receiver's results are, send by send and in order, what each "
                  "send means: its value iff the send returned Ok and the receiver can accept it (equal, once), otherwise nothing or exactly one "
                  "non-final error at its own position; hence successes = accepted successful sends in order, loss only as a suffix. For "
                  "rch::mpsc (one base channel per remote sender forwarded into one bounded queue; recv with final_err withholding) a "
                  "conservation invariant over ALL schedules of forwarding tasks, port/connection ends and recv calls gives: per sender, "
                  "received ++ queued ++ still-to-come = what its base receiver yields, so received values are a per-sender prefix of the "
                  "successful sends and a non-final error never costs a neighbour; the end of the channel is reported only when nothing can "
                  "follow. rch::lr (= base on its own port) and rch::oneshot (= mpsc, buffer 1, one send) are corollaries. The statement "
                  "holds for ALL item attempts since the repair of finding F15 (the feed loop skips to the end of the message when the "
                  "deserializer has ended early); its former witnesses are positive examples (vm_compute) and corpus cases. Tie: differential run of the real base/lr/mpsc/oneshot channels over a real two-endpoint "
                  "connection against the extracted model, number by number, plus an independent trace oracle; the differential run includes receives whose pending future is dropped and repeated while the "
                  "deserializer thread of a streamed value is held (chunk queue to it full or not), which must give the result of an undisturbed receive.",
    "level_note": "Trusted: Coq kernel (+vm_compute), extraction (ExtrOcamlBasic only) and mrun glue (sample re-checked in-kernel), harness, its "
                  "transport and its quiescence barrier (paused clock; while (de)serializer threads are outstanding: all other threads asleep and "
                  "observables stable over several real-time ticks). Abstracted: the codec (a value is its encoding; serde/postbag assumed exact "
                  "and self-delimiting); the spawn_blocking (de)serializer threads beyond 'chunks in order, stops at the failure / when the value "
                  "is complete' (the narrow race in which the deserializer thread drops its channel between permit.send and the next reserve is "
                  "not exhibited; a deserializer slower than the transport is exhibited only as 'held at one payload byte until released', with the recv future "
                  "dropped at quiescence, i.e. at the await point where the call is blocked); the chmux layer below is the C01-C03 model: the receiver theorems quantify over arbitrary framings of complete/unfinished "
                  "messages, and C04_port_emits_framings proves on the PortFlow model that under every port schedule a base sender's port emits "
                  "exactly such a framing (the identification of the attempt list with send_all's output is by definition of base_send, not a "
                  "composed state machine); connection failure appears as 'the schedule stops' (prefix) and, for mpsc, as an explicit final-error action; "
                  "mpsc::Receiver::recv_many (documented to lose a batch on a non-final error) and Distributor are not modelled. For mpsc with "
                  "moved senders both base halves use the sender's max_item_size, so 'too large for the receiver only' is exercised on base/lr.",
    "trivial_sig": r"^(unparsable|setup-failed)$",
    "rule": "cases from one PRNG (VERIF_SEED), 20 slots: 6 base channel with nothing blocking (sends and receives interleaved, a pending recv is "
            "dropped and repeated; 1 recv in 6, also in the lr slots, is a stalled one with 1-2 drops and `at` 0..19, see below), 1 base (3 in 4) or lr channel with chunk size 4..8, max_data_size 8..64 and 2-5 values of which 2 in 3 are "
            "streamed in 29..96 chunks (half of them within -3..+6 of the 32-chunk queue between recv and the deserializer thread; Serialize failing 1 in 6, undecodable 1 in 10, "
            "receiver max_item_size 64..300 in 1 case of 4) met by stalled receives: the harness value's Deserialize, when it runs on a helper thread, is held before payload byte "
            "`at` (0, 0..11 or anywhere in the value) so that the chunk queue runs full, the pending recv future is dropped and recv called again 1-3 times, then the "
            "deserializer is released and the call awaited; the model decodes a stalled recv as a plain recv (cancel safety: same result required, compared exactly), "
            "4 base channel with receive buffer 64..200 and an idle receiver (sends run out of credit and are cancelled, "
            "credit arithmetic in the model), 4 mpsc with 1-3 remote senders (bursts per sender, drops of senders, rejection after a failure), "
            "2 lr, 1 oneshot (fresh channel per item), 1 mpsc with concurrent senders and a local buffer of 1-2 (oracle only), 1 stream of unfinished "
            "messages that carry a complete encoding with a repeated recv (the former finding F15; also 1 in 4 x 1/(plen+1) elsewhere); Cfg: max_data_size of sender and receiver drawn independently from 8..1000, chunk size "
            "4..64, max_item_size on either side 10..150 or large; payload sizes around every limit (+-1), chunk multiples, 0..260; Serialize "
            "failing after k payload bytes (1 in 4), undecodable values (1 in 10), a channel half inside the value (1 in 6, kept clear of the "
            "limits by the 4 bytes its random port number may vary); every op (and every drop / repetition / release inside a stalled recv) is followed by the quiescence barrier; compared exactly: send "
            "result class, buffered/streamed mode and data bytes seen on the wire per send, every recv result; a case is non-trivial unless "
            "unparsable; distinct = distinct input",
    "assumptions": [
        "receive buffers >= 64 and at most one channel half per value (keeps clear of the repaired F3 class; C05 is about halves)",
    ],
}
