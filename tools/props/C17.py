"""C17 check configuration."""
PROP = {
        "props_files": ["Props/C17.v"],
        "jobs": [{"component": "rwlock", "comp_num": 17, "quick": 1600, "thorough": 60000, "timeout": 3000}],
        "design_ref": "DESIGN.md section 5, C17; section 6, F5",
        "level_text": "Theorems (Coq, closed under the global context) on a Gallina transcription of robj::rw_lock "
                      "(owner task with its biased select, invalidate / wait-for-all-copies / hand out / store / confirm cycle; "
                      "per-ReadLock cache behind a FIFO-fair Tokio RwLock; fetch fast and slow path; one monitor task per fetched value; "
                      "write guard commit / drop) for any number of clients on any number of caches (local clones share one cache, every "
                      "lock received at another endpoint has its own): for ALL interleavings of user actions (invoke read/write, release, "
                      "commit v, drop) with internal actions (lock grants, every step of every client future incl. arrival of its request at "
                      "the owner, monitor steps, arrival of the invalidation at each cached value, owner steps) -- induction over the action "
                      "list through two invariants -- a write guard never coexists with a read guard or another write guard; a held read or "
                      "write guard shows the stored value, which is the latest committed one and whose commit index lies between the request's "
                      "invocation (ghost time stamp) and now; every commit call is stored or in flight (none lost), only the owner storing a "
                      "commit changes the value (a dropped write guard changes nothing); every internal action decreases a measure. "
                      "Deadlock freedom is REFUTED on the faithful model of the code as it is (finding F5: concrete reachable deadlock by "
                      "vm_compute) and for the repair 'clear the stale entry', and PROVED for the repair 'always drop the cached entry after "
                      "taking the cache write lock' (model parameter). Tie: TRACE ACCEPTANCE -- the real Owner/RwLock driven by actor clients "
                      "(local clones and locks sent over a real Connect::framed connection), every command followed by a quiescence barrier, the "
                      "observed status of every client after every barrier is checked to be a history of the model (all interleavings of "
                      "internal actions explored, extracted model, sample re-checked in the kernel); plus an independent oracle on every "
                      "recorded history (exclusion, durability, freshness by intervals, no request pending after all guards are released), "
                      "also on un-barriered race cases with H1 poll deferral, on CANCELLATION cases -- pending read()/write() futures are "
                      "dropped where they stand (at a quiescent point in barriered 'cbar' cases, after a few yields under H1 deferral in race "
                      "cases) while other clients hold guards or wait, and further requests follow; a cancelled request must be without effect: "
                      "the same exclusion / durability / freshness / progress rules on the remaining events; barriered cases with cancelled WRITE "
                      "requests only ('wbar') are in addition accepted against the model: the model has no cancel action, the acceptance search "
                      "(RunRwLock.accept_g, not covered by C17_acceptance_sound) lets the cancelled request live on as a ghost client whose guard "
                      "is dropped as soon as it is granted -- which is what the owner sees (new_value_tx dropped); cases with cancelled READ "
                      "requests are oracle only -- and on a multi-thread run of the F5 race.",
        "level_note": "Trusted: Coq kernel (+vm_compute), extraction (ExtrOcamlBasic only) and mrun glue (cross-checked in-kernel on a sample), "
                      "harness, its transport and the paused-clock quiescence barrier. Assumed, not modelled: the Tokio RwLock is FIFO-fair "
                      "(modelled as a queue with a separate grant action), mpsc/oneshot/watch deliver in order and eventually; the remote "
                      "transport of requests, values, drop notifications and invalidations is abstracted to the nondeterministic delay of "
                      "the corresponding internal action (a remote drop notification is merged with the action that drops the copy); the "
                      "owner lives for the whole run (no into_inner / Owner drop), one outstanding request or guard per client, no connection "
                      "failure. The MODEL and the theorems have no cancellation of pending lock futures: a cancelled write request is represented in the "
                      "acceptance search by a ghost client that drops its guard at once (a request cancelled while its send still waits for room in "
                      "the request channel never reaches the real owner; its ghost is served when no copy of the generation exists, unobservable at "
                      "a barrier); a cancelled read request (the future holds the cache write lock) is exercised on the real code only and judged "
                      "by the history oracle. Progress of the code as it is: known finding F5 (open).",
        "trivial_sig": r"^(bar|cbar|wbar|race):k\d+s?:r[01]w0c0d0",
        "rule": "cases from one PRNG (VERIF_SEED): 2-4 client actors over 1-4 caches (cache 0 = local clones, others = locks moved to a second "
                "endpoint), 4-18 commands (acquire read / acquire write / release / commit fresh value / drop) mostly valid for the guessed "
                "client status; 3 of 4 cases barriered (5 of 8 without cancellation, 1 of 8 'wbar' with cancelled write requests: accepted against the model; "
                "1 of 8 'cbar' with cancelled read and write requests: oracle only), every 4th an un-barriered race (yields, optional "
                "barriers, H1 deferral seed) judged by the oracle only; cancellation cases (cbar = kind 3, wbar = kind 4, "
                "half of the race cases): a coarse simulation of the request queue in the generator tells which "
                "requests are probably pending, those are cancelled (command 6: the client's read()/write() future is dropped) 2 times out "
                "of 3, holders of guards go on otherwise, new requests of any client follow; 1 in 12 releases is preceded by a cancellation "
                "that comes too late (skipped); in wbar cases only write requests are cancelled (a cancel command on a pending read is skipped) and all clients use one cache "
                "(local or remote: requests of different endpoints piled up behind the full request channel reach the owner in another order "
                "than invoked, the model has one FIFO); corpus/C17/cancel.case "
                "holds scripted cancellation cases (guard held / request served / request queued / send waiting when cancelled); every 16th case is the F5 witness script of Props/C17.v (readers on "
                "the local or a remote cache); every 64th a multi-thread run of the F5 race; a case is non-trivial unless it has at most one "
                "read and no write; distinct = distinct input",
        "assumptions": [
            "owner alive for the whole case; no connection fault",
            "theorems: pending lock futures are never cancelled (cancelled write requests are compared with the model through ghost clients, cancelled read requests are judged by the oracle only)",
            "default chmux configuration (large receive buffers) on the remote connection",
        ],
    }
