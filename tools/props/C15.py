"""C15 check configuration."""
PROP = {
        "props_files": ["Props/C15.v"],
        "jobs": [{"component": "watch", "comp_num": 15, "quick": 4000, "thorough": 150000, "timeout": 3000}],
        "design_ref": "DESIGN.md section 5, C15",
        "level_text": "Theorems (Coq, closed under the global context) on a Gallina transcription of rch::watch (Sender::send/send_modify/"
                      "subscribe/drop, Receiver borrow/borrow_and_update/changed/clone/drop, Receiver and Sender serialize/deserialize, the "
                      "forwarding tasks send_impl and recv_impl): a tree of Tokio watch cells (value, version, closed, per-receiver seen "
                      "version) joined by links (forwarder's seen version, remote FIFO, task liveness). For ALL action lists -- every "
                      "update sequence, every moment of clone/subscribe/drop/observe/transfer of a receiver or of the sender, any number of "
                      "hops, every schedule of every forwarding-task step, connection failures -- every value shown to a receiver was "
                      "stored under that index and the indices shown to a receiver never decrease (induction through a per-link ordering "
                      "invariant); for all fault-free action lists, in every state where no forwarding step is enabled every live "
                      "receiver's cell holds the value stored last, in particular one sent immediately before the sender was dropped "
                      "(induction over the distance from the root through a link invariant that uses Tokio's 'unseen version before "
                      "closure' rule), and while some receiver's cell is behind a forwarding step is enabled. The transcription is tied to "
                      "the code by running the real channel with receivers and the sender shipped over real connections (1-3 hops, three "
                      "endpoints, harness transport, paused current-thread runtime, hook H1 poll deferral): observations behind a quiescence "
                      "barrier are compared number by number with the extracted model (barrier = Watch.quiesce, proved to be small "
                      "steps) and re-evaluated in the kernel on a sample; un-barriered observations are checked by trace acceptance (the "
                      "implementation's observation is written into the case and the model decides admissibility); an independent oracle "
                      "states the property on every implementation trace. Item size limits and watch::forward are covered by a second, small executable description "
                      "(Run/RunWatchSize.v, no theorems: cells joined by links with a sender-side limit -- a larger value ends the stream "
                      "behind that link only -- and a receiver-side limit -- a larger value is shown as an error value and skipped) "
                      "that is compared number by number with the real channel on programs run at quiescence, plus an oracle for the "
                      "un-barriered programs.",
        "level_note": "Trusted: Coq kernel (+vm_compute), extraction (ExtrOcamlBasic only) and mrun glue (cross-checked in-kernel on a sample), "
                      "harness, its transport and the quiescence barrier. Tokio's watch is modelled, not verified: T1 changed() reports an "
                      "unseen version before closure, T2 send fails without storing iff there is no receiver / closed() completes iff "
                      "there is none, T3 version marking of subscribe/clone/borrow_and_update (read off tokio 1.49 sync/watch.rs). The "
                      "remote channel of a link is assumed FIFO and exactly-once (C01/C04) and values always serialize (no item-specific "
                      "send error). Liveness is stated at quiescence plus progress; termination of the forwarding steps without new "
                      "updates is not proved (the fuelled runner reports exhaustion as 95; never observed). The acceptance rule for "
                      "racy observations (Run/RunWatch.v) is an interval abstraction of the model, validated, not proved complete. "
                      "ReceiverStream, wait_for, mark_changed/unchanged are outside the model; forward() and max_item_size handling are "
                      "outside the proved model Rch/Watch.v and are only tested against Run/RunWatchSize.v (a validated description, "
                      "nothing proved about it; values below the chunking threshold only, one connection, limits 96/400/3000/default) "
                      "and the oracle of harness/src/watch_size.rs.",
        "trivial_sig": r"^exact:hops0:tx0:drop0:burst[01]:",
        "disagreement_is_violation": None,
        "rule": "cases from one PRNG (VERIF_SEED): initial payload, 0-2 early receiver transfers, then 6-34 steps drawn from: bursts of 1-5 "
                "send/send_modify (1 in 8 followed at once by the drop of the sender), observations (borrow_and_update, borrow, a poll "
                "of changed() with now_or_never), transfer of a receiver clone to a neighbouring endpoint (A-B-C chain, also back), "
                "clone, subscribe, receiver drop, transfer of the sender, harness yields (partial progress of the forwarding tasks), "
                "transport stall / piecewise frame delivery / unstall (a quarter of the cases), sender drop; a quiescence barrier follows "
                "a step with probability 10/25/50/80 % (per case); every 12th case is repeated as an oracle-only stream with connection "
                "failures (prefix fault:); signature = class (exact/race/fault), longest chain of connections between the sender and a live receiver, sender transfers, "
                "drop kind (2 = right after an update), longest burst, stall, racy and stale observation counts; a case is "
                "non-trivial unless it has no remote receiver, no sender transfer, no sender drop and no burst; distinct = distinct input. "
                "Every 4th case is followed by a program with item size limits (prefix size:, harness/src/watch_size.rs): source = "
                "watch::channel or a Tokio watch channel made remote by watch::forward; 1-3 initial and further transfers of receiver "
                "clones over one connection (either direction, chains up to 3 links), each serialized as Receiver<_,_,S> and "
                "deserialized as Receiver<_,_,R> with S, R drawn independently from 96/400/3000/default (half of them with S >= R), "
                "local clones, drops; 4-14 steps of 1-3 published values whose serialized size is small (45 %), a limit -1/+0/+1/+7 "
                "(45 %) or above every restricted limit (10 %), borrow_and_update / changed polls, yields, source drop; 3 in 5 of these "
                "run with a barrier after every operation (size:quiet, compared exactly with Run/RunWatchSize.v: observations and a "
                "final dump of value, closed flag, unseen flag per receiver), the others only with the barriers the program contains "
                "(size:racy, output 96, oracle only). Oracle for both: shown values were stored and never go back; an error value "
                "needs a stored value exceeding a receiver-side limit on the receiver's path; at every barrier a receiver whose "
                "stream has ended while the source is alive needs a value exceeding a sender-side limit on ITS OWN path, every other "
                "receiver holds the value stored last (or the error value if that value exceeds only a receiver-side limit on its path); "
                "after the final drop of the source no receiver stays open and Forwarding has resolved, with an error only if "
                "some value exceeded a sender-side limit. Signature size:quiet|racy:sender|forward:links:depth:cut (receivers ended "
                "by a limit):err (error values shown):burst",
        "assumptions": [
            "Tokio watch semantics T1-T3 as stated in Rch/Watch.v",
            "FIFO exactly-once delivery on the remote channel of a link (C01, C04); postbag round-trips u64",
            "fault-free part of the statement: no connection failure on a link that a live receiver depends on",
        ],
    }
