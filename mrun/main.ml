(* mrun: reads case lines "<component> <n> <n> ...", prints the model's output numbers per line.
   Decimal <-> N conversion goes through the extracted N arithmetic, so numbers are unbounded. *)
open Model

let rec pos_of_int (i : int) : positive =
  if i = 1 then XH else if i land 1 = 0 then XO (pos_of_int (i lsr 1)) else XI (pos_of_int (i lsr 1))
let n_of_small (i : int) : n = if i = 0 then N0 else Npos (pos_of_int i)
let ten = n_of_small 10
let n_of_string (s : string) : n =
  if String.length s <= 17 then n_of_small (int_of_string s)
  else begin
    let acc = ref N0 in
    String.iter (fun c -> acc := N.add (N.mul !acc ten) (n_of_small (Char.code c - 48))) s; !acc
  end
let rec int_of_pos (p : positive) : int = match p with XH -> 1 | XO q -> 2 * int_of_pos q | XI q -> 2 * int_of_pos q + 1
let rec pos_bits (p : positive) : int = match p with XH -> 1 | XO q | XI q -> 1 + pos_bits q
let string_of_n (x : n) : string =
  match x with
  | N0 -> "0"
  | Npos p when pos_bits p <= 61 -> string_of_int (int_of_pos p)
  | _ ->
    let buf = Buffer.create 32 in
    let rec go x acc = match x with
      | N0 -> acc
      | _ -> let (q, r) = N.div_eucl x ten in
             go q ((match r with N0 -> 0 | Npos p -> int_of_pos p) :: acc) in
    List.iter (fun d -> Buffer.add_char buf (Char.chr (48 + d))) (go x []); Buffer.contents buf

let () =
  let ic = if Array.length Sys.argv > 1 then open_in Sys.argv.(1) else stdin in
  let out = Buffer.create 65536 in
  (try
    while true do
      let line = input_line ic in
      let toks = List.filter (fun s -> s <> "") (String.split_on_char ' ' line) in
      (match toks with
       | [] -> Buffer.add_char out '\n'
       | c :: rest ->
         let res = run (n_of_string c) (List.map n_of_string rest) in
         let first = ref true in
         List.iter (fun x -> if not !first then Buffer.add_char out ' '; first := false;
                     Buffer.add_string out (string_of_n x)) res;
         Buffer.add_char out '\n');
      if Buffer.length out > 60000 then (print_string (Buffer.contents out); Buffer.clear out)
    done
  with End_of_file -> ());
  print_string (Buffer.contents out)
