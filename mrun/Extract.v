(* Extraction of the executable model.  ExtrOcamlBasic only: bool, option, unit, list, prod,
   sumbool map to the native OCaml types; N, positive, nat stay extracted inductives.
   No Extract Constant / Extract Inductive directives of our own. *)
From Coq Require Import Extraction ExtrOcamlBasic NArith.
From Remoc Require Import Run.Dispatch.
Extraction Language OCaml.
Extraction "model.ml" Dispatch.run N.add N.mul N.div_eucl N.of_nat.
