#!/bin/sh
# extract the model and build the OCaml runner (needs coq/theories built)
set -e
cd "$(dirname "$0")"
mkdir -p extracted
cd extracted && coqc -Q ../../coq/theories Remoc ../Extract.v >/dev/null && cd ..
rm -f Extract.vo Extract.vok Extract.vos Extract.glob .Extract.aux
cp main.ml extracted/main.ml
cd extracted
ocamlfind ocamlopt -O2 -w -a model.mli model.ml main.ml -o mrun 2>/dev/null || ocamlfind ocamlopt -w -a model.mli model.ml main.ml -o mrun
