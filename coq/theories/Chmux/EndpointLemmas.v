(** Invariants of one chmux endpoint ([Mux.v], [Endpoint.v]) under every interleaving of local API
    actions, helper-task steps, dispatcher steps and arbitrary received messages. *)
From Remoc Require Import Lib.Base Gen.Consts Chmux.Wire Chmux.Mux Chmux.Endpoint.
From RecordUpdate Require Import RecordUpdate.

(** * Association lists *)
Lemma eqb_refl' k : (k =? k) = true. Proof. apply N.eqb_refl. Qed.

Lemma lookup_remove {A} k k' (l : list (N * A)) :
  lookup k (remove k' l) = if k =? k' then None else lookup k l.
Proof.
  induction l as [|[k1 v] l IH]; cbn [remove lookup].
  - now destruct (k =? k').
  - destruct (k' =? k1) eqn:E1.
    + apply N.eqb_eq in E1. subst k1. rewrite IH. now destruct (k =? k').
    + cbn [lookup]. rewrite IH. destruct (k =? k1) eqn:E2; [|reflexivity].
      apply N.eqb_eq in E2. subst k1. rewrite N.eqb_sym, E1. reflexivity.
Qed.

Lemma lookup_insert {A} k k' (v : A) l :
  lookup k (insert k' v l) = if k =? k' then Some v else lookup k l.
Proof. unfold insert. cbn [lookup]. rewrite lookup_remove. now destruct (k =? k'). Qed.

Lemma mem_del k k' l : mem k (del k' l) = if k =? k' then false else mem k l.
Proof.
  induction l as [|x l IH]; cbn [del mem].
  - now destruct (k =? k').
  - destruct (k' =? x) eqn:E1.
    + apply N.eqb_eq in E1. subst x. rewrite IH. destruct (k =? k'); reflexivity.
    + cbn [mem]. rewrite IH. destruct (k =? x) eqn:E2; cbn [orb]; [|reflexivity].
      apply N.eqb_eq in E2. subst x. rewrite N.eqb_sym, E1. reflexivity.
Qed.

Lemma mem_cons k x l : mem k (x :: l) = (k =? x) || mem k l. Proof. reflexivity. Qed.
Lemma mem_app k l1 l2 : mem k (l1 ++ l2) = mem k l1 || mem k l2.
Proof. induction l1 as [|x l1 IH]; cbn [mem app]; [reflexivity|]. rewrite IH. now rewrite orb_assoc. Qed.
Lemma mem_rev k l : mem k (rev l) = mem k l.
Proof.
  induction l as [|x l IH]; cbn [rev mem]; [reflexivity|]. rewrite mem_app, IH. cbn [mem].
  rewrite orb_false_r. apply orb_comm.
Qed.
Lemma mem_In k l : mem k l = true <-> In k l.
Proof.
  induction l as [|x l IH]; cbn [mem In]; [split; [discriminate|tauto]|].
  rewrite orb_true_iff, IH, N.eqb_eq. split; intros [H|H]; auto.
Qed.
Lemma mem_false_In k l : mem k l = false <-> ~ In k l.
Proof. rewrite <- mem_In. destruct (mem k l); split; congruence. Qed.

Lemma In_del k x l : In x (del k l) <-> In x l /\ x <> k.
Proof.
  rewrite <- !mem_In, mem_del. destruct (x =? k) eqn:E.
  - apply N.eqb_eq in E. split; [discriminate|tauto].
  - apply N.eqb_neq in E. tauto.
Qed.
Lemma NoDup_del k l : NoDup l -> NoDup (del k l).
Proof.
  induction 1 as [|x l Hx Hn IH]; cbn [del]; [constructor|].
  destruct (k =? x); [exact IH|]. constructor; [|exact IH]. rewrite In_del. tauto.
Qed.
Lemma len_del k l : len (del k l) <= len l.
Proof.
  induction l as [|x l IH]; cbn [del]; [lia|]. destruct (k =? x); rewrite ?len_cons; lia.
Qed.

Lemma keys_remove {A} k (l : list (N * A)) x : In x (map fst (remove k l)) <-> In x (map fst l) /\ x <> k.
Proof.
  induction l as [|[k1 v] l IH]; cbn [remove map In fst]; [tauto|].
  destruct (k =? k1) eqn:E.
  - apply N.eqb_eq in E. subst k1. rewrite IH. intuition congruence.
  - apply N.eqb_neq in E. cbn [map In fst]. rewrite IH. intuition congruence.
Qed.
Lemma NoDup_keys_remove {A} k (l : list (N * A)) : NoDup (map fst l) -> NoDup (map fst (remove k l)).
Proof.
  induction l as [|[k1 v] l IH]; cbn [remove map fst]; [constructor|].
  intros H. inversion H as [|? ? Hx Hn]; subst. destruct (k =? k1); [auto|].
  cbn [map fst]. constructor; [|auto]. rewrite keys_remove. tauto.
Qed.
Lemma NoDup_keys_insert {A} k (v : A) l : NoDup (map fst l) -> NoDup (map fst (insert k v l)).
Proof.
  intros H. unfold insert. cbn [map fst]. constructor; [|now apply NoDup_keys_remove].
  rewrite keys_remove. tauto.
Qed.
Lemma lookup_None_keys {A} k (l : list (N * A)) : lookup k l = None <-> ~ In k (map fst l).
Proof.
  induction l as [|[k1 v] l IH]; cbn [lookup map In fst]; [tauto|].
  destruct (k =? k1) eqn:E.
  - apply N.eqb_eq in E. subst. split; [discriminate|tauto].
  - apply N.eqb_neq in E. rewrite IH. split; [intros H [H1|H1]; [congruence|tauto]|tauto].
Qed.

(** * Counting *)
Definition b2n (b : bool) : N := if b then 1 else 0.
Definition isK {A} (o : option A) : N := match o with Some _ => 1 | None => 0 end.
Fixpoint count {A} (f : A -> bool) (l : list A) : N :=
  match l with [] => 0 | x :: r => b2n (f x) + count f r end.
Lemma count_app {A} (f : A -> bool) l1 l2 : count f (l1 ++ l2) = count f l1 + count f l2.
Proof. induction l1 as [|x l1 IH]; cbn [count app]; lia. Qed.
Lemma count_cons {A} (f : A -> bool) x l : count f (x :: l) = b2n (f x) + count f l. Proof. reflexivity. Qed.
Lemma count_nil {A} (f : A -> bool) : count f [] = 0. Proof. reflexivity. Qed.
Lemma count_snoc {A} (f : A -> bool) l x : count f (l ++ [x]) = count f l + b2n (f x).
Proof. rewrite count_app. cbn [count]. lia. Qed.

Definition occ (p : N) (l : list N) : N := count (fun x => x =? p) l.
Lemma occ_app p l1 l2 : occ p (l1 ++ l2) = occ p l1 + occ p l2. Proof. apply count_app. Qed.
Lemma occ_cons p x l : occ p (x :: l) = b2n (x =? p) + occ p l. Proof. reflexivity. Qed.
Lemma occ_nil p : occ p [] = 0. Proof. reflexivity. Qed.
Lemma occ_rev p l : occ p (rev l) = occ p l.
Proof. induction l as [|x l IH]; cbn [rev]; [reflexivity|]. rewrite occ_app, IH, !occ_cons, occ_nil. lia. Qed.
Lemma occ_mem p l : occ p l = 0 <-> mem p l = false.
Proof.
  induction l as [|x l IH]; cbn [mem]; [rewrite occ_nil; tauto|]. rewrite occ_cons, (N.eqb_sym x p).
  destruct (p =? x); cbn [b2n orb]; [split; [lia|discriminate]|]. rewrite <- IH. lia.
Qed.
Lemma occ_pos_mem p l : 1 <= occ p l <-> mem p l = true.
Proof.
  pose proof (occ_mem p l) as H. destruct (mem p l).
  - split; [reflexivity|]. intros _. destruct (N.eq_dec (occ p l) 0) as [E|E]; [|lia].
    apply H in E. discriminate.
  - split; [|discriminate]. intros H1. assert (occ p l = 0) by now apply H. lia.
Qed.

(** * 1. The message handler never panics *)
Lemma maybe_free_insert m p c :
  maybe_free (m <| ports := insert p (Connected c) (ports m) |>) p <> None.
Proof.
  unfold maybe_free. cbn [ports set RecordSet.set]. rewrite lookup_insert, eqb_refl'.
  destruct (tx_dropped c && rx_dropped c && negb (rx_open c) && rrx_dropped c); discriminate.
Qed.

Theorem handle_received_never_panics m msg n :
  match handle_received m msg n with Panic _ => False | _ => True end.
Proof.
  destruct msg; cbn [handle_received]; try exact I;
    repeat match goal with
    | |- context [maybe_free (?m <| ports := insert ?p (Connected ?c) (ports ?m) |>) ?p] =>
        let H := fresh in pose proof (maybe_free_insert m p c) as H;
        destruct (maybe_free (m <| ports := insert p (Connected c) (ports m) |>) p) as [[? ?]|]; [|congruence]
    | |- match (match ?x with _ => _ end) with _ => _ end => destruct x
    | |- match (if ?x then _ else _) with _ => _ end => destruct x
    | |- match (let (_, _) := ?x in _) with _ => _ end => destruct x
    end; try exact I.
Qed.
