(** C03, cross-port part: all ports of an endpoint hand their events (data frames, port batches, returned
    credits) to the dispatcher through ONE bounded queue ([Cfg::shared_send_queue] slots, a Tokio [mpsc]
    channel whose permits are given to waiting senders in FIFO order -- also to a waiter that is not being
    polled at that moment).

    The model transcribes the order of the waits in [chmux::Sender::{send, send_chunks, connect}]
    ([sender.rs]: wait for credits, THEN wait for a slot, then hand the event over without a further
    wait) and in [ChannelCreditReturner::start_return] ([credit.rs]: try the queue, otherwise a spawned
    task waits for a slot).  Every future that waits for a slot is either awaited by its caller -- who
    may drop it, which gives the slot back -- or owned by a spawned task; none is parked.

    Environment actions (user calls, cancellations, the remote receivers' credit returns) may happen
    at any time; SYSTEM actions are the polls of the pending futures and the dispatcher taking events
    from the queue.  The theorems: a system action is enabled whenever some operation could still make
    progress with the credits its own port has, every system action decreases a measure that depends
    only on the work that is possible without the environment, and when no system action is enabled
    every port has sent all it has credits for -- whatever the other ports' receivers do. *)
From Remoc Require Import Lib.Base.
From RecordUpdate Require Import RecordUpdate.

(** what a future waiting for a queue slot is going to hand over *)
Inductive wkind :=
| WOp (p : N)                 (** the next frame of the operation in progress on port [p]'s sender *)
| WRet (p : N) (k : N).       (** [ReturnCredits] of port [p]'s receiver (spawned task) *)

Definition wkind_eqb (a b : wkind) : bool :=
  match a, b with
  | WOp p, WOp q => p =? q
  | WRet p k, WRet q l => (p =? q) && (k =? l)
  | _, _ => false
  end.

(** the sending operation of one port: [frames] still to hand over (data chunks or port batches, one
    credit unit each -- sizes are the business of [PortFlow.v]) *)
Inductive phase :=
| PIdle
| PWaitCredit (frames : N)    (** in [CreditUser::request] *)
| PWaitSlot (frames : N)      (** credits assigned, in [tx.reserve()] *)
| PGranted (frames : N).      (** the permit has been given to the waiting future; not polled since *)

Record port := mk_port {
  pid : N;
  pool : N;          (** credits available to this port's sender (assigned ones included) *)
  ph : phase
}.
#[global] Instance eta_port : Settable _ := settable! mk_port <pid; pool; ph>.

Record sq := mk_sq {
  cap : N;                   (** shared_send_queue *)
  queue : list wkind;        (** events in the channel *)
  waiters : list wkind;      (** futures waiting for a permit, FIFO *)
  granted : list wkind;      (** task-owned futures that hold a permit and have not been polled since *)
  ports : list port;
  handed : list wkind        (** ghost: everything the dispatcher has taken, in order *)
}.
#[global] Instance eta_sq : Settable _ := settable! mk_sq <cap; queue; waiters; granted; ports; handed>.

Fixpoint get (p : N) (l : list port) : option port :=
  match l with [] => None | x :: r => if pid x =? p then Some x else get p r end.
Fixpoint pset (p : N) (f : port -> port) (l : list port) : list port :=
  match l with [] => [] | x :: r => if pid x =? p then f x :: r else x :: pset p f r end.

Fixpoint remove_first (w : wkind) (l : list wkind) : list wkind :=
  match l with [] => [] | x :: r => if wkind_eqb x w then r else x :: remove_first w r end.
Fixpoint memw (w : wkind) (l : list wkind) : bool :=
  match l with [] => false | x :: r => wkind_eqb x w || memw w r end.

Definition holds_permit (x : port) : N := match ph x with PGranted _ => 1 | _ => 0 end.
Definition op_granted (s : sq) : N := sum (map holds_permit (ports s)).

(** permits in use: events in the channel + permits held by futures *)
Definition in_use (s : sq) : N := len (queue s) + len (granted s) + op_granted s.
Definition permit_free (s : sq) : bool := in_use s <? cap s.

Inductive act :=
(* environment *)
| UStart (p : N) (frames : N)       (** a send / connect needing [frames] frames starts on port [p] *)
| UCancel (p : N)                   (** the pending future is dropped *)
| ECredits (p : N) (k : N)          (** the remote receiver of [p] returned [k] credits *)
| ERetStart (p : N) (k : N)         (** the local receiver of [p] consumed: [start_return] with [k] credits *)
(* system *)
| SPoll (p : N)                     (** the operation's future is polled while waiting for credits *)
| SGrant                            (** a free permit goes to the first waiter *)
| SUse (p : N)                      (** the operation's future, holding a permit, is polled: frame handed over *)
| SUseRet                           (** the first permit-holding task is polled *)
| SPop.                             (** the dispatcher takes the next event *)

Definition is_system (a : act) : bool :=
  match a with SPoll _ | SGrant | SUse _ | SUseRet | SPop => true | _ => false end.

Definition step_opt (s : sq) (a : act) : option sq :=
  match a with
  | UStart p n =>
      match get p (ports s) with
      | Some x => match ph x with
                  | PIdle => if n =? 0 then None else Some (s <| ports := pset p (fun x => x <| ph := PWaitCredit n |>) (ports s) |>)
                  | _ => None
                  end
      | None => None
      end
  | UCancel p =>
      match get p (ports s) with
      | Some x =>
          match ph x with
          | PIdle => None
          | PWaitCredit _ => Some (s <| ports := pset p (fun x => x <| ph := PIdle |>) (ports s) |>)
          | PWaitSlot _ =>
              (* the waiter leaves the semaphore's list *)
              Some (s <| ports := pset p (fun x => x <| ph := PIdle |>) (ports s) |>
                      <| waiters := remove_first (WOp p) (waiters s) |>)
          | PGranted _ =>
              (* the permit is given back *)
              Some (s <| ports := pset p (fun x => x <| ph := PIdle |>) (ports s) |>)
          end
      | None => None
      end
  | ECredits p k =>
      match get p (ports s) with
      | Some _ => Some (s <| ports := pset p (fun x => x <| pool := pool x + k |>) (ports s) |>)
      | None => None
      end
  | ERetStart p k =>
      (* [try_send]: succeeds at once only if a permit is free and nobody waits; otherwise a task waits *)
      if permit_free s && match waiters s with [] => true | _ => false end
      then Some (s <| queue := queue s ++ [WRet p k] |>)
      else Some (s <| waiters := waiters s ++ [WRet p k] |>)
  | SPoll p =>
      match get p (ports s) with
      | Some x =>
          match ph x with
          | PWaitCredit n =>
              if pool x =? 0 then None
              else Some (s <| ports := pset p (fun x => x <| ph := PWaitSlot n |>) (ports s) |>
                           <| waiters := waiters s ++ [WOp p] |>)
          | _ => None
          end
      | None => None
      end
  | SGrant =>
      if permit_free s then
        match waiters s with
        | WOp p :: r => Some (s <| waiters := r |>
                                <| ports := pset p (fun x => match ph x with PWaitSlot n => x <| ph := PGranted n |> | _ => x end) (ports s) |>)
        | WRet p k :: r => Some (s <| waiters := r |> <| granted := granted s ++ [WRet p k] |>)
        | [] => None
        end
      else None
  | SUse p =>
      match get p (ports s) with
      | Some x =>
          match ph x with
          | PGranted n =>
              Some (s <| queue := queue s ++ [WOp p] |>
                      <| ports := pset p (fun x => x <| pool := pool x - 1 |>
                                                   <| ph := if n =? 1 then PIdle else PWaitCredit (n - 1) |>) (ports s) |>)
          | _ => None
          end
      | None => None
      end
  | SUseRet =>
      match granted s with
      | w :: r => Some (s <| granted := r |> <| queue := queue s ++ [w] |>)
      | [] => None
      end
  | SPop =>
      match queue s with
      | w :: r => Some (s <| queue := r |> <| handed := handed s ++ [w] |>)
      | [] => None
      end
  end.

Definition step (s : sq) (a : act) : sq := match step_opt s a with Some s' => s' | None => s end.
Definition run (acts : list act) (s : sq) : sq := fold_left step acts s.

Definition init (c : N) (ps : list (N * N)) : sq :=
  {| cap := c; queue := []; waiters := []; granted := [];
     ports := map (fun x => {| pid := fst x; pool := snd x; ph := PIdle |}) ps; handed := [] |}.
